#!/bin/sh
# Runs every check against every round-2 change under /tmp/mut/out2 (its own
# property only) and prints one line per change plus totals.
for p in $(ls /tmp/mut/out2); do
  [ -d /tmp/mut/out2/$p/b1 ] || continue
  /verif/tools/seed_matrix.py --base /tmp/mut/out2/$p --prop $p 2>/dev/null | grep -E "^(b|q)[0-9] " | sed "s/^/$p /" &
done | sort > /tmp/mut/round2.txt
wait
cat /tmp/mut/round2.txt
echo "breaking caught: $(grep -E ' b[0-9] ' /tmp/mut/round2.txt | grep -c 'exit=1') / $(grep -cE ' b[0-9] ' /tmp/mut/round2.txt)"
echo "preserving quiet: $(grep -E ' q[0-9] ' /tmp/mut/round2.txt | grep -c 'exit=0') / $(grep -cE ' q[0-9] ' /tmp/mut/round2.txt)"
