#!/venv/bin/python
"""Mechanical behaviour-preserving rewrites of the library, to stress the
checkers' independence of spelling.

    preserve_fuzz.py <transformation> <out dir> [--seed N] [--only MODULE]

copies /repo/rig to <out dir>/rig and rewrites every module (or the one
named) with one class of transformation, applied at every site where it is
certainly meaning-preserving.  The checks must stay quiet on the result
(`tools/preserve_fuzz.sh` runs all twenty on each).  Transformations:

  reformat     parse + unparse only (layout, comments, parentheses)
  rename       local variables of functions without nested scopes get new names
  commute      operands of  * & | ^  swapped
  flipcmp      a < b  ->  b > a   (plain operands only)
  noteq        a != b  ->  not a == b ;  x is not None -> not x is None
  literals     dict() <-> {}, list() <-> [], set([a, b]) -> {a, b}
  items        six.iteritems(d) / iteritems(d) -> d.items() (also values/keys)
  ifexp        if c: x = A else: x = B   ->   x = A if c else B
  unifexp      x = A if c else B   ->   if c: x = A else: x = B
  negifexp     A if c else B  ->  B if not c else A
  swapassign   two adjacent independent simple assignments swapped
  guard        for ..: if c: continue; rest  ->  for ..: if not c: rest
  augassign    n -= 1 / n += 1 (integer constant)  ->  n = n - 1
  temp         return <expr>  ->  result = <expr>; return result
  chained      a <= b < c  ->  a <= b and b < c
  demorgan     not (a and b)  ->  not a or not b   (in tests)
  ifswap       if c: A else: B  ->  if not c: B else: A
  elifnest     elif chains as nested else: if
  comp2loop    x = [e for t in it if c]  ->  x = []; for ...: x.append(e)
  kwswap       keyword arguments of a call in reverse order
  range0       range(n)  ->  range(0, n)
  retifexp     if c: return X else: return Y  ->  return X if c else Y
  whiletrue    while c: B  ->  while True: if not c: break; B
  inlinetemp   t = <expr>; <statement using t once>  ->  expression in place
  lencmp       len(x) > 0 -> len(x) >= 1, len(x) == 0 -> len(x) < 1, ...
  tuplesplit   a, b = e1, e2  ->  a = e1; b = e2
  noop         assert True at the start of every function
  slice0       x[:n]  ->  x[0:n]
  augjoin      n = n + 1  ->  n += 1
"""
import ast
import os
import random
import shutil
import sys

REPO = os.environ.get("RIGVERIF_REPO", "/repo")


def plain(e):
    return isinstance(e, (ast.Name, ast.Constant)) or (
        isinstance(e, ast.Attribute) and plain(e.value)) or (
        isinstance(e, ast.Subscript) and plain(e.value) and
        isinstance(e.slice, (ast.Name, ast.Constant)))


def names_in(e):
    return set(n.id for n in ast.walk(e) if isinstance(n, ast.Name))


def has_call(e):
    return any(isinstance(n, (ast.Call, ast.Yield, ast.YieldFrom, ast.Await,
                              ast.NamedExpr)) for n in ast.walk(e))


class Commute(ast.NodeTransformer):
    def visit_BinOp(self, node):
        self.generic_visit(node)
        if isinstance(node.op, (ast.Mult, ast.BitAnd, ast.BitOr,
                                ast.BitXor)) and \
                not has_call(node.left) and not has_call(node.right):
            node.left, node.right = node.right, node.left
        return node


class FlipCmp(ast.NodeTransformer):
    FLIP = {ast.Lt: ast.Gt, ast.Gt: ast.Lt, ast.LtE: ast.GtE,
            ast.GtE: ast.LtE, ast.Eq: ast.Eq, ast.NotEq: ast.NotEq,
            ast.Is: ast.Is, ast.IsNot: ast.IsNot}

    def visit_Compare(self, node):
        self.generic_visit(node)
        if len(node.ops) == 1 and type(node.ops[0]) in self.FLIP and \
                plain(node.left) and plain(node.comparators[0]):
            return ast.Compare(left=node.comparators[0],
                               ops=[self.FLIP[type(node.ops[0])]()],
                               comparators=[node.left])
        return node


class NotEq(ast.NodeTransformer):
    def visit_Compare(self, node):
        self.generic_visit(node)
        if len(node.ops) == 1 and isinstance(node.ops[0], ast.NotEq):
            return ast.UnaryOp(op=ast.Not(), operand=ast.Compare(
                left=node.left, ops=[ast.Eq()],
                comparators=node.comparators))
        if len(node.ops) == 1 and isinstance(node.ops[0], ast.IsNot):
            return ast.UnaryOp(op=ast.Not(), operand=ast.Compare(
                left=node.left, ops=[ast.Is()],
                comparators=node.comparators))
        return node


class Literals(ast.NodeTransformer):
    def visit_Call(self, node):
        self.generic_visit(node)
        if isinstance(node.func, ast.Name) and not node.keywords:
            if node.func.id == "dict" and not node.args:
                return ast.Dict(keys=[], values=[])
            if node.func.id == "list" and not node.args:
                return ast.List(elts=[], ctx=ast.Load())
            if node.func.id == "set" and len(node.args) == 1 and \
                    isinstance(node.args[0], (ast.List, ast.Tuple)) and \
                    node.args[0].elts and not any(
                        isinstance(x, ast.Starred)
                        for x in node.args[0].elts):
                return ast.Set(elts=node.args[0].elts)
        return node

    def visit_Dict(self, node):
        self.generic_visit(node)
        if not node.keys:
            return ast.Call(func=ast.Name(id="dict", ctx=ast.Load()),
                            args=[], keywords=[])
        return node


class Items(ast.NodeTransformer):
    M = {"iteritems": "items", "itervalues": "values", "iterkeys": "keys"}

    def visit_Call(self, node):
        self.generic_visit(node)
        f = node.func
        nm = f.id if isinstance(f, ast.Name) else (
            f.attr if isinstance(f, ast.Attribute) and
            isinstance(f.value, ast.Name) and f.value.id == "six" else None)
        if nm in self.M and len(node.args) == 1 and not node.keywords:
            return ast.Call(func=ast.Attribute(value=node.args[0],
                                               attr=self.M[nm],
                                               ctx=ast.Load()),
                            args=[], keywords=[])
        return node


def _single_assign(body):
    return len(body) == 1 and isinstance(body[0], ast.Assign) and \
        len(body[0].targets) == 1 and isinstance(body[0].targets[0],
                                                 ast.Name)


class IfExp(ast.NodeTransformer):
    def visit_If(self, node):
        self.generic_visit(node)
        if _single_assign(node.body) and _single_assign(node.orelse) and \
                node.body[0].targets[0].id == node.orelse[0].targets[0].id:
            return ast.Assign(
                targets=[ast.Name(id=node.body[0].targets[0].id,
                                  ctx=ast.Store())],
                value=ast.IfExp(test=node.test, body=node.body[0].value,
                                orelse=node.orelse[0].value), lineno=0)
        return node


class UnIfExp(ast.NodeTransformer):
    def visit_Assign(self, node):
        if len(node.targets) == 1 and isinstance(node.targets[0], ast.Name) \
                and isinstance(node.value, ast.IfExp):
            v = node.value
            mk = lambda e: ast.Assign(targets=[ast.Name(   # noqa: E731
                id=node.targets[0].id, ctx=ast.Store())], value=e, lineno=0)
            return ast.If(test=v.test, body=[mk(v.body)],
                          orelse=[mk(v.orelse)])
        return node


class NegIfExp(ast.NodeTransformer):
    def visit_IfExp(self, node):
        self.generic_visit(node)
        return ast.IfExp(test=ast.UnaryOp(op=ast.Not(), operand=node.test),
                         body=node.orelse, orelse=node.body)


class SwapAssign(ast.NodeTransformer):
    def _swap(self, body):
        i = 0
        while i + 1 < len(body):
            a, b = body[i], body[i + 1]
            if all(isinstance(s, ast.Assign) and len(s.targets) == 1 and
                   isinstance(s.targets[0], ast.Name) and
                   not has_call(s.value) and
                   not any(isinstance(n, (ast.Subscript, ast.Attribute))
                           for n in ast.walk(s.value))
                   for s in (a, b)):
                ta, tb = a.targets[0].id, b.targets[0].id
                if ta != tb and ta not in names_in(b.value) and \
                        tb not in names_in(a.value):
                    body[i], body[i + 1] = b, a
                    i += 2
                    continue
            i += 1
        return body

    def generic_visit(self, node):
        super(SwapAssign, self).generic_visit(node)
        if isinstance(node, (ast.ClassDef, ast.Module)):
            return node     # definition order of class members is visible
        for f in ("body", "orelse", "finalbody"):
            b = getattr(node, f, None)
            if isinstance(b, list) and b and isinstance(b[0], ast.stmt):
                setattr(node, f, self._swap(b))
        return node


class Guard(ast.NodeTransformer):
    def visit_For(self, node):
        self.generic_visit(node)
        b = node.body
        if len(b) >= 2 and isinstance(b[0], ast.If) and not b[0].orelse and \
                len(b[0].body) == 1 and isinstance(b[0].body[0],
                                                   ast.Continue) and \
                not node.orelse and not any(
                    isinstance(x, ast.Continue)
                    for s in b[1:] for x in ast.walk(s)):
            node.body = [ast.If(test=ast.UnaryOp(op=ast.Not(),
                                                 operand=b[0].test),
                                body=b[1:], orelse=[])]
        return node


class AugAssign(ast.NodeTransformer):
    def visit_AugAssign(self, node):
        if isinstance(node.target, ast.Name) and isinstance(
                node.op, (ast.Add, ast.Sub)) and isinstance(
                    node.value, ast.Constant) and isinstance(
                        node.value.value, int) and not isinstance(
                            node.value.value, bool):
            return ast.Assign(
                targets=[ast.Name(id=node.target.id, ctx=ast.Store())],
                value=ast.BinOp(left=ast.Name(id=node.target.id,
                                              ctx=ast.Load()),
                                op=node.op, right=node.value), lineno=0)
        return node


class Temp(ast.NodeTransformer):
    def visit_FunctionDef(self, node):
        self.generic_visit(node)
        used = names_in(node) | set(a.arg for a in ast.walk(node)
                                    if isinstance(a, ast.arg))
        if "result_" in used or any(isinstance(x, (ast.Yield, ast.YieldFrom))
                                    for x in ast.walk(node)):
            return node

        class R(ast.NodeTransformer):
            def visit_FunctionDef(self, n):
                return n            # not into nested functions

            def visit_Lambda(self, n):
                return n

            def visit_Return(self, r):
                if r.value is None or isinstance(r.value, (ast.Name,
                                                           ast.Constant)):
                    return r
                return [ast.Assign(targets=[ast.Name(id="result_",
                                                     ctx=ast.Store())],
                                   value=r.value, lineno=0),
                        ast.Return(value=ast.Name(id="result_",
                                                  ctx=ast.Load()))]
        node.body = [x for s in node.body
                     for x in (lambda v: v if isinstance(v, list) else [v])(
                         R().visit(s))]
        return node


class Rename(ast.NodeTransformer):
    """Rename the plain local variables of functions that have no nested
    scopes (no inner def / lambda / comprehension / class) and no
    global / nonlocal / locals() / exec uses."""

    def visit_FunctionDef(self, node):
        inner = [n for n in ast.walk(node) if n is not node and isinstance(
            n, (ast.FunctionDef, ast.Lambda, ast.ListComp, ast.SetComp,
                ast.DictComp, ast.GeneratorExp, ast.ClassDef, ast.Global,
                ast.Nonlocal, ast.AsyncFunctionDef))]
        if inner or any(isinstance(n, ast.Name) and n.id in (
                "locals", "vars", "exec", "eval") for n in ast.walk(node)):
            self.generic_visit(node)
            return node
        params = set(a.arg for a in ast.walk(node.args)
                     if isinstance(a, ast.arg))
        stored = set(n.id for n in ast.walk(node) if isinstance(n, ast.Name)
                     and isinstance(n.ctx, (ast.Store, ast.Del)))
        # names bound by import / except / with-as are left alone
        other = set()
        for n in ast.walk(node):
            if isinstance(n, ast.ExceptHandler) and n.name:
                other.add(n.name)
            if isinstance(n, (ast.Import, ast.ImportFrom)):
                other |= set((a.asname or a.name).split(".")[0]
                             for a in n.names)
        local = stored - params - other
        taken = names_in(node) | params
        m = {}
        for nm in sorted(local):
            new = nm + "_v"
            while new in taken:
                new += "v"
            taken.add(new)
            m[nm] = new
        for n in ast.walk(node):
            if isinstance(n, ast.Name) and n.id in m:
                n.id = m[n.id]
        return node


class Reformat(ast.NodeTransformer):
    pass


class Chained(ast.NodeTransformer):
    """a <= b < c  ->  a <= b and b < c   (plain middle operands)"""

    def visit_Compare(self, node):
        self.generic_visit(node)
        if len(node.ops) >= 2 and all(plain(c) for c in
                                      node.comparators[:-1]):
            parts = []
            left = node.left
            for op, right in zip(node.ops, node.comparators):
                parts.append(ast.Compare(left=left, ops=[op],
                                         comparators=[right]))
                left = right
            return ast.BoolOp(op=ast.And(), values=parts)
        return node


class DeMorgan(ast.NodeTransformer):
    """``not (a and b)`` -> ``not a or not b`` in tests (truth value
    contexts only: if / while / assert / conditional expressions)."""

    def _neg(self, e):
        return ast.UnaryOp(op=ast.Not(), operand=e)

    def _test(self, t):
        if isinstance(t, ast.UnaryOp) and isinstance(t.op, ast.Not) and \
                isinstance(t.operand, ast.BoolOp):
            b = t.operand
            op = ast.Or() if isinstance(b.op, ast.And) else ast.And()
            return ast.BoolOp(op=op, values=[self._neg(v) for v in b.values])
        return t

    def visit_If(self, node):
        self.generic_visit(node)
        node.test = self._test(node.test)
        return node

    def visit_While(self, node):
        self.generic_visit(node)
        node.test = self._test(node.test)
        return node

    def visit_IfExp(self, node):
        self.generic_visit(node)
        node.test = self._test(node.test)
        return node


class IfSwap(ast.NodeTransformer):
    """if c: A else: B  ->  if not c: B else: A"""

    def visit_If(self, node):
        self.generic_visit(node)
        if node.orelse and not (len(node.orelse) == 1 and
                                isinstance(node.orelse[0], ast.If)):
            return ast.If(test=ast.UnaryOp(op=ast.Not(), operand=node.test),
                          body=node.orelse, orelse=node.body)
        return node


class ElifNest(ast.NodeTransformer):
    """elif chains written as nested else: if"""
    # (ast represents elif as orelse=[If]; unparse prints 'elif'.  Wrap the
    # nested If with a preceding ``pass`` so that it is printed nested.)

    def visit_If(self, node):
        self.generic_visit(node)
        if len(node.orelse) == 1 and isinstance(node.orelse[0], ast.If):
            node.orelse = [ast.Pass(), node.orelse[0]]
        return node


class Comp2Loop(ast.NodeTransformer):
    """x = [e for t in it if c]  ->  x = []; for t in it: if c: x.append(e)
    (single generator, plain assignment to a name not used in the
    comprehension, function bodies only)."""

    def _rewrite(self, body):
        out = []
        for s in body:
            if isinstance(s, ast.Assign) and len(s.targets) == 1 and \
                    isinstance(s.targets[0], ast.Name) and \
                    isinstance(s.value, (ast.ListComp, ast.SetComp)) and \
                    len(s.value.generators) == 1 and \
                    not s.value.generators[0].is_async and \
                    s.targets[0].id not in names_in(s.value) and \
                    not any(isinstance(n, (ast.Lambda, ast.ListComp,
                                           ast.SetComp, ast.DictComp,
                                           ast.GeneratorExp))
                            for n in ast.walk(s.value) if n is not s.value):
                g = s.value.generators[0]
                nm = s.targets[0].id
                is_list = isinstance(s.value, ast.ListComp)
                init = ast.Assign(
                    targets=[ast.Name(id=nm, ctx=ast.Store())],
                    value=ast.List(elts=[], ctx=ast.Load()) if is_list else
                    ast.Call(func=ast.Name(id="set", ctx=ast.Load()),
                             args=[], keywords=[]), lineno=0)
                add = ast.Expr(value=ast.Call(
                    func=ast.Attribute(value=ast.Name(id=nm, ctx=ast.Load()),
                                       attr="append" if is_list else "add",
                                       ctx=ast.Load()),
                    args=[s.value.elt], keywords=[]))
                inner = [add]
                for c in reversed(g.ifs):
                    inner = [ast.If(test=c, body=inner, orelse=[])]
                loop = ast.For(target=g.target, iter=g.iter, body=inner,
                               orelse=[], lineno=0)
                out += [init, loop]
            else:
                out.append(s)
        return out

    def visit_FunctionDef(self, node):
        self.generic_visit(node)
        # the loop variable of a comprehension is private to it; as a loop
        # it becomes a local: only where that name is not otherwise used
        used = {}
        for n in ast.walk(node):
            if isinstance(n, ast.Name):
                used[n.id] = used.get(n.id, 0) + 1
        for holder in ast.walk(node):
            for f in ("body", "orelse", "finalbody"):
                b = getattr(holder, f, None)
                if isinstance(b, list) and b and isinstance(b[0], ast.stmt) \
                        and not isinstance(holder, ast.ClassDef):
                    ok = []
                    for s in b:
                        ok.append(s)
                    setattr(holder, f, self._rewrite_safe(b, node))
        return node

    def _rewrite_safe(self, body, fn):
        out = []
        for s in body:
            r = self._rewrite([s])
            if len(r) == 2:
                g = s.value.generators[0]
                tnames = set(n.id for n in ast.walk(g.target)
                             if isinstance(n, ast.Name))
                outside = set()
                for n in ast.walk(fn):
                    if isinstance(n, ast.Name) and n.id in tnames:
                        # occurrences outside this comprehension?
                        p = n
                        inside = False
                        for m in ast.walk(s.value):
                            if m is n:
                                inside = True
                                break
                        if not inside:
                            outside.add(n.id)
                params = set(a.arg for a in ast.walk(fn.args)
                             if isinstance(a, ast.arg))
                if outside or tnames & params:
                    out.append(s)
                    continue
            out += r
        return out


class KwSwap(ast.NodeTransformer):
    """f(a, x=1, y=2) -> f(a, y=2, x=1)  (plain keyword values only)"""

    def visit_Call(self, node):
        self.generic_visit(node)
        kws = node.keywords
        if len(kws) >= 2 and all(k.arg is not None and plain(k.value)
                                 for k in kws):
            node.keywords = list(reversed(kws))
        return node


class Range0(ast.NodeTransformer):
    """range(n) -> range(0, n)"""

    def visit_Call(self, node):
        self.generic_visit(node)
        if isinstance(node.func, ast.Name) and node.func.id == "range" and \
                len(node.args) == 1 and not node.keywords:
            node.args = [ast.Constant(value=0), node.args[0]]
        return node


class RetIfExp(ast.NodeTransformer):
    """if c: return X else: return Y  ->  return X if c else Y"""

    def visit_If(self, node):
        self.generic_visit(node)
        if len(node.body) == 1 and len(node.orelse) == 1 and all(
                isinstance(s, ast.Return) and s.value is not None
                for s in (node.body[0], node.orelse[0])):
            return ast.Return(value=ast.IfExp(test=node.test,
                                              body=node.body[0].value,
                                              orelse=node.orelse[0].value))
        return node


class WhileTrue(ast.NodeTransformer):
    """while c: B  ->  while True: if not c: break; B   (no else clause)"""

    def visit_While(self, node):
        self.generic_visit(node)
        if node.orelse or (isinstance(node.test, ast.Constant) and
                           node.test.value is True):
            return node
        guard = ast.If(test=ast.UnaryOp(op=ast.Not(), operand=node.test),
                       body=[ast.Break()], orelse=[])
        return ast.While(test=ast.Constant(value=True),
                         body=[guard] + node.body, orelse=[])


class InlineTemp(ast.NodeTransformer):
    """t = <call-free expr>; <next statement using t once>  ->  the next
    statement with the expression in place (t not used anywhere else)."""

    def visit_FunctionDef(self, node):
        self.generic_visit(node)
        uses = {}
        stores = {}
        for n in ast.walk(node):
            if isinstance(n, ast.Name):
                if isinstance(n.ctx, ast.Load):
                    uses[n.id] = uses.get(n.id, 0) + 1
                else:
                    stores[n.id] = stores.get(n.id, 0) + 1
        for holder in ast.walk(node):
            for f in ("body", "orelse", "finalbody"):
                b = getattr(holder, f, None)
                if not (isinstance(b, list) and len(b) >= 2) or \
                        isinstance(holder, ast.ClassDef):
                    continue
                i = 0
                while i + 1 < len(b):
                    a, nx = b[i], b[i + 1]
                    if isinstance(a, ast.Assign) and len(a.targets) == 1 \
                            and isinstance(a.targets[0], ast.Name) and \
                            not has_call(a.value) and \
                            uses.get(a.targets[0].id) == 1 and \
                            stores.get(a.targets[0].id) == 1 and \
                            isinstance(nx, (ast.Assign, ast.Expr,
                                            ast.Return, ast.AugAssign)) and \
                            not any(isinstance(x, (ast.Lambda, ast.ListComp,
                                                   ast.SetComp, ast.DictComp,
                                                   ast.GeneratorExp))
                                    for x in ast.walk(nx)):
                        nm = a.targets[0].id
                        hits = [x for x in ast.walk(nx)
                                if isinstance(x, ast.Name) and x.id == nm
                                and isinstance(x.ctx, ast.Load)]
                        if len(hits) == 1:
                            class Sub(ast.NodeTransformer):
                                def visit_Name(self, n_):
                                    if n_ is hits[0]:
                                        return a.value
                                    return n_
                            b[i + 1] = Sub().visit(nx)
                            del b[i]
                            continue
                    i += 1
        return node


class LenCmp(ast.NodeTransformer):
    """len(x) > 0 -> len(x) >= 1 ; len(x) == 0 -> len(x) < 1 ;
    len(x) != 0 -> len(x) > 0"""

    def visit_Compare(self, node):
        self.generic_visit(node)
        if len(node.ops) == 1 and isinstance(node.left, ast.Call) and \
                isinstance(node.left.func, ast.Name) and \
                node.left.func.id == "len" and \
                isinstance(node.comparators[0], ast.Constant) and \
                node.comparators[0].value == 0:
            op = node.ops[0]
            if isinstance(op, ast.Gt):
                return ast.Compare(left=node.left, ops=[ast.GtE()],
                                   comparators=[ast.Constant(value=1)])
            if isinstance(op, ast.Eq):
                return ast.Compare(left=node.left, ops=[ast.Lt()],
                                   comparators=[ast.Constant(value=1)])
            if isinstance(op, ast.NotEq):
                return ast.Compare(left=node.left, ops=[ast.Gt()],
                                   comparators=[ast.Constant(value=0)])
        return node


class TupleSplit(ast.NodeTransformer):
    """a, b = e1, e2  ->  a = e1; b = e2   (names on the left, call-free
    right sides that do not read the names assigned before them)"""

    def _do(self, body):
        out = []
        for s_ in body:
            if isinstance(s_, ast.Assign) and len(s_.targets) == 1 and \
                    isinstance(s_.targets[0], ast.Tuple) and \
                    isinstance(s_.value, ast.Tuple) and \
                    len(s_.targets[0].elts) == len(s_.value.elts) and \
                    all(isinstance(t, ast.Name)
                        for t in s_.targets[0].elts) and \
                    not has_call(s_.value):
                names = [t.id for t in s_.targets[0].elts]
                ok = len(set(names)) == len(names) and all(
                    not (set(names[:i]) & names_in(v))
                    for i, v in enumerate(s_.value.elts))
                if ok:
                    for t, v in zip(s_.targets[0].elts, s_.value.elts):
                        out.append(ast.Assign(targets=[ast.Name(
                            id=t.id, ctx=ast.Store())], value=v, lineno=0))
                    continue
            out.append(s_)
        return out

    def generic_visit(self, node):
        super(TupleSplit, self).generic_visit(node)
        if isinstance(node, (ast.ClassDef, ast.Module)):
            return node
        for f in ("body", "orelse", "finalbody"):
            b = getattr(node, f, None)
            if isinstance(b, list) and b and isinstance(b[0], ast.stmt):
                setattr(node, f, self._do(b))
        return node


class Noop(ast.NodeTransformer):
    """``assert True`` at the start of every function (after the docstring)
    and before every return of a value"""

    def visit_FunctionDef(self, node):
        self.generic_visit(node)
        i = 1 if node.body and isinstance(node.body[0], ast.Expr) and \
            isinstance(node.body[0].value, ast.Constant) and \
            isinstance(node.body[0].value.value, str) else 0
        node.body.insert(i, ast.Assert(test=ast.Constant(value=True),
                                       msg=None))
        return node


class Slice0(ast.NodeTransformer):
    """x[:n] -> x[0:n]   (explicit zero lower bound, no step)"""

    def visit_Slice(self, node):
        self.generic_visit(node)
        if node.lower is None and node.upper is not None and \
                node.step is None:
            node.lower = ast.Constant(value=0)
        return node


class AugJoin(ast.NodeTransformer):
    """n = n + 1 / n = n - 1 (integer constant)  ->  n += 1"""

    def visit_Assign(self, node):
        if len(node.targets) == 1 and isinstance(node.targets[0], ast.Name) \
                and isinstance(node.value, ast.BinOp) and \
                isinstance(node.value.op, (ast.Add, ast.Sub)) and \
                isinstance(node.value.left, ast.Name) and \
                node.value.left.id == node.targets[0].id and \
                isinstance(node.value.right, ast.Constant) and \
                isinstance(node.value.right.value, int) and \
                not isinstance(node.value.right.value, bool):
            return ast.AugAssign(target=ast.Name(id=node.targets[0].id,
                                                 ctx=ast.Store()),
                                 op=node.value.op, value=node.value.right)
        return node


CLASSES = {"reformat": Reformat, "rename": Rename, "commute": Commute,
           "flipcmp": FlipCmp, "noteq": NotEq, "literals": Literals,
           "items": Items, "ifexp": IfExp, "unifexp": UnIfExp,
           "negifexp": NegIfExp, "swapassign": SwapAssign, "guard": Guard,
           "augassign": AugAssign, "temp": Temp, "chained": Chained,
           "demorgan": DeMorgan, "ifswap": IfSwap, "elifnest": ElifNest,
           "comp2loop": Comp2Loop, "kwswap": KwSwap, "range0": Range0,
           "retifexp": RetIfExp, "whiletrue": WhileTrue,
           "inlinetemp": InlineTemp, "lencmp": LenCmp,
           "tuplesplit": TupleSplit, "noop": Noop, "slice0": Slice0,
           "augjoin": AugJoin}


def main():
    if len(sys.argv) < 3 or not all(k in CLASSES
                                    for k in sys.argv[1].split("+")):
        sys.stderr.write(__doc__)
        return 2
    kind, out = sys.argv[1], sys.argv[2]
    kinds = kind.split("+")         # several classes, applied in turn
    only = None
    if "--only" in sys.argv:
        only = sys.argv[sys.argv.index("--only") + 1]
    dst = os.path.join(out, "rig")
    if os.path.exists(dst):
        shutil.rmtree(dst)
    shutil.copytree(os.path.join(REPO, "rig"), dst)
    n = 0
    for root, dirs, files in os.walk(dst):
        for f in files:
            if not f.endswith(".py"):
                continue
            p = os.path.join(root, f)
            rel = os.path.relpath(p, out)
            if only and only not in rel:
                continue
            src = open(p).read()
            try:
                tree = ast.parse(src)
            except SyntaxError:
                continue
            before = ast.dump(tree)
            for k_ in kinds:
                tree = CLASSES[k_]().visit(tree)
                ast.fix_missing_locations(tree)
                # (re-parse between passes: fresh nodes, fresh parents)
                tree = ast.parse(ast.unparse(tree))
            if kind != "reformat" and ast.dump(tree) == before:
                continue
            new = ast.unparse(tree) + "\n"
            compile(new, p, "exec")
            open(p, "w").write(new)
            n += 1
    print("%s: %d module(s) rewritten under %s" % (kind, n, dst))
    return 0


if __name__ == "__main__":
    sys.exit(main())
