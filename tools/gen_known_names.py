#!/venv/bin/python
"""Writes rigverif/known_names.json: every function ("f") and class ("c")
qualname of the reference tree (/repo as the checks were confirmed on), per
module.  Helpers that are not in this table are analysed as nested functions
of their callers (core.Program._nest_new_helpers)."""
import ast, json, os, sys
sys.path.insert(0, os.path.dirname(os.path.dirname(os.path.abspath(__file__))))
os.environ.setdefault("RIGVERIF_REPO", "/repo")
from rigverif.core import Program
p = Program()
out = {}
for name, m in sorted(p.modules.items()):
    d = {}
    for q, n in m.defs.items():
        if q == "__dups__":
            continue
        d[q] = "c" if isinstance(n, ast.ClassDef) else "f"
    # module-level variables ("v"): a numeric constant bound at module level
    # that is not in this table is read through (core._inline_new_constants)
    for st in m.tree.body:
        for x in ast.walk(st) if not isinstance(st, (ast.FunctionDef, ast.ClassDef, ast.AsyncFunctionDef)) else []:
            if isinstance(x, ast.Name) and isinstance(x.ctx, ast.Store):
                d.setdefault(x.id, "v")
    # class-level variables ("v", as Class.NAME)
    for q, n in m.defs.items():
        if q != "__dups__" and isinstance(n, ast.ClassDef):
            for st in n.body:
                if isinstance(st, (ast.Assign, ast.AnnAssign, ast.AugAssign)):
                    for x in ast.walk(st):
                        if isinstance(x, ast.Name) and isinstance(x.ctx, ast.Store):
                            d.setdefault(q + "." + x.id, "v")
    out[name] = d
# parameter lists and stored attribute names of the reference tree: a
# parameter / attribute that is not in them was added since
# (core._specialise_defaults reads functions at the defaults of new parameters)
params = {}
attrs = set()
for name, m in sorted(p.modules.items()):
    pd = {}
    for q, n in m.defs.items():
        if q != "__dups__" and isinstance(n, (ast.FunctionDef, ast.AsyncFunctionDef)):
            a = n.args
            pd[q] = [x.arg for x in a.posonlyargs + a.args + a.kwonlyargs] + \
                ([a.vararg.arg] if a.vararg else []) + ([a.kwarg.arg] if a.kwarg else [])
    params[name] = pd
    for x in ast.walk(m.tree):
        if isinstance(x, ast.Attribute) and isinstance(x.ctx, (ast.Store, ast.Del)):
            attrs.add(x.attr)
base = os.path.join(os.path.dirname(os.path.dirname(os.path.abspath(__file__))), "rigverif")
json.dump({"params": params, "attrs": sorted(attrs)}, open(os.path.join(base, "reference_params.json"), "w"), indent=0, sort_keys=True)
path = os.path.join(os.path.dirname(os.path.dirname(os.path.abspath(__file__))), "rigverif", "known_names.json")
json.dump(out, open(path, "w"), indent=0, sort_keys=True)
print(sum(len(v) for v in out.values()), "names")
