#!/bin/sh
# usage: seed_out.sh <seed dir with patch.diff> <prop> : full check output against the patched copy
D="$1"; P="$2"
T=$(mktemp -d /tmp/rv_so_XXXX)
cp -r /repo/rig $T/rig
( cd / && git apply --unsafe-paths --directory=$T "$D/patch.diff" ) || echo NOAPPLY
RIGVERIF_REPO=$T RIGVERIF_EVDIR=$T/ev /verif/vcheck $P --tier quick 2>&1 | grep -vE "^ +ok|^OK " | cut -c1-${3:-600}
rm -rf $T
