#!/bin/sh
# Records, per property, the digest of the source its check consults on the
# tree the rules were confirmed on (/repo as it stands), in
# rigverif/reference_digests.json.  On that tree a rule that misses its
# instance floor is a broken checker (exit 2); on any other tree it is a rule
# without a verdict (UNDECIDED).  Also refreshes rigverif/known_names.json.
cd /verif
tools/gen_known_names.py
T=$(mktemp -d)
for i in $(seq -w 1 20); do
  RIGVERIF_EVDIR=$T ./vcheck C$i --tier quick >/dev/null 2>&1
done
/venv/bin/python - "$T" <<'PY'
import json, sys, os
out = {}
for i in range(1, 21):
    p = "C%02d" % i
    d = json.load(open(os.path.join(sys.argv[1], p + ".json")))
    out[p] = d["coverage"]["source_digest"]
json.dump(out, open("/verif/rigverif/reference_digests.json", "w"), indent=0, sort_keys=True)
print(out)
PY
rm -rf $T
