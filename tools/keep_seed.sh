#!/bin/sh
# usage: keep_seed.sh Cxx b1|q1|...   copies a verified round-2 change from
# /tmp/mut/out2/Cxx/<v> to /verif/seeded/Cxx-<v>/ (patch.diff, demo.py or
# equiv.py (+ its data files), meta.json)
P="$1"; V="$2"
S=/tmp/mut/out2/$P/$V
D=/verif/seeded/$P-$V
grep -q " OK " /tmp/mut/v2/$P.txt || { echo "not verified: $P"; exit 1; }
grep -q "out2/$P/$V OK" /tmp/mut/v2/$P.txt || { echo "not verified: $P/$V"; exit 1; }
mkdir -p "$D"
cp "$S/patch.diff" "$S/meta.json" "$D/"
for f in demo.py equiv.py; do [ -f "$S/$f" ] && cp "$S/$f" "$D/"; done
for f in "$S"/orig_*.py; do [ -f "$f" ] && cp "$f" "$D/"; done
/venv/bin/python - "$D" "$P" "$V" <<'PY'
import json, sys
d, p, v = sys.argv[1:]
m = json.load(open(d + "/meta.json"))
m["property"] = p
m.setdefault("kind", "breaking" if v.startswith("b") else "preserving")
m["round"] = 2
line = [l for l in open("/tmp/mut/v2/%s.txt" % p) if "/%s/%s " % (p, v) in l]
m["confirmed_by_me"] = ("tools/verify_seed2.sh in a scratch worktree: " +
                         " ".join(line[0].split()[1:])) if line else ""
json.dump(m, open(d + "/meta.json", "w"), indent=1)
PY
echo "kept $D"
