#!/venv/bin/python
"""Cross-property matrix, targeted: every kept behaviour-preserving change
whose id starts with one of the given prefixes is checked by every *other*
property's check that consults a module the change touches (according to
evidence/<id>.json modules_consulted).  Prints one line per (seed, check);
anything but exit=0 is an alarm.
usage: cross_targeted.py [id-prefix ...]"""
import json
import os
import re
import sys
from concurrent.futures import ThreadPoolExecutor

HERE = os.path.dirname(os.path.dirname(os.path.abspath(__file__)))
sys.path.insert(0, os.path.join(HERE, "tools"))
import seed_matrix  # noqa: E402


def main(argv):
    consulted = {}
    for i in range(1, 21):
        pid = "C%02d" % i
        e = json.load(open(os.path.join(HERE, "evidence", pid + ".json")))
        consulted[pid] = set(e["coverage"].get("modules_consulted", []))
    jobs = []
    for sid in sorted(os.listdir(os.path.join(HERE, "seeded"))):
        if argv and not any(sid.startswith(a) for a in argv):
            continue
        d = os.path.join(HERE, "seeded", sid)
        try:
            m = json.load(open(os.path.join(d, "meta.json")))
        except (IOError, ValueError):
            continue
        if m.get("kind") != "preserving":
            continue
        files = re.findall(r"^\+\+\+ b/(\S+)", open(os.path.join(
            d, "patch.diff")).read(), re.M)
        mods = set()
        data = False
        for f in files:
            if f.endswith(".py"):
                mod = f[:-3].replace("/", ".")
                if mod.endswith(".__init__"):
                    mod = mod[:-9]
                mods.add(mod)
            else:
                data = True
        props = [p for p in sorted(consulted) if p != sid[:3] and (
            data or consulted[p] & mods)]
        if props:
            jobs.append((d, props))
    print("# %d seeds, %d runs" % (len(jobs), sum(len(p) for _, p in jobs)),
          flush=True)
    with ThreadPoolExecutor(14) as ex:
        for res in ex.map(lambda j: seed_matrix.run_one(*j), jobs):
            for sid, p, rc, txt in res:
                print("%-10s %s  exit=%s %s" % (sid, p, rc, txt), flush=True)


if __name__ == "__main__":
    main(sys.argv[1:])
