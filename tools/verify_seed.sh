#!/bin/sh
# usage: verify_seed.sh <dir with patch.diff demo.py meta.json> <scratch worktree>
# Confirms: demo passes on clean tree, fails with patch, suite failures unchanged.
# Prints one line: <dir> OK|BAD <details>
D="$1"; W="$2"
cd "$W" || exit 2
git checkout -q -- . ; rm -f demo.py
cp "$D/demo.py" demo.py
/venv/bin/python -W ignore demo.py >/dev/null 2>&1; clean=$?
if ! git apply "$D/patch.diff" 2>/dev/null; then echo "$D BAD patch-does-not-apply"; rm -f demo.py; exit 1; fi
/venv/bin/python -W ignore demo.py >/dev/null 2>&1; mut=$?
rm -f demo.py
/venv/bin/python -m pytest -q -p no:cacheprovider --timeout=900 --continue-on-collection-errors 2>&1 | grep -E "^(FAILED|ERROR)" | sed 's/ - .*//' | sort > /tmp/seedsuite.$$.txt
git checkout -q -- .
if [ ! -f /tmp/mut/baseline_fail.txt ]; then
  /venv/bin/python -m pytest -q -p no:cacheprovider --timeout=900 --continue-on-collection-errors 2>&1 | grep -E "^(FAILED|ERROR)" | sed 's/ - .*//' | sort > /tmp/mut/baseline_fail.txt
fi
if cmp -s /tmp/seedsuite.$$.txt /tmp/mut/baseline_fail.txt; then suite=same; else suite=DIFF; fi
rm -f /tmp/seedsuite.$$.txt
if [ "$clean" = 0 ] && [ "$mut" != 0 ] && [ "$suite" = same ]; then echo "$D OK clean=$clean mut=$mut suite=$suite"; else echo "$D BAD clean=$clean mut=$mut suite=$suite"; fi
