#!/venv/bin/python
"""Run checks against seeded changes without touching /repo: for each
/verif/seeded/<id>/patch.diff copy /repo's working tree (rig/ only) to a
scratch directory, apply the patch there and run the property's check (or,
with --all, every check) with RIGVERIF_REPO pointing at the copy.

usage: seed_matrix.py [--all] [--dir seeded|quiet] [id-prefix ...]
Prints one line per (seed, check): exit code and the first rule that fired.
"""
import concurrent.futures
import json
import os
import shutil
import subprocess
import sys
import tempfile

HERE = os.path.dirname(os.path.dirname(os.path.abspath(__file__)))
REPO = "/repo"


def run_one(seed_dir, props):
    sid = os.path.basename(seed_dir.rstrip("/"))
    tmp = tempfile.mkdtemp(prefix="rv_seed_")
    out = []
    try:
        shutil.copytree(os.path.join(REPO, "rig"), os.path.join(tmp, "rig"),
                        ignore=shutil.ignore_patterns("__pycache__"))
        r = subprocess.run(["git", "apply", "--unsafe-paths",
                            "--directory=" + tmp,
                            os.path.join(seed_dir, "patch.diff")],
                           cwd="/", capture_output=True, text=True)
        if r.returncode != 0:
            r = subprocess.run(["patch", "-p1", "-s", "-i",
                                os.path.join(seed_dir, "patch.diff")],
                               cwd=tmp, capture_output=True, text=True)
            if r.returncode != 0:
                return [(sid, "-", "NOAPPLY", r.stderr.strip()[:80])]
        for p in props:
            env = dict(os.environ, RIGVERIF_REPO=tmp,
                       RIGVERIF_EVDIR=os.path.join(tmp, "ev"))
            r = subprocess.run([os.path.join(HERE, "vcheck"), p, "--tier",
                                "quick"], env=env, capture_output=True,
                               text=True)
            rules = [l.split("rule=")[1].split()[0] for l in
                     r.stdout.splitlines() if "rule=" in l]
            err = [l for l in r.stdout.splitlines()
                   if l.startswith("ANALYSIS-ERROR")]
            und = sorted(set(
                l.split("rules=")[1].split()[0] for l in
                r.stdout.splitlines() if l.startswith("UNDECIDED")))
            out.append((sid, p, r.returncode,
                        (",".join(sorted(set(rules)))
                         or (err[0][:100] if err else "")) +
                        ("  [undecided: %s]" % ",".join(und) if und
                         else "")))
    finally:
        shutil.rmtree(tmp, ignore_errors=True)
    return out


def main(argv):
    allp = "--all" in argv
    sub = "seeded"
    if "--dir" in argv:
        sub = argv[argv.index("--dir") + 1]
    base = os.path.join(HERE, sub)
    only = None
    if "--base" in argv:          # e.g. --base /tmp/mut/out2/C13 --prop C13
        base = argv[argv.index("--base") + 1]
        sub = base
    if "--prop" in argv:
        only = argv[argv.index("--prop") + 1]
    pref = [a for a in argv if not a.startswith("--") and
            a not in (sub, only)]
    seeds = sorted(d for d in os.listdir(base)
                   if os.path.isdir(os.path.join(base, d)) and
                   (not pref or any(d.startswith(p) for p in pref)))
    jobs = []
    with concurrent.futures.ThreadPoolExecutor(max_workers=14) as ex:
        for s in seeds:
            d = os.path.join(base, s)
            meta = {}
            try:
                meta = json.load(open(os.path.join(d, "meta.json")))
            except Exception:
                pass
            own = only or meta.get("property") or s.split("-")[0]
            props = ["C%02d" % i for i in range(1, 21)] if allp else [own]
            jobs.append(ex.submit(run_one, d, props))
        for j in jobs:
            for sid, p, rc, what in j.result():
                print("%-10s %-4s exit=%s %s" % (sid, p, rc, what))
                sys.stdout.flush()


if __name__ == "__main__":
    main(sys.argv[1:])
