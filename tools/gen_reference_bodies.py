#!/venv/bin/python
"""Writes rigverif/reference_bodies.json: for every function of the
reference tree (/repo as the checks were confirmed on) the multiset of its
statement signatures (core.stmt_signatures).  core.rewrite_distance() counts
the statements of the *current* function that are not in that multiset; a
rule's failure to find what it expects in a function rewritten beyond
core.REWRITE_LIMIT statements is no verdict (DESIGN.md 9.15)."""
import ast, json, os, sys
sys.path.insert(0, os.path.dirname(os.path.dirname(os.path.abspath(__file__))))
os.environ.setdefault("RIGVERIF_REPO", "/repo")
from rigverif import core
p = core.Program()
out = {}
n = 0
for name, m in sorted(p.modules.items()):
    d = {}
    for q, node in m.defs.items():
        if q == "__dups__" or not isinstance(node, (ast.FunctionDef, ast.AsyncFunctionDef)):
            continue
        d[q] = sorted(core.stmt_signatures(node))
        n += len(d[q])
    out[name] = d
path = os.path.join(os.path.dirname(os.path.dirname(os.path.abspath(__file__))), "rigverif", "reference_bodies.json")
json.dump(out, open(path, "w"), indent=0, sort_keys=True)
print(sum(len(v) for v in out.values()), "functions", n, "statements")
