#!/bin/sh
# Full regression: every check on /repo must exit 0 with no UNDECIDED line;
# every kept seed must behave (breaking -> exit 1, preserving -> exit 0).
cd /verif
bad=0
for i in $(seq -w 1 20); do
  out=$(./vcheck C$i 2>&1); rc=$?
  if [ $rc -ne 0 ] || echo "$out" | grep -q "^UNDECIDED\|^VIOLATION\|ANALYSIS-ERROR"; then
    echo "CLEAN-TREE PROBLEM C$i exit=$rc"; echo "$out" | grep "^UNDECIDED\|^VIOLATION\|ANALYSIS-ERROR" | cut -c1-200; bad=1
  fi
done
MISS=$(grep -l known_miss seeded/*/meta.json | xargs -n1 dirname | xargs -n1 basename | tr '\n' ' ')
tools/seed_matrix.py 2>&1 | awk -v miss=" $MISS" '{ if (index(miss, " "$1" ")) next; kind=($1 ~ /q[0-9]+$/)?"q":"b"; ok=(kind=="q" && $3=="exit=0")||(kind=="b" && $3=="exit=1"); if(!ok) {print "SEED PROBLEM", $0; bad=1}} END {exit bad}' || bad=1
[ $bad -eq 0 ] && echo "regression clean"
exit $bad
