#!/bin/sh
# (ROUND=<n> selects /tmp/mut/out<n>; default 3)
# usage: round3.sh verify Cxx   : confirm the five round-3 changes of Cxx in its scratch worktree
#        round3.sh matrix [Cxx] : run the property's check against each change
#        round3.sh keep Cxx v   : copy a verified change to /verif/seeded/Cxx-r3<v>/
R=${ROUND:-3}
O=/tmp/mut/out$R
case "$1" in
verify)
  P=$2; mkdir -p /tmp/mut/v$R
  for v in b1 b2 b3 q1 q2 q3; do
    [ -d $O/$P/$v ] && /verif/tools/verify_seed2.sh $O/$P/$v /tmp/mut/$P
  done > /tmp/mut/v$R/$P.txt 2>&1
  cat /tmp/mut/v$R/$P.txt ;;
matrix)
  for p in ${2:-$(ls $O)}; do
    [ -d $O/$p/b1 ] || continue
    /verif/tools/seed_matrix.py --base $O/$p --prop $p 2>/dev/null | grep -E "^(b|q)[0-9] " | sed "s/^/$p /" &
  done | sort
  wait ;;
keep)
  P=$2; V=$3; S=$O/$P/$V; D=/verif/seeded/$P-r$R$V
  grep -q "out$R/$P/$V OK" /tmp/mut/v$R/$P.txt || { echo "not verified: $P/$V"; exit 1; }
  mkdir -p "$D"; cp "$S/patch.diff" "$S/meta.json" "$D/"
  for f in demo.py equiv.py sim.py simnet.py harness.py proplib.py simmachine.py; do [ -f "$S/$f" ] && cp "$S/$f" "$D/"; done
  for f in "$S"/orig_*.py; do [ -f "$f" ] && cp "$f" "$D/"; done
  /venv/bin/python - "$D" "$P" "$V" "$R" <<'PY'
import json, sys
d, p, v, rnd = sys.argv[1:]
m = json.load(open(d + "/meta.json"))
m["property"] = p
m["kind"] = "breaking" if v.startswith("b") else "preserving"
m["round"] = int(rnd)
line = [l for l in open("/tmp/mut/v%s/%s.txt" % (rnd, p)) if "/%s/%s " % (p, v) in l]
m["confirmed_by_me"] = ("tools/verify_seed2.sh in a scratch worktree: " + " ".join(line[0].split()[1:])) if line else ""
json.dump(m, open(d + "/meta.json", "w"), indent=1)
PY
  echo "kept $D" ;;
esac
