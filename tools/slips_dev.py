#!/venv/bin/python
"""Development harness for rigverif/slips.py: print every finding over all
modules of a tree (default /repo), or over every kept seed.

usage: slips_dev.py [repo-dir]
       slips_dev.py --seeds [prefix...]   (one line per seed with findings)
"""
import os, sys, shutil, subprocess, tempfile, concurrent.futures
HERE = os.path.dirname(os.path.dirname(os.path.abspath(__file__)))
sys.path.insert(0, HERE)


def run(repo):
    os.environ["RIGVERIF_REPO"] = repo
    from rigverif import core, slips
    prog = core.Program(repo)
    res, stats = slips.findings(prog, sorted(prog.modules))
    out = []
    for kind, mname, q, n, text, key in res:
        if (kind, mname, q, key) in slips.EXCEPTIONS or (kind, mname, q) in slips.EXCEPTIONS:
            continue
        line = n if isinstance(n, int) else getattr(n, "lineno", "?")
        out.append("%s %s:%s line %s key=%r\n     %s" % (kind, mname, q, line, key, text))
    return out, stats


def seed(d):
    tmp = tempfile.mkdtemp(prefix="rv_slip_")
    try:
        shutil.copytree("/repo/rig", os.path.join(tmp, "rig"), ignore=shutil.ignore_patterns("__pycache__"))
        r = subprocess.run(["git", "apply", "--unsafe-paths", "--directory=" + tmp, os.path.join(d, "patch.diff")], cwd="/", capture_output=True, text=True)
        if r.returncode:
            return d, ["NOAPPLY"]
        r = subprocess.run([sys.executable, __file__, tmp], capture_output=True, text=True)
        return d, [l for l in r.stdout.splitlines() if l and not l.startswith("stats")] + ([r.stderr[-300:]] if r.returncode else [])
    finally:
        shutil.rmtree(tmp, ignore_errors=True)


if __name__ == "__main__":
    if len(sys.argv) > 1 and sys.argv[1] == "--seeds":
        base = os.path.join(HERE, "seeded")
        if len(sys.argv) > 2 and os.path.isdir(sys.argv[2]):
            base = sys.argv[2]; pref = sys.argv[3:]
        else:
            pref = sys.argv[2:]
        ds = []
        for root, dirs, files in os.walk(base):
            if "patch.diff" in files:
                rel = os.path.relpath(root, base)
                if not pref or any(rel.startswith(p) for p in pref):
                    ds.append(root)
        with concurrent.futures.ThreadPoolExecutor(14) as ex:
            for d, lines in ex.map(seed, sorted(ds)):
                if lines:
                    print("==", os.path.relpath(d, base))
                    for l in lines:
                        print("  ", l)
    else:
        out, stats = run(sys.argv[1] if len(sys.argv) > 1 else "/repo")
        for l in out:
            print(l)
        print("stats", stats, len(out))
