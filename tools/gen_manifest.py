#!/venv/bin/python
"""Regenerate /verif/MANIFEST.json from rigverif/manifest_data.py and the set
of rule modules that exist.  Run after adding/changing a rule module."""
import json
import os
import sys

HERE = os.path.dirname(os.path.dirname(os.path.abspath(__file__)))
sys.path.insert(0, HERE)
from rigverif.manifest_data import CHECKS, ENGINES, NOT_APPLICABLE  # noqa


def main():
    checks = []
    na = []
    for i in range(1, 21):
        pid = "C%02d" % i
        have = os.path.exists(os.path.join(HERE, "rigverif", "rules",
                                           pid + ".py"))
        if pid in CHECKS and have:
            c = CHECKS[pid]
            checks.append(dict(
                property_id=pid,
                quick_cmd="./vcheck %s --tier quick" % pid,
                thorough_cmd="./vcheck %s --tier thorough" % pid,
                evidence_file="/verif/evidence/%s.json" % pid,
                replay_cmd_template="./vcheck %s --tier quick --explain "
                                    "{path}" % pid,
                engine="rigverif",
                level_claimed=dict(category="other", text=c["text"],
                                   design_ref="DESIGN.md section 3, %s" % pid),
                level_note=c["note"],
                technique=c["technique"],
            ))
        else:
            na.append(dict(property_id=pid, reason=NOT_APPLICABLE.get(
                pid, "no static check committed for this property yet "
                     "(planned in DESIGN.md section 3, %s); not claimed" %
                pid)))
    man = dict(
        version=1,
        setup_cmd="./vcheck --selfcheck-fast",
        hooks=dict(
            guard="MUNDYA_RIG_VERIF",
            enable="none needed: the analysis reads /repo's source text and "
                   "never builds or runs it; no hooks were added to /repo",
            baseline_off_cmd="cd /repo && /venv/bin/python -m pytest -ra -q "
                             "-p no:cacheprovider --timeout=900 "
                             "--continue-on-collection-errors",
            source_commits=[],
            add_only=True,
        ),
        engines=ENGINES,
        checks=checks,
        notes="Static analysis only (ast-based; no rig module is imported or "
              "executed). Each check decides the clauses listed in its "
              "level_claimed.text for all inputs/paths and states in "
              "level_note what it does not decide. Exit 2 + ANALYSIS-ERROR "
              "means the analysis itself could not be carried out (anchor "
              "vanished, floor not met). Genuine defects repaired in /repo "
              "as 'fix:' commits and remaining known findings are listed in "
              "known_findings.json. The thorough tier runs the same rules "
              "and then tests the checker itself on the current tree: every "
              "kept seeded change of the property (seeded/) is applied to a "
              "scratch copy and must be reported / leave the check quiet, "
              "and three compositions of mechanical meaning-preserving "
              "rewrites of the whole library (tools/preserve_fuzz.py) must "
              "get the verdict the unrewritten tree gets (metamorphic "
              "test); these lines never change the exit code.",
        not_applicable=na,
    )
    with open(os.path.join(HERE, "MANIFEST.json"), "w") as f:
        json.dump(man, f, indent=1)
    print("MANIFEST.json: %d checks, %d not_applicable" % (len(checks),
                                                          len(na)))


if __name__ == "__main__":
    main()
