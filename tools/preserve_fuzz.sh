#!/bin/sh
# usage: preserve_fuzz.sh <transformation> [--suite]
# Rewrites a scratch copy of the library with one class of meaning-preserving
# transformation (tools/preserve_fuzz.py) and runs all twenty checks on it.
# With --suite the repository's test-suite is run on the rewritten copy first
# and its FAILED/ERROR lines compared with the unchanged tree's
# (/verif/tools/baseline_fail.txt), to confirm the rewrite preserved behaviour.
K=$1; D=${PF_DIR:-/tmp/pf}/$K
rm -rf "$D"; mkdir -p "$D"
rsync -a --exclude .git --exclude '*.pyc' --exclude __pycache__ /repo/ "$D/" 
/verif/tools/preserve_fuzz.py "$K" "$D" || exit 2
if [ "$2" = "--suite" ]; then
  (cd "$D" && PYTHONPATH="$D" /venv/bin/python -m pytest -q -p no:cacheprovider --timeout=900 --continue-on-collection-errors 2>&1 | grep -E "^(FAILED|ERROR)" | sed 's/ - .*//' | sort > "$D/suite.txt")
  if cmp -s "$D/suite.txt" /verif/tools/baseline_fail.txt; then echo "$K suite=same"; else echo "$K suite=DIFF"; diff "$D/suite.txt" /verif/tools/baseline_fail.txt | head -5; fi
fi
for i in 01 02 03 04 05 06 07 08 09 10 11 12 13 14 15 16 17 18 19 20; do
  out=$(RIGVERIF_REPO=$D RIGVERIF_EVDIR=$D/ev /verif/vcheck C$i 2>&1); rc=$?
  nu=$(echo "$out" | grep -c "^UNDECIDED")
  if [ $rc -ne 0 ]; then echo "$K C$i exit=$rc $(echo "$out" | grep -o 'rule=C[0-9]*-R[0-9]*' | sort -u | tr '\n' ' ')"; 
  elif [ $nu -gt 0 ]; then echo "$K C$i undecided=$nu"; fi
done
