#!/bin/sh
# usage: try_seed.sh <prop> <patch.diff>   - run a check against a seeded change
P="$1"; PATCH="$2"
cd /repo || exit 2
if [ -n "$(git status --porcelain --untracked-files=no)" ]; then echo "/repo not clean"; exit 2; fi
git apply "$PATCH" || { echo "patch does not apply"; exit 2; }
cd /verif && RIGVERIF_EVDIR=/tmp/rv_ev ./vcheck "$P" --tier quick > /tmp/try_seed.$$.out 2>&1; rc=$?
git -C /repo checkout -- .
grep -E "VIOLATION|ANALYSIS-ERROR|rule=" /tmp/try_seed.$$.out | head -${3:-6}
echo "exit=$rc"
rm -f /tmp/try_seed.$$.out
