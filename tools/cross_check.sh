#!/bin/sh
# usage: cross.sh <seed>  : run all 20 checks against the seed, print alarms
S=$1
T=/tmp/cross/$S; rm -rf $T; mkdir -p $T; cp -r /repo/rig $T/
git -C / apply --unsafe-paths --directory=$T /verif/seeded/$S/patch.diff 2>/dev/null || (cd $T && patch -p1 -s < /verif/seeded/$S/patch.diff >/dev/null 2>&1) || { echo "$S PATCHFAIL"; exit; }
for i in 01 02 03 04 05 06 07 08 09 10 11 12 13 14 15 16 17 18 19 20; do
  out=$(RIGVERIF_REPO=$T RIGVERIF_EVDIR=$T/ev /verif/vcheck C$i 2>&1); rc=$?
  if [ $rc -ne 0 ]; then echo "$S C$i exit=$rc $(echo "$out" | grep -o 'rule=C[0-9]*-R[0-9]*' | sort -u | tr '\n' ' ')"; fi
done
rm -rf $T
