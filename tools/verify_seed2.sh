#!/bin/sh
# usage: verify_seed2.sh <dir with patch.diff, meta.json, demo.py|equiv.py> <scratch worktree>
# breaking  : demo.py exits 0 on the clean worktree and non-zero with the patch
# preserving: equiv.py exits 0 with the patch
# both      : FAILED/ERROR lines of the full suite identical to the clean tree's
# Prints one line: <dir> OK|BAD <details>
D="$1"; W="$2"
BASE=/verif/tools/baseline_fail.txt
cd "$W" || exit 2
git checkout -q -- .
run() { PYTHONPATH="$W" timeout 900 /venv/bin/python -W ignore "$1" >/dev/null 2>&1; echo $?; }
suite() { /venv/bin/python -m pytest -q -p no:cacheprovider --timeout=900 --continue-on-collection-errors 2>&1 | grep -E "^(FAILED|ERROR)" | sed 's/ - .*//' | sort; }
if [ -f "$D/demo.py" ]; then kind=breaking; script="$D/demo.py"; else kind=preserving; script="$D/equiv.py"; fi
clean=$(run "$script")
if ! git apply "$D/patch.diff" 2>/dev/null; then echo "$D BAD patch-does-not-apply"; exit 1; fi
mut=$(run "$script")
suite > /tmp/seedsuite.$$.txt
git checkout -q -- .
git clean -fdq -e '*.pyc' . 2>/dev/null
if cmp -s /tmp/seedsuite.$$.txt $BASE; then s=same; else s=DIFF; fi
rm -f /tmp/seedsuite.$$.txt
if [ $kind = breaking ]; then
  if [ "$clean" = 0 ] && [ "$mut" != 0 ] && [ $s = same ]; then r=OK; else r=BAD; fi
else
  if [ "$mut" = 0 ] && [ $s = same ]; then r=OK; else r=BAD; fi
fi
echo "$D $r kind=$kind clean=$clean patched=$mut suite=$s"
