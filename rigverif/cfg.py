"""CFG engine: statement-level control-flow graph of one function with
explicit *assume* nodes on every branch edge, dominators / post-dominators,
reachability and must-pass-through queries.

Node kinds
  entry, exit (normal return / fall off the end), raise (exceptional exit),
  stmt   - a simple statement (``.ast`` is the statement)
  test   - evaluation of an atomic branch condition (``.ast`` is the expr)
  assume - the branch edge: ``.ast`` is the condition, ``.polarity`` its truth
  iter   - ``for`` header: binds the target to the next element
  with   - ``with`` header (enters the context managers)
  handler- entry of an ``except`` clause
  join   - structural no-op
Short-circuit ``and`` / ``or`` / ``not`` in branch conditions are split into
separate test nodes so that a guard like ``a is None or len(t) > a`` yields
the right facts on each edge.
"""
import ast

from .core import AnalysisError


class Node(object):
    __slots__ = ("id", "kind", "ast", "polarity", "succ", "pred", "label",
                 "owner")

    def __init__(self, id, kind, astnode=None, polarity=None, label=None):
        self.id = id
        self.kind = kind
        self.ast = astnode
        self.polarity = polarity
        self.succ = []
        self.pred = []
        self.label = label
        self.owner = None   # the compound statement this node heads

    def __repr__(self):
        t = ""
        if self.ast is not None:
            try:
                t = " ".join(ast.unparse(self.ast).split())[:60]
            except Exception:
                t = type(self.ast).__name__
        if self.kind == "assume":
            return "<%d assume[%s] %s>" % (self.id, self.polarity, t)
        return "<%d %s %s>" % (self.id, self.kind, t)

    @property
    def lineno(self):
        return getattr(self.ast, "lineno", None)


class CFG(object):
    def __init__(self, fn):
        self.fn = fn
        self.nodes = []
        self.entry = self._new("entry")
        self.exit = self._new("exit")
        self.raise_exit = self._new("raise")
        self._loops = []       # (continue_target, break_target)
        self._returns_via = set()
        self.stmt_node = {}    # id(ast stmt) -> first node of that statement
        self.loop_head = {}    # id(ast loop) -> head node
        self.loop_exit = {}    # id(ast loop) -> join node after the loop
        last = self._body(fn.body, [self.entry])
        for n in last:
            self._edge(n, self.exit)
        self._dom = None
        self._pdom = None

    # -- construction --------------------------------------------------------
    def _new(self, kind, astnode=None, polarity=None, label=None):
        n = Node(len(self.nodes), kind, astnode, polarity, label)
        self.nodes.append(n)
        return n

    def _edge(self, a, b):
        if b not in a.succ:
            a.succ.append(b)
            b.pred.append(a)

    def _link(self, preds, node):
        for p in preds:
            self._edge(p, node)

    _tryframes = ()

    def _body(self, stmts, preds):
        for s in stmts:
            preds = self._stmt(s, preds)
        return preds

    def _cond(self, expr, preds, owner=None):
        """Build the test/assume structure for a branch condition.  Returns
        (true_exits, false_exits): lists of nodes from which control continues
        when the condition is true / false."""
        if isinstance(expr, ast.BoolOp) and isinstance(expr.op, ast.And):
            t = preds
            falses = []
            for v in expr.values:
                t, f = self._cond(v, t, owner)
                falses += f
            return t, falses
        if isinstance(expr, ast.BoolOp) and isinstance(expr.op, ast.Or):
            f = preds
            trues = []
            for v in expr.values:
                t, f = self._cond(v, f, owner)
                trues += t
            return trues, f
        if isinstance(expr, ast.UnaryOp) and isinstance(expr.op, ast.Not):
            t, f = self._cond(expr.operand, preds, owner)
            return f, t
        test = self._new("test", expr)
        test.owner = owner
        self._link(preds, test)
        self._in_try(test)
        a_t = self._new("assume", expr, True)
        a_f = self._new("assume", expr, False)
        self._edge(test, a_t)
        self._edge(test, a_f)
        return [a_t], [a_f]

    def _in_try(self, node):
        """Exceptional edges from a node inside a try body."""
        if self._tryframes:
            self._exc_edges(node, self._tryframes)

    def _exc_edges(self, node, frames):
        """Where an exception raised at ``node`` may go, given the enclosing
        try frames (innermost last)."""
        for frame in reversed(list(frames)):
            if frame[0] == "handlers":
                for t in frame[1]:
                    self._edge(node, t)
                if frame[2]:      # catch-all handler: nothing escapes
                    return
            else:                 # finally: runs, then propagates by itself
                self._edge(node, frame[1][0])
                return
        self._edge(node, self.raise_exit)

    def _stmt(self, s, preds):
        if not preds:
            # unreachable code: still build it (from a detached join) so that
            # nodes exist, but it has no predecessors
            preds = []
        if isinstance(s, ast.If):
            t, f = self._cond(s.test, preds, s)
            first = None
            out_t = self._body(s.body, t)
            out_f = self._body(s.orelse, f) if s.orelse else f
            return out_t + out_f
        if isinstance(s, ast.While):
            head = self._new("join", s, label="while")
            self.loop_head[id(s)] = head
            self.stmt_node[id(s)] = head
            self._link(preds, head)
            after = self._new("join", s, label="endwhile")
            self.loop_exit[id(s)] = after
            const_true = (isinstance(s.test, ast.Constant) and
                          bool(s.test.value))
            if const_true:
                t, f = [head], []
            else:
                t, f = self._cond(s.test, [head], s)
            self._loops.append((head, after))
            out = self._body(s.body, t)
            self._loops.pop()
            self._link(out, head)
            if s.orelse:
                f = self._body(s.orelse, f)
            self._link(f, after)
            return [after]
        if isinstance(s, (ast.For, ast.AsyncFor)):
            pre = self._new("stmt", ast.Expr(value=s.iter), label="foriter")
            pre.ast.lineno = s.lineno
            pre.ast._parent = s
            self._link(preds, pre)
            self._in_try(pre)
            head = self._new("iter", s)
            self.loop_head[id(s)] = head
            self.stmt_node[id(s)] = pre
            self._edge(pre, head)
            after = self._new("join", s, label="endfor")
            self.loop_exit[id(s)] = after
            body_in = self._new("join", s, label="forbody")
            self._edge(head, body_in)
            self._loops.append((head, after))
            out = self._body(s.body, [body_in])
            self._loops.pop()
            self._link(out, head)
            exhausted = self._new("join", s, label="forelse")
            self._edge(head, exhausted)
            f = [exhausted]
            if s.orelse:
                f = self._body(s.orelse, f)
            self._link(f, after)
            return [after]
        if isinstance(s, (ast.With, ast.AsyncWith)):
            w = self._new("with", s)
            self.stmt_node[id(s)] = w
            self._link(preds, w)
            self._in_try(w)
            return self._body(s.body, [w])
        if isinstance(s, ast.Try) or (hasattr(ast, "TryStar") and
                                      isinstance(s, ast.TryStar)):
            return self._try(s, preds)
        if isinstance(s, ast.Break):
            n = self._new("stmt", s)
            self.stmt_node.setdefault(id(s), n)
            self._link(preds, n)
            self._edge(n, self._loops[-1][1])
            return []
        if isinstance(s, ast.Continue):
            n = self._new("stmt", s)
            self.stmt_node.setdefault(id(s), n)
            self._link(preds, n)
            self._edge(n, self._loops[-1][0])
            return []
        if isinstance(s, ast.Return):
            n = self._new("stmt", s)
            self.stmt_node[id(s)] = n
            self._link(preds, n)
            self._in_try(n)
            # a return inside try/finally runs the finally first
            fin = [f[1][0] for f in self._tryframes if f[0] == "finally"]
            if fin:
                self._edge(n, fin[-1])
                self._returns_via.add(fin[-1].id)
            else:
                self._edge(n, self.exit)
            return []
        if isinstance(s, ast.Raise):
            n = self._new("stmt", s)
            self.stmt_node[id(s)] = n
            self._link(preds, n)
            self._exc_edges(n, self._tryframes)
            return []
        if isinstance(s, ast.Assert):
            n = self._new("stmt", s)
            self.stmt_node[id(s)] = n
            self._link(preds, n)
            self._in_try(n)
            a = self._new("assume", s.test, True, label="assert")
            self._edge(n, a)
            return [a]
        # simple statement (incl. nested def / class, which are opaque here)
        n = self._new("stmt", s)
        self.stmt_node[id(s)] = n
        self._link(preds, n)
        self._in_try(n)
        return [n]

    def _try(self, s, preds):
        outer = list(self._tryframes)
        after = self._new("join", s, label="endtry")
        fin_entry = None
        with_fin = outer
        if s.finalbody:
            fin_entry = self._new("join", s, label="finally")
            with_fin = outer + [("finally", [fin_entry])]
        handlers = [self._new("handler", h) for h in s.handlers]
        catch_all = any(h.type is None or
                        (isinstance(h.type, ast.Name) and
                         h.type.id in ("Exception", "BaseException"))
                        for h in s.handlers)
        start = self._new("join", s, label="try")
        self.stmt_node[id(s)] = start
        self._link(preds, start)
        self._tryframes = with_fin + (
            [("handlers", handlers, catch_all)] if handlers else [])
        out = self._body(s.body, [start])
        self._tryframes = with_fin
        if s.orelse:
            out = self._body(s.orelse, out)
        outs = list(out)
        for hn, h in zip(handlers, s.handlers):
            outs += self._body(h.body, [hn])
        self._tryframes = outer
        if fin_entry is not None:
            self._link(outs, fin_entry)
            fout = self._body(s.finalbody, [fin_entry])
            self._link(fout, after)
            for n in fout:
                # the exception (if any) that brought us here propagates
                self._exc_edges(n, outer)
                if fin_entry.id in self._returns_via:
                    fin = [f[1][0] for f in outer if f[0] == "finally"]
                    if fin:
                        self._edge(n, fin[-1])
                        self._returns_via.add(fin[-1].id)
                    else:
                        self._edge(n, self.exit)
        else:
            self._link(outs, after)
        return [after]

    # -- queries -------------------------------------------------------------
    def node_of(self, stmt):
        n = self.stmt_node.get(id(stmt))
        if n is None:
            raise AnalysisError("statement not in CFG: %s" %
                                type(stmt).__name__)
        return n

    def node_containing(self, expr):
        """The CFG node whose AST contains the given expression node."""
        x = expr
        while x is not None:
            n = self._by_ast().get(id(x))
            if n is not None:
                return n
            x = getattr(x, "_parent", None)
            if x is self.fn:
                break
        raise AnalysisError("expression not found in CFG of %s (line %s)" % (
            self.fn.name, getattr(expr, "lineno", "?")))

    def _by_ast(self):
        if not hasattr(self, "_byast"):
            m = {}
            for n in self.nodes:
                if n.ast is not None and n.kind in ("stmt", "test", "with",
                                                    "iter", "handler"):
                    m.setdefault(id(n.ast), n)
                    if n.kind == "stmt" and n.label == "foriter":
                        m.setdefault(id(n.ast.value), n)
            self._byast = m
        return self._byast

    def reachable_from(self, start, avoid=()):
        avoid = set(id(a) for a in avoid)
        seen = set()
        stack = [start]
        while stack:
            n = stack.pop()
            for s in n.succ:
                if id(s) in avoid or s.id in seen:
                    continue
                seen.add(s.id)
                stack.append(s)
        return seen

    def reaches(self, a, b, avoid=()):
        """Is there a non-empty path a -> b not passing through ``avoid``?"""
        return b.id in self.reachable_from(a, avoid)

    def dominators(self):
        if self._dom is None:
            self._dom = _dominators(self.nodes, self.entry,
                                    lambda n: n.pred)
        return self._dom

    def postdominators(self, exits=None):
        """Post-dominators w.r.t. a virtual exit joining the given exits
        (default: normal exit only - i.e. "on every path that returns")."""
        key = tuple(sorted(e.id for e in (exits or [self.exit])))
        if self._pdom is None:
            self._pdom = {}
        if key not in self._pdom:
            virt = Node(-1, "virtual")
            virt.pred = list(exits or [self.exit])
            nodes = self.nodes + [virt]

            def succs(n):
                if n is virt:
                    return []
                s = list(n.succ)
                if n in virt.pred:
                    s.append(virt)
                return s
            self._pdom[key] = _dominators(nodes, virt, succs)
        return self._pdom[key]

    def dominates(self, a, b):
        return a.id in self.dominators()[b.id]

    def live_nodes(self):
        ids = self.reachable_from(self.entry) | {self.entry.id}
        return [n for n in self.nodes if n.id in ids]

    def must_pass(self, src, pred, targets=None, avoid=()):
        """Does every path from ``src`` to any of ``targets`` (default: the
        normal exit) pass through a node satisfying ``pred`` (src excluded)?"""
        targets = targets or [self.exit]
        tids = set(t.id for t in targets)
        seen = set()
        stack = [src]
        while stack:
            n = stack.pop()
            for s in n.succ:
                if s.id in seen or s in avoid:
                    continue
                if pred(s):
                    continue
                if s.id in tids:
                    return False
                seen.add(s.id)
                stack.append(s)
        return True

    def dump(self):
        out = []
        for n in self.nodes:
            out.append("%r -> %s" % (n, [s.id for s in n.succ]))
        return "\n".join(out)


def _dominators(nodes, entry, preds):
    """Iterative dominator sets as Python-int bitsets keyed by node id.
    Unreachable nodes are dominated by everything (vacuous)."""
    index = {n.id: i for i, n in enumerate(nodes)}
    full = (1 << len(nodes)) - 1
    dom = {n.id: full for n in nodes}
    dom[entry.id] = 1 << index[entry.id]
    changed = True
    while changed:
        changed = False
        for n in nodes:
            if n is entry:
                continue
            acc = full
            ps = preds(n)
            for p in ps:
                acc &= dom[p.id]
            if not ps:
                acc = full
            new = acc | (1 << index[n.id])
            if new != dom[n.id]:
                dom[n.id] = new
                changed = True
    result = {}
    for n in nodes:
        bits = dom[n.id]
        result[n.id] = set(m.id for m in nodes if bits >> index[m.id] & 1)
    return result


_cache = {}


def cfg_of(fn):
    c = _cache.get(id(fn))
    if c is None or c.fn is not fn:
        c = CFG(fn)
        _cache[id(fn)] = c
    return c
