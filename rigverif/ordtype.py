"""ORDTYPE engine: exact abstract interpretation of comparison-only code over
the finite domain of weak orderings of a few opaque terms.

A function that touches its inputs only through comparisons, ``min``/``max``
and selection returns a result that depends only on the weak ordering of the
inputs.  For every weak ordering of the named terms (13 for 3 terms, 75 for
4, 541 for 5, 4683 for 6) the engine evaluates the function body *abstractly*:
values are linear forms over the terms; a comparison is decided only when the
ordering decides it (difference of two terms, equal forms, or a form whose
sign follows from the ordering by term-wise pairing); anything else makes
the engine give up (AnalysisError) - it never guesses.
"""
import ast
import itertools

from .core import AnalysisError, unparse
from .poly import Poly


class OrdError(AnalysisError):
    pass


def weak_orderings(n):
    """All weak orderings of n items as rank tuples (ranks 0..k-1 all used)."""
    out = []

    def rec(i, ranks, k):
        if i == n:
            if set(ranks) == set(range(k)) if ranks else True:
                out.append(tuple(ranks))
            return
        for r in range(k + 1):
            rec(i + 1, ranks + [r], max(k, r + 1))
    # enumerate surjections onto 0..k-1 via ordered set partitions
    res = set()
    for k in range(1, n + 1):
        for ranks in itertools.product(range(k), repeat=n):
            if len(set(ranks)) == k:
                res.add(ranks)
    return sorted(res)


class Ordering(object):
    def __init__(self, terms, ranks, constraints=(), integer=False):
        self.terms = list(terms)
        self.rank = dict(zip(terms, ranks))
        # the terms stand for integers: x < y is x <= y - 1, so a form
        # x - y + c has bounds the ordering alone gives
        self.integer = integer

    def bounds(self, form):
        """(lo, hi) - each an int or None for unbounded - of a form
        ``x - y + c`` (or ``c``, ``x - x + c``) over integer-valued terms."""
        if not self.integer or not isinstance(form, Poly) or \
                not form.is_linear():
            return None, None
        c0 = form.const_value()
        if c0.denominator != 1:
            return None, None
        c0 = int(c0)
        pos, neg = [], []
        for m, c in form.t.items():
            if m == ():
                continue
            if c.denominator != 1 or m[0] not in self.rank or abs(c) != 1:
                return None, None
            (pos if c > 0 else neg).append(m[0])
        if not pos and not neg:
            return c0, c0
        if len(pos) != 1 or len(neg) != 1:
            return None, None
        rp, rn = self.rank[pos[0]], self.rank[neg[0]]
        if rp > rn:
            return 1 + c0, None
        if rp < rn:
            return None, c0 - 1
        return c0, c0

    def sign(self, form):
        """Sign (-1, 0, +1) of a linear form over the terms, or None."""
        if not isinstance(form, Poly):
            return None
        if not form.t:
            return 0
        if form.is_const():
            c = form.const_value()
            return (c > 0) - (c < 0)
        if not form.is_linear():
            return None
        c0 = form.const_value()
        pos = []
        neg = []
        for m, c in form.t.items():
            if m == ():
                continue
            if c.denominator != 1:
                return None
            if m[0] not in self.rank:
                return None
            (pos if c > 0 else neg).extend([m[0]] * abs(int(c)))
        if len(pos) != len(neg):
            return None
        # pair the terms greedily by rank: if the sorted positives dominate
        # the sorted negatives element-wise the form is >= 0 (and > 0 if any
        # strict); symmetrically <= 0.
        if c0 != 0:
            return None
        pr = sorted(self.rank[t] for t in pos)
        nr = sorted(self.rank[t] for t in neg)
        if all(a >= b for a, b in zip(pr, nr)):
            return 1 if any(a > b for a, b in zip(pr, nr)) else 0
        if all(a <= b for a, b in zip(pr, nr)):
            return -1 if any(a < b for a, b in zip(pr, nr)) else 0
        return None


class Abort(Exception):
    def __init__(self, value):
        self.value = value


class Evaluator(object):
    """Evaluates a function body under one ordering."""

    def __init__(self, fn, ordering, bindings):
        self.fn = fn
        self.o = ordering
        self.env = dict(bindings)

    def run(self):
        try:
            self.block(self.fn.body)
        except Abort as a:
            return a.value
        return None

    def block(self, stmts):
        for s in stmts:
            self.stmt(s)

    def stmt(self, s):
        if isinstance(s, ast.Expr):
            if isinstance(s.value, ast.Constant):
                return
            raise OrdError("expression statement %s" % unparse(s)[:40])
        if isinstance(s, ast.Return):
            raise Abort(self.ev(s.value))
        if isinstance(s, ast.Assign):
            hook = self.env.get("<assign-hook>")
            v = hook(s) if hook is not None else None
            if v is None:
                v = self.ev(s.value)
            for t in s.targets:
                self.bind(t, v)
            return
        if isinstance(s, ast.AugAssign) and isinstance(s.target, ast.Name):
            hook = self.env.get("<assign-hook>")
            v = hook(s) if hook is not None else None
            if v is not None:
                self.env[s.target.id] = v
                return
            fake = ast.BinOp(left=ast.Name(id=s.target.id, ctx=ast.Load()),
                             op=s.op, right=s.value)
            self.env[s.target.id] = self.ev(fake)
            return
        if isinstance(s, ast.If):
            c = self.truth(s.test)
            self.block(s.body if c else s.orelse)
            return
        if isinstance(s, ast.Assert):
            return
        if isinstance(s, ast.Pass):
            return
        raise OrdError("statement %s is outside the comparison-only "
                       "fragment" % type(s).__name__)

    def bind(self, t, v):
        if isinstance(t, ast.Name):
            self.env[t.id] = v
        elif isinstance(t, (ast.Tuple, ast.List)):
            if not isinstance(v, tuple) or len(v) != len(t.elts):
                raise OrdError("cannot unpack %r" % (v,))
            for tt, vv in zip(t.elts, v):
                self.bind(tt, vv)
        else:
            raise OrdError("assignment target %s" % unparse(t))

    def truth(self, e):
        if isinstance(e, ast.BoolOp):
            if isinstance(e.op, ast.And):
                return all(self.truth(v) for v in e.values)
            return any(self.truth(v) for v in e.values)
        if isinstance(e, ast.UnaryOp) and isinstance(e.op, ast.Not):
            return not self.truth(e.operand)
        if isinstance(e, ast.Compare):
            left = self.ev(e.left)
            for op, c in zip(e.ops, e.comparators):
                right = self.ev(c)
                if not self.cmp(op, left, right):
                    return False
                left = right
            return True
        if isinstance(e, ast.Constant):
            return bool(e.value)
        v = self.ev(e)
        if isinstance(v, bool):
            return v
        raise OrdError("truth value of %s" % unparse(e))

    def cmp(self, op, a, b):
        if not isinstance(a, Poly) or not isinstance(b, Poly):
            raise OrdError("comparison of non-numeric values")
        s = self.o.sign(a - b)
        if s is None:
            lo, hi = self.o.bounds(a - b)
            n = type(op).__name__
            verdicts = {
                "Lt": (hi is not None and hi < 0, lo is not None and lo >= 0),
                "LtE": (hi is not None and hi <= 0, lo is not None and lo > 0),
                "Gt": (lo is not None and lo > 0, hi is not None and hi <= 0),
                "GtE": (lo is not None and lo >= 0,
                        hi is not None and hi < 0),
                "Eq": (lo is not None and lo == hi == 0,
                       (lo is not None and lo > 0) or
                       (hi is not None and hi < 0)),
                "NotEq": ((lo is not None and lo > 0) or
                          (hi is not None and hi < 0),
                          lo is not None and lo == hi == 0)}
            yes, no = verdicts.get(n, (False, False))
            if yes:
                return True
            if no:
                return False
            raise OrdError("the ordering does not decide %r ? %r" % (a, b))
        n = type(op).__name__
        return {"Lt": s < 0, "LtE": s <= 0, "Gt": s > 0, "GtE": s >= 0,
                "Eq": s == 0, "NotEq": s != 0}[n]

    def ev(self, e):
        if isinstance(e, ast.Constant):
            if isinstance(e.value, bool):
                return e.value
            if isinstance(e.value, int):
                return Poly.const(e.value)
            raise OrdError("constant %r" % (e.value,))
        if isinstance(e, ast.Name):
            if e.id in self.env:
                return self.env[e.id]
            raise OrdError("unbound name %s" % e.id)
        if isinstance(e, (ast.Attribute, ast.Subscript)):
            key = unparse(e)
            if key in self.env:
                return self.env[key]
            raise OrdError("unbound %s" % key)
        if isinstance(e, ast.Tuple):
            return tuple(self.ev(x) for x in e.elts)
        if isinstance(e, ast.BinOp):
            a, b = self.ev(e.left), self.ev(e.right)
            if isinstance(a, Poly) and isinstance(b, Poly):
                if isinstance(e.op, ast.Add):
                    return a + b
                if isinstance(e.op, ast.Sub):
                    return a - b
                if isinstance(e.op, ast.Mult) and (a.is_const() or
                                                   b.is_const()):
                    return a * b
            raise OrdError("arithmetic %s" % unparse(e))
        if isinstance(e, ast.UnaryOp) and isinstance(e.op, ast.USub):
            return -self.ev(e.operand)
        if isinstance(e, ast.IfExp):
            return self.ev(e.body if self.truth(e.test) else e.orelse)
        if isinstance(e, (ast.Compare, ast.BoolOp)):
            return self.truth(e)
        if isinstance(e, ast.UnaryOp) and isinstance(e.op, ast.Not):
            return not self.truth(e.operand)
        if isinstance(e, ast.Call) and isinstance(e.func, ast.Name) and \
                e.func.id in ("min", "max", "abs") and not e.keywords:
            args = [self.ev(a) for a in e.args]
            if len(args) == 1 and isinstance(args[0], tuple):
                args = list(args[0])
            if e.func.id == "abs":
                s = self.o.sign(args[0])
                if s is None:
                    raise OrdError("abs of undecided sign")
                return args[0] if s >= 0 else -args[0]
            best = args[0]
            for a in args[1:]:
                s = self.o.sign(a - best)
                if s is None:
                    raise OrdError("the ordering does not decide %s of %r, "
                                   "%r" % (e.func.id, best, a))
                if (e.func.id == "max" and s > 0) or \
                        (e.func.id == "min" and s < 0):
                    best = a
            return best
        raise OrdError("expression %s is outside the comparison-only "
                       "fragment" % unparse(e)[:60])


def evaluate_all(fn, terms, bindings_for, spec, premise=None, integer=False):
    """For every weak ordering of ``terms`` (optionally filtered by
    ``premise(ordering)``) evaluate fn abstractly and compare with
    spec(ordering).  Results that are linear forms are compared by the sign of
    their difference under the ordering (equal forms, or forms the ordering
    proves equal).  Returns (n_orderings, [(ranks, got, want)] mismatches)."""
    bad = []
    n = 0
    for ranks in weak_orderings(len(terms)):
        o = Ordering(terms, ranks, integer=integer)
        if premise is not None and not premise(o):
            continue
        n += 1
        got = Evaluator(fn, o, bindings_for(o)).run()
        want = spec(o)
        if not same(o, got, want):
            bad.append((ranks, got, want))
    return n, bad


def same(o, a, b):
    if isinstance(a, tuple) and isinstance(b, tuple):
        return len(a) == len(b) and all(same(o, x, y) for x, y in zip(a, b))
    if isinstance(a, Poly) and isinstance(b, Poly):
        return o.sign(a - b) == 0
    if isinstance(a, bool) or isinstance(b, bool):
        return a is b or a == b
    return a == b
