"""Polynomial normal forms over opaque atoms, linear constraints and a
Fourier-Motzkin entailment test (the LININV engine's arithmetic core).

A ``Poly`` is a finite map  monomial -> Fraction  where a monomial is a sorted
tuple of atom names (repetition = power).  Atoms are strings; anything the
engine cannot interpret arithmetically becomes an atom, so two expressions
have equal normal forms only if they are equal as polynomials over the same
opaque sub-terms (commutativity / associativity / distribution / constant
folding are all normalised away, naming of temporaries too once ``dataflow``
has substituted definitions).
"""
from fractions import Fraction


class Poly(object):
    __slots__ = ("t",)

    def __init__(self, terms=None):
        self.t = {}
        if terms:
            for m, c in terms.items():
                if c != 0:
                    self.t[m] = Fraction(c)

    # constructors
    @staticmethod
    def const(c):
        return Poly({(): Fraction(c)})

    @staticmethod
    def atom(name):
        return Poly({(name,): Fraction(1)})

    # predicates
    def is_const(self):
        return all(m == () for m in self.t)

    def const_value(self):
        return self.t.get((), Fraction(0))

    def is_linear(self):
        return all(len(m) <= 1 for m in self.t)

    def atoms(self):
        s = set()
        for m in self.t:
            s.update(m)
        return s

    def monomials(self):
        return [m for m in self.t if m != ()]

    # arithmetic
    def __add__(self, o):
        o = _p(o)
        t = dict(self.t)
        for m, c in o.t.items():
            v = t.get(m, 0) + c
            if v == 0:
                t.pop(m, None)
            else:
                t[m] = v
        return Poly(t)

    __radd__ = __add__

    def __neg__(self):
        return Poly({m: -c for m, c in self.t.items()})

    def __sub__(self, o):
        return self + (-_p(o))

    def __rsub__(self, o):
        return _p(o) - self

    def __mul__(self, o):
        o = _p(o)
        t = {}
        for m1, c1 in self.t.items():
            for m2, c2 in o.t.items():
                m = tuple(sorted(m1 + m2))
                v = t.get(m, 0) + c1 * c2
                if v == 0:
                    t.pop(m, None)
                else:
                    t[m] = v
        return Poly(t)

    __rmul__ = __mul__

    def __eq__(self, o):
        if not isinstance(o, Poly):
            try:
                o = _p(o)
            except TypeError:
                return False
        return self.t == o.t

    def __ne__(self, o):
        return not self.__eq__(o)

    def __hash__(self):
        return hash(self.key())

    def key(self):
        return tuple(sorted(self.t.items()))

    def subst(self, mapping):
        """Replace atoms by Polys."""
        out = Poly()
        for m, c in self.t.items():
            term = Poly.const(c)
            for a in m:
                term = term * mapping.get(a, Poly.atom(a))
            out = out + term
        return out

    def __repr__(self):
        if not self.t:
            return "0"
        parts = []
        for m, c in sorted(self.t.items(), key=lambda kv: (len(kv[0]),
                                                          kv[0])):
            if m == ():
                parts.append(_fr(c))
            else:
                ms = "*".join(m)
                if c == 1:
                    parts.append(ms)
                elif c == -1:
                    parts.append("-" + ms)
                else:
                    parts.append("%s*%s" % (_fr(c), ms))
        return " + ".join(parts).replace("+ -", "- ")


def _fr(c):
    return str(c.numerator) if c.denominator == 1 else str(c)


def _p(x):
    if isinstance(x, Poly):
        return x
    if isinstance(x, (int, Fraction)):
        return Poly.const(x)
    raise TypeError(x)


# --------------------------------------------------------------------------
# Linear constraints  sum(a_i * v_i) + c  (<= | <) 0  over monomial-variables
# --------------------------------------------------------------------------
class Con(object):
    """poly <= 0 (strict=False) or poly < 0 (strict=True).  Non-linear
    monomials are treated as independent opaque variables (sound)."""
    __slots__ = ("p", "strict", "why", "_rows")

    def __init__(self, p, strict=False, why=""):
        self.p = _p(p)
        self.strict = strict
        self.why = why
        self._rows = {}

    def row(self, integer=True):
        r = self._rows.get(integer)
        if r is None:
            r = _int_row(self, integer)
            self._rows[integer] = r
        return r

    def __repr__(self):
        return "%r %s 0" % (self.p, "<" if self.strict else "<=")


def le(a, b, why=""):
    return Con(_p(a) - _p(b), False, why)


def lt(a, b, why=""):
    return Con(_p(a) - _p(b), True, why)


def eq(a, b, why=""):
    return [le(a, b, why), le(b, a, why)]


def _tighten(con, integer):
    """Over the integers  p < 0  with integral coefficients is  p + 1 <= 0."""
    if con.strict and integer and all(c.denominator == 1
                                     for c in con.p.t.values()):
        return Con(con.p + 1, False, con.why)
    return con


from math import gcd as _gcd

_feas_cache = {}


def _int_row(con, integer):
    """Con -> (tuple of (monomial, int coef) sorted, strict) scaled to
    coprime integers; integer tightening applied."""
    t = con.p.t
    den = 1
    for c in t.values():
        d = c.denominator
        den = den * d // _gcd(den, d)
    row = {}
    for m, c in t.items():
        v = int(c * den)
        if v:
            row[m] = v
    strict = con.strict
    if strict and integer:
        row[()] = row.get((), 0) + 1
        if row[()] == 0:
            del row[()]
        strict = False
    return _norm_row(row, strict, integer)


def _norm_row(row, strict, integer):
    g = 0
    for m, v in row.items():
        if m != ():
            g = _gcd(g, abs(v))
    if g > 1:
        c0 = row.get((), 0)
        if integer and not strict:
            # sum(g*a_i x_i) + c0 <= 0  <=>  sum(a_i x_i) <= floor(-c0/g)
            row = {m: v // g for m, v in row.items() if m != ()}
            k = -((-c0) // g)      # ceil(c0 / g)
            if k:
                row[()] = k
        elif c0 % g == 0:
            row = {m: v // g for m, v in row.items()}
    return (tuple(sorted(row.items())), strict)


def feasible(cons, integer=True, limit=3000):
    """Fourier-Motzkin over integer-scaled rows: is the conjunction
    satisfiable over Q (after integer tightening)?  Returns False only if
    definitely infeasible; on blow-up the conservative True."""
    rows = set()
    for c in cons:
        r = c.row(integer)
        if not r[0]:
            if r[1]:
                return False        # 0 < 0
            continue
        if len(r[0]) == 1 and r[0][0][0] == ():
            c0 = r[0][0][1]
            if c0 > 0 or (c0 == 0 and r[1]):
                return False
            continue
        rows.add(r)
    key = (frozenset(rows), integer)
    hit = _feas_cache.get(key)
    if hit is not None:
        return hit
    res = _fm(rows, integer, limit)
    if len(_feas_cache) > 200000:
        _feas_cache.clear()
    _feas_cache[key] = res
    return res


def _fm(rows, integer, limit):
    rows = [(dict(r), s) for r, s in rows]
    variables = set()
    for r, _ in rows:
        variables.update(m for m in r if m != ())
    while variables:
        best, bestcost = None, None
        for v in variables:
            pos = neg = 0
            for r, _ in rows:
                c = r.get(v, 0)
                if c > 0:
                    pos += 1
                elif c < 0:
                    neg += 1
            cost = pos * neg - pos - neg
            if bestcost is None or cost < bestcost:
                best, bestcost = v, cost
        v = best
        variables.discard(v)
        pos = [(r, s) for r, s in rows if r.get(v, 0) > 0]
        neg = [(r, s) for r, s in rows if r.get(v, 0) < 0]
        new = set()
        out = []
        for r, s in rows:
            if r.get(v, 0) == 0:
                k = (tuple(sorted(r.items())), s)
                if k not in new:
                    new.add(k)
        for rp, sp in pos:
            a = rp[v]
            for rn, sn in neg:
                b = -rn[v]
                row = {}
                for m, c in rp.items():
                    if m != v:
                        row[m] = c * b
                for m, c in rn.items():
                    if m != v:
                        row[m] = row.get(m, 0) + c * a
                row = {m: c for m, c in row.items() if c}
                strict = sp or sn
                if not any(m != () for m in row):
                    c0 = row.get((), 0)
                    if c0 > 0 or (c0 == 0 and strict):
                        return False
                    continue
                if strict and integer:
                    row[()] = row.get((), 0) + 1
                    if row[()] == 0:
                        del row[()]
                    strict = False
                new.add(_norm_row(row, strict, integer))
        if len(new) > limit:
            return True
        rows = [(dict(r), s) for r, s in new]
    for r, s in rows:
        c0 = r.get((), 0)
        if c0 > 0 or (c0 == 0 and s):
            return False
    return True


def entails(premises, goal, integer=True):
    """premises |- goal  (goal: a Con, or a list of Cons = conjunction)."""
    goals = goal if isinstance(goal, (list, tuple)) else [goal]
    have = None
    for g in goals:
        if have is None:
            have = set(c.row(integer) for c in premises)
        if g.row(integer) in have:
            continue
        # negation of  p <= 0  is  -p < 0 ; of  p < 0  is  -p <= 0
        neg = Con(-g.p, not g.strict)
        if feasible(list(premises) + [neg], integer):
            return False
    return True
