"""EFFECTS engine: which objects a function may mutate in place.

Values are abstracted by their *origin*: a formal parameter at some depth
(0 = the object passed in, 1 = an element/attribute of it, ...), a fresh
object created by this call, a module-level mutable ("global"), or unknown.
A flow-sensitive forward dataflow over the CFG tracks, per local variable,
the possible origins of the object it refers to and of that object's
elements (a shallow copy is a fresh container whose elements stay borrowed).
Mutation events - item/attribute stores, augmented stores through a
subscript/attribute, mutating method calls, calls of functions whose summary
says they mutate an argument - are reported with the origins of their target.
Boolean flag variables (assigned only True/False) partition the state, so the
idiom "copy on first write, guarded by a flag" is analysed precisely.
Summaries are computed to a fixpoint over the resolved call graph.
"""
import ast

from .core import AnalysisError, unparse
from .cfg import cfg_of
from .dataflow import chain, call_name, _walk_no_scopes, MUTATORS

FRESH = ("F",)
UNK = ("U",)
MAXD = 3

COPY_CTORS = {"dict", "list", "set", "tuple", "frozenset", "sorted", "deque",
              "OrderedDict", "bytearray", "bytes"}
ELEM_METHODS = {"get", "pop", "setdefault", "values", "items", "keys",
                "popleft", "popitem", "itervalues", "iteritems", "iterkeys",
                "__getitem__", "copy_elements"}
ELEM_FUNCS = {"iteritems", "itervalues", "iterkeys", "iter", "next",
              "enumerate", "zip", "reversed", "chain", "heappop"}
MUT_ARG_FUNCS = {"heappush": 0, "heappop": 0, "heapify": 0, "shuffle": 0,
                 "pack_into": 1}
# mutators that matter for C17 (I/O-ish names from dataflow.MUTATORS removed)
MUT_METHODS = (MUTATORS - {"write", "seek", "send", "sendto"})


def deeper(origins):
    out = set()
    for o in origins:
        if o[0] == "P":
            out.add(("P", o[1], min(o[2] + 1, MAXD)))
        else:
            out.add(o)
    return frozenset(out)


def _merge_items(a, b):
    if a is None or b is None or len(a) != len(b):
        return None
    return tuple(x.union(y) for x, y in zip(a, b))


class Val(object):
    """Origins of an object (s), of its elements (e) and of its elements'
    elements (ee).  ``items``: when the object is a tuple of statically known
    arity, the value of each position; ``eitems``: the same for the tuples
    this container holds."""
    __slots__ = ("s", "e", "ee", "items", "eitems")

    def __init__(self, s, e=None, ee=None, items=None, eitems=None):
        self.s = frozenset(s)
        self.e = frozenset(e) if e is not None else deeper(self.s)
        self.ee = frozenset(ee) if ee is not None else deeper(self.e)
        self.items = tuple(items) if items is not None else None
        self.eitems = tuple(eitems) if eitems is not None else None

    def union(self, o):
        return Val(self.s | o.s, self.e | o.e, self.ee | o.ee,
                   _merge_items(self.items, o.items),
                   _merge_items(self.eitems, o.eitems))

    def down(self):
        """An element / attribute of this object."""
        return Val(self.e, self.ee, deeper(self.ee), self.eitems)

    def shallow(self):
        """A shallow copy of this object."""
        return Val([FRESH], self.e, self.ee, self.items, self.eitems)

    def key(self):
        return (self.s, self.e, self.ee,
                None if self.items is None else tuple(
                    i.key() for i in self.items),
                None if self.eitems is None else tuple(
                    i.key() for i in self.eitems))

    def __eq__(self, o):
        return isinstance(o, Val) and self.key() == o.key()

    def __hash__(self):
        return hash(self.key())

    def __repr__(self):
        return "Val(%s|%s|%s)" % (sorted(self.s), sorted(self.e),
                                  sorted(self.ee))


def box(vals, as_tuple=False):
    """A fresh container holding the given values."""
    s, e = set(), set()
    eitems = None
    first = True
    for v in vals:
        s |= v.s
        e |= v.e
        if first:
            eitems = v.items
            first = False
        else:
            eitems = _merge_items(eitems, v.items)
    return Val([FRESH], s or [FRESH], e or [FRESH],
               list(vals) if as_tuple else None, eitems)


VFRESH = Val([FRESH], [FRESH], [FRESH])
VUNK = Val([UNK], [UNK], [UNK])


class Event(object):
    def __init__(self, kind, origins, node, text, fn, evident=False):
        self.kind = kind          # "mutate" | "escape"
        self.origins = origins
        self.node = node
        self.text = text
        self.fn = fn
        self.evident = evident    # escape: the value is evidently a container


def _mutable_ctor(e):
    """Is the expression evidently a (new) mutable container?"""
    if isinstance(e, (ast.Dict, ast.List, ast.Set, ast.ListComp, ast.DictComp,
                      ast.SetComp)):
        return True
    if isinstance(e, ast.Call):
        return call_name(e)[0] in ("dict", "list", "set", "defaultdict",
                                   "OrderedDict", "deque", "_Tree")
    return False


def container_evident(fn, param, value_expr):
    """(a) the parameter's default is a mutable container, or (b) the stored
    expression has an alternative that is a container constructor."""
    a = fn.args
    pos = a.posonlyargs + a.args
    for arg, d in zip(pos[len(pos) - len(a.defaults):], a.defaults):
        if arg.arg == param and _mutable_ctor(d):
            return True
    for arg, d in zip(a.kwonlyargs, a.kw_defaults):
        if arg.arg == param and d is not None and _mutable_ctor(d):
            return True
    if value_expr is not None:
        alts = []
        if isinstance(value_expr, ast.BoolOp):
            alts = value_expr.values
        elif isinstance(value_expr, ast.IfExp):
            alts = [value_expr.body, value_expr.orelse]
        if any(_mutable_ctor(x) for x in alts):
            return True
    return False


def _returns_list(d):
    """Does the function ``d`` always return a list it has made (a display,
    a comprehension, list(...), sorted(...), or a local only ever bound to
    one of those)?  ``x += f()`` is then an in-place extension of x."""
    if not isinstance(d, ast.FunctionDef):
        return False

    def listy(e):
        return isinstance(e, (ast.List, ast.ListComp)) or (
            isinstance(e, ast.Call) and call_name(e)[0] in ("list",
                                                            "sorted"))
    rets = [r for r in _walk_no_scopes(d) if isinstance(r, ast.Return)]
    if not rets or any(isinstance(x, (ast.Yield, ast.YieldFrom))
                       for x in _walk_no_scopes(d)):
        return False
    for r in rets:
        v = r.value
        if v is None:
            return False
        if listy(v):
            continue
        if isinstance(v, ast.Name):
            binds = [a for a in _walk_no_scopes(d)
                     if isinstance(a, ast.Assign) and any(
                         isinstance(t, ast.Name) and t.id == v.id
                         for t in a.targets)]
            others = [a for a in _walk_no_scopes(d) if isinstance(
                a, (ast.AugAssign, ast.For, ast.With)) and any(
                    isinstance(t, ast.Name) and t.id == v.id and
                    isinstance(t.ctx, ast.Store) for t in ast.walk(
                        a.target if not isinstance(a, ast.With) else a))]
            params = [x.arg for x in d.args.posonlyargs + d.args.args +
                      d.args.kwonlyargs]
            if binds and all(listy(a.value) for a in binds) and \
                    v.id not in params and all(
                        isinstance(a, ast.AugAssign) for a in others):
                continue
        return False
    return True


class Effects(object):
    def __init__(self, program, max_depth=2):
        self.program = program
        self.max_depth = max_depth
        self.summaries = {}       # id(fn) -> {param: min depth mutated}
        self.events = {}          # id(fn) -> [Event]
        self.escapes = {}         # id(fn) -> {param: container evident?}
        self._fns = {}
        self.unresolved = 0
        self.resolved = 0

    # -- call resolution ----------------------------------------------------------
    def resolve(self, call, fn):
        """The rig def a call refers to, or None."""
        mod = fn._module
        f = call.func
        target = None
        if isinstance(f, ast.Name):
            nm = f.id
            # nested / sibling def in the same module
            scope = fn
            while scope is not None:
                q = getattr(scope, "_qualname", None)
                if q is not None and (q + "." + nm) in mod.defs:
                    return mod.defs[q + "." + nm]
                scope = getattr(scope, "_parent", None)
            if nm in mod.defs:
                return mod.defs[nm]
            if nm in mod.imports:
                target = mod.imports[nm]
        elif isinstance(f, ast.Attribute):
            c = chain(f.value)
            if c == "self" or c == "cls":
                cls = fn._qualname.rsplit(".", 1)[0] if "." in \
                    fn._qualname else None
                while cls:
                    q = cls + "." + f.attr
                    if q in mod.defs:
                        return mod.defs[q]
                    cdef = mod.defs.get(cls)
                    cls = None
                    if isinstance(cdef, ast.ClassDef):
                        for b in cdef.bases:
                            bn = chain(b)
                            if bn in mod.defs:
                                cls = bn
                                break
                return None
            if c is not None and c in mod.imports:
                t = mod.imports[c]
                modname = t.replace(":", ".")
                if modname in self.program.modules:
                    m2 = self.program.modules[modname]
                    return m2.defs.get(f.attr)
                if t.split(":")[0] in self.program.modules and ":" in t:
                    # from pkg import mod
                    pass
        if target is None and isinstance(f, ast.Attribute) and \
                f.attr not in MUT_METHODS and f.attr not in ELEM_METHODS and \
                f.attr not in ("copy", "format", "join", "split"):
            cands = [d for q, d in mod.defs.items()
                     if isinstance(d, ast.FunctionDef) and "." in q and
                     q.rsplit(".", 1)[1] == f.attr and
                     isinstance(mod.defs.get(q.rsplit(".", 1)[0]),
                                ast.ClassDef)]
            if len(cands) == 1:
                return cands[0]
            classes = [d for q, d in mod.defs.items()
                       if isinstance(d, ast.ClassDef) and
                       q.rsplit(".", 1)[-1] == f.attr]
            if len(classes) == 1:
                return classes[0]
        if target:
            modname, _, attr = target.partition(":")
            seen = set()
            while modname in self.program.modules and attr and \
                    (modname, attr) not in seen:
                seen.add((modname, attr))
                m2 = self.program.modules[modname]
                if attr in m2.defs:
                    return m2.defs[attr]
                if attr in m2.imports:
                    modname, _, attr = m2.imports[attr].partition(":")
                else:
                    break
        return None

    # -- per function ---------------------------------------------------------------
    def analyse(self, fn):
        if id(fn) in self.events:
            return self.events[id(fn)]
        self._fns[id(fn)] = fn
        self.events[id(fn)] = []
        ev = _FnAnalysis(self, fn).run()
        self.events[id(fn)] = ev
        summ = {}
        for e in ev:
            if e.kind != "mutate":
                continue
            for o in e.origins:
                if o[0] == "P":
                    summ[o[1]] = min(summ.get(o[1], 99), o[2])
                elif o[0] == "G":
                    summ["<global>"] = 0
        self.summaries[id(fn)] = summ
        esc = {}
        for e in ev:
            if e.kind == "escape":
                for o in e.origins:
                    esc[o[1]] = esc.get(o[1], False) or e.evident
        self.escapes[id(fn)] = esc
        return ev

    def summary(self, fn):
        if id(fn) not in self.summaries:
            if id(fn) in self.events:       # recursion in progress
                return {}
            self.analyse(fn)
        return self.summaries.get(id(fn), {})


class _FnAnalysis(object):
    def __init__(self, eff, fn):
        self.eff = eff
        self.fn = fn
        self.mod = fn._module
        self.cfg = cfg_of(fn)
        self.events = []
        self._seen_events = set()
        a = fn.args
        self.params = [x.arg for x in a.posonlyargs + a.args + a.kwonlyargs]
        if a.vararg:
            self.params.append(a.vararg.arg)
        if a.kwarg:
            self.params.append(a.kwarg.arg)
        self.flags = self._find_flags()
        # identity tests between two locals (``if net is original_net:``)
        # partition the state like flags do: "copy on first write, guarded
        # by an identity test with the original"
        self.idpairs = []
        for n in self.cfg.nodes:
            if n.kind == "assume" and isinstance(n.ast, ast.Compare) and \
                    len(n.ast.ops) == 1 and isinstance(
                        n.ast.ops[0], (ast.Is, ast.IsNot)) and \
                    isinstance(n.ast.left, ast.Name) and \
                    isinstance(n.ast.comparators[0], ast.Name):
                pr = (n.ast.left.id, n.ast.comparators[0].id)
                if pr not in self.idpairs and pr[0] not in self.params:
                    self.idpairs.append(pr)
        self.idpairs = self.idpairs[:2]

    def _find_flags(self):
        assigned = {}
        for n in _walk_no_scopes(self.fn):
            if isinstance(n, ast.Assign) and len(n.targets) == 1 and \
                    isinstance(n.targets[0], ast.Name):
                nm = n.targets[0].id
                # True / False, or an expression that yields a truth value
                # (a comparison, a negation): unknown until it is tested
                isb = (isinstance(n.value, ast.Constant) and
                       isinstance(n.value.value, bool)) or isinstance(
                    n.value, ast.Compare) or (
                    isinstance(n.value, ast.UnaryOp) and
                    isinstance(n.value.op, ast.Not))
                assigned.setdefault(nm, []).append(isb)
            elif isinstance(n, (ast.AugAssign, ast.For, ast.With)):
                for t in ast.walk(n.target if not isinstance(n, ast.With)
                                  else n):
                    if isinstance(t, ast.Name) and isinstance(t.ctx,
                                                              ast.Store):
                        assigned.setdefault(t.id, []).append(False)
        flags = [nm for nm, v in assigned.items() if v and all(v) and
                 nm not in self.params]
        # only flags that are tested somewhere
        tested = set()
        for n in self.cfg.nodes:
            if n.kind == "assume":
                c = n.ast
                if isinstance(c, ast.Name):
                    tested.add(c.id)
        return sorted(f for f in flags if f in tested)[:3]

    # -- values ---------------------------------------------------------------------
    def val(self, e, env):
        if e is None:
            return VFRESH
        if isinstance(e, ast.Name):
            if e.id in env:
                return env[e.id]
            return self._global(e.id)
        if isinstance(e, ast.Constant):
            return VFRESH
        if isinstance(e, ast.Attribute):
            c = chain(e)
            if c is not None and c in env:
                return env[c]
            v = self.val(e.value, env)
            return v.down()
        if isinstance(e, ast.Subscript):
            v = self.val(e.value, env)
            if isinstance(e.slice, ast.Slice):
                return v.shallow()
            return v.down()
        if isinstance(e, ast.Starred):
            return self.val(e.value, env)
        if isinstance(e, (ast.Tuple, ast.List, ast.Set)):
            if any(isinstance(x, ast.Starred) for x in e.elts):
                return box([self.val(x, env) for x in e.elts])
            return box([self.val(x, env) for x in e.elts],
                       as_tuple=isinstance(e, ast.Tuple))
        if isinstance(e, ast.Dict):
            vs = []
            for k, x in zip(e.keys, e.values):
                if k is None:       # {**other}
                    vs.append(self.val(x, env).down())
                else:               # keys are hashable values: not tracked
                    vs.append(self.val(x, env))
            return box(vs)
        if isinstance(e, (ast.ListComp, ast.SetComp, ast.GeneratorExp,
                          ast.DictComp)):
            env2 = dict(env)
            for g in e.generators:
                it = self.val(g.iter, env2)
                self._bind(g.target, it.down(), env2)
            if isinstance(e, ast.DictComp):
                return box([self.val(e.value, env2)])
            return box([self.val(e.elt, env2)])
        if isinstance(e, ast.IfExp):
            return self.val(e.body, env).union(self.val(e.orelse, env))
        if isinstance(e, ast.BoolOp):
            v = self.val(e.values[0], env)
            for x in e.values[1:]:
                v = v.union(self.val(x, env))
            return v
        if isinstance(e, ast.BinOp):
            a, b = self.val(e.left, env), self.val(e.right, env)
            return Val([FRESH], a.e | b.e, a.ee | b.ee)
        if isinstance(e, ast.Call):
            return self._callval(e, env)
        if isinstance(e, ast.NamedExpr):
            return self.val(e.value, env)
        return VFRESH

    def _global(self, name):
        mod = self.mod
        for st in mod.tree.body:
            if isinstance(st, ast.Assign):
                for t in st.targets:
                    if isinstance(t, ast.Name) and t.id == name:
                        v = st.value
                        if isinstance(v, (ast.Dict, ast.List, ast.Set,
                                          ast.ListComp, ast.DictComp,
                                          ast.SetComp)) or (
                                isinstance(v, ast.Call) and
                                call_name(v)[0] in (
                                    "dict", "list", "set", "defaultdict",
                                    "OrderedDict", "deque")):
                            g = ("G", mod.name, name)
                            return Val([g], [g])
        return VUNK

    def _callval(self, e, env):
        name, recv = call_name(e)
        if recv is None:
            if name in COPY_CTORS:
                if e.args:
                    return self.val(e.args[0], env).shallow()
                return VFRESH
            if name in ("enumerate", "iteritems") and e.args:
                x = self.val(e.args[0], env)
                return box([box([VFRESH, x.down()], as_tuple=True)])
            if name == "zip" and e.args:
                return box([box([self.val(a, env).down() for a in e.args],
                                as_tuple=True)])
            if name in ELEM_FUNCS and e.args:
                v = self.val(e.args[0], env)
                for a in e.args[1:]:
                    v = v.union(self.val(a, env))
                if name in ("iter", "reversed", "enumerate", "zip", "chain",
                            "iteritems", "itervalues", "iterkeys"):
                    # an iterator over x: its "elements" are x's elements
                    return v.shallow()
                return v.down()
            if name in ("max", "min") and e.args:
                # the largest / smallest element: one of the elements
                if len(e.args) == 1:
                    return self.val(e.args[0], env).down()
                v = self.val(e.args[0], env)
                for a in e.args[1:]:
                    v = v.union(self.val(a, env))
                return v
            if name == "deepcopy":
                return VFRESH
            if name == "defaultdict":
                if len(e.args) > 1:
                    return self.val(e.args[1], env).shallow()
                return VFRESH
            return VFRESH
        # method call
        rv = self.val(recv, env)
        if name == "copy":
            c = chain(recv)
            if c == "copy" and e.args:          # copy.copy(x)
                return self.val(e.args[0], env).shallow()
            return rv.shallow()
        if name == "deepcopy":
            return VFRESH
        if name in ELEM_METHODS:
            if name in ("items", "iteritems"):
                return box([box([VFRESH, rv.down()], as_tuple=True)])
            if name in ("values", "keys", "itervalues", "iterkeys"):
                return rv.shallow()
            out = rv.down()
            if name in ("get", "setdefault", "pop") and len(e.args) > 1:
                out = out.union(self.val(e.args[1], env))
            return out
        if name in ("union", "difference", "intersection",
                    "symmetric_difference"):
            return rv.shallow()
        return VFRESH

    # -- binding ----------------------------------------------------------------------
    def _bind(self, target, v, env):
        if isinstance(target, ast.Name):
            env[target.id] = v
        elif isinstance(target, (ast.Tuple, ast.List)):
            if v.items is not None and len(v.items) == len(target.elts) \
                    and not any(isinstance(t, ast.Starred)
                                for t in target.elts):
                for t, iv in zip(target.elts, v.items):
                    self._bind(t, iv, env)
            else:
                for t in target.elts:
                    self._bind(t, v.down(), env)
        elif isinstance(target, ast.Starred):
            self._bind(target.value, v.shallow(), env)
        elif isinstance(target, ast.Attribute):
            c = chain(target)
            if c is not None:
                env[c] = v

    def _weak(self, container, v, env):
        """The container now (also) holds the object v."""
        c = chain(container)
        if c is not None and c in env:
            old = env[c]
            if old.eitems is not None:
                ei = _merge_items(old.eitems, v.items)
            elif old.e <= frozenset([FRESH]) and old.s <= frozenset([FRESH]):
                ei = v.items       # first thing put into a fresh container
            else:
                ei = None
            env[c] = Val(old.s, old.e | v.s, old.ee | v.e, old.items, ei)
        elif isinstance(container, (ast.Subscript, ast.Attribute)):
            # d[k].append(v): v sits two levels inside d
            c = chain(container.value)
            if c is not None and c in env:
                old = env[c]
                env[c] = Val(old.s, old.e, old.ee | v.s, old.items,
                             old.eitems)

    def _event(self, kind, origins, node, text, evident=False):
        origins = frozenset(origins)
        key = (kind, origins, id(node), text)
        if key in self._seen_events:
            return
        self._seen_events.add(key)
        self.events.append(Event(kind, origins, node, text, self.fn,
                                 evident))

    def _mutate(self, target_expr, env, node, text):
        v = self.val(target_expr, env)
        self._event("mutate", v.s, node, text)

    # -- transfer ------------------------------------------------------------------------
    def _calls(self, root, env, node):
        for sub in _walk_no_scopes(root):
            if not isinstance(sub, ast.Call):
                continue
            name, recv = call_name(sub)
            if recv is not None and name in MUT_METHODS:
                self._mutate(recv, env, sub, "%s.%s(...)" % (unparse(recv),
                                                             name))
                if name in ("append", "add", "insert", "appendleft",
                            "setdefault") and sub.args:
                    self._weak(recv, self.val(sub.args[-1], env), env)
                elif name in ("extend", "update", "extendleft") and sub.args:
                    self._weak(recv, self.val(sub.args[0], env).down(), env)
            if name in MUT_ARG_FUNCS and len(sub.args) > MUT_ARG_FUNCS[name]:
                a = sub.args[MUT_ARG_FUNCS[name]]
                self._mutate(a, env, sub, "%s(%s, ...)" % (name, unparse(a)))
            callee = self.eff.resolve(sub, self.fn)
            if callee is None:
                self.eff.unresolved += 1
                continue
            self.eff.resolved += 1
            if isinstance(callee, ast.ClassDef):
                init = None
                for b in callee.body:
                    if isinstance(b, ast.FunctionDef) and \
                            b.name in ("__init__", "__new__"):
                        init = b
                if init is None:
                    continue
                callee = init
                skip = 1
            else:
                skip = 1 if (isinstance(sub.func, ast.Attribute) and
                             callee.args.args and
                             callee.args.args[0].arg in ("self", "cls")) \
                    else 0
            summ = self.eff.summary(callee)
            esc = self.eff.escapes.get(id(callee), {})
            if not summ and not esc:
                continue
            names = [x.arg for x in callee.args.posonlyargs +
                     callee.args.args][skip:]
            actuals = {}
            for i, a in enumerate(sub.args):
                if isinstance(a, ast.Starred):
                    break
                if i < len(names):
                    actuals[names[i]] = a
            for k in sub.keywords:
                if k.arg is not None:
                    actuals[k.arg] = k.value
            for p, evident in esc.items():
                if p in actuals:
                    v = self.val(actuals[p], env)
                    borrowed = [o for o in v.s if o[0] == "P" and o[2] == 0
                                and o[1] not in ("self", "cls")]
                    if borrowed:
                        self._event(
                            "escape", borrowed, sub,
                            "%s passed to %s(...) which keeps it by "
                            "reference" % (unparse(actuals[p]),
                                           getattr(callee, "_qualname",
                                                   callee.name)), evident)
            for p, d in summ.items():
                if p == "<global>":
                    self._event("mutate", [("G", "?", "via " + callee.name)],
                                sub, "%s(...) mutates module state" %
                                callee.name)
                    continue
                if p in actuals:
                    v = self.val(actuals[p], env)
                    # depth d inside the actual: walk d levels down
                    vv = v
                    for _ in range(d):
                        vv = vv.down()
                    self._event("mutate", vv.s, sub,
                                "%s(...) mutates its argument %s%s" % (
                                    callee.name, p,
                                    "" if d == 0 else " (depth %d)" % d))
                elif p in ("self", "cls") and skip and \
                        isinstance(sub.func, ast.Attribute):
                    v = self.val(sub.func.value, env)
                    vv = v
                    for _ in range(d):
                        vv = vv.down()
                    self._event("mutate", vv.s, sub,
                                "%s.%s(...) mutates its receiver" % (
                                    unparse(sub.func.value), callee.name))

    def _transfer(self, n, env):
        env = dict(env)
        s = n.ast
        if n.kind == "stmt":
            if isinstance(s, ast.Assign):
                self._calls(s.value, env, n)
                v = self.val(s.value, env)
                for t in s.targets:
                    self._store(t, v, s.value, env, n)
            elif isinstance(s, ast.AnnAssign) and s.value is not None:
                self._calls(s.value, env, n)
                self._store(s.target, self.val(s.value, env), s.value, env,
                            n)
            elif isinstance(s, ast.AugAssign):
                self._calls(s.value, env, n)
                t = s.target
                if isinstance(t, ast.Name):
                    # x += [...] mutates a list in place; x += 1 rebinds
                    if isinstance(s.value, (ast.List, ast.ListComp, ast.Set,
                                            ast.SetComp)) or (
                            isinstance(s.value, ast.Call) and
                            call_name(s.value)[0] in ("list", "set")) or (
                            isinstance(s.value, ast.Call) and
                            isinstance(s.op, ast.Add) and
                            _returns_list(self.eff.resolve(s.value,
                                                           self.fn))):
                        self._mutate(t, env, s, "%s %s= ..." % (
                            t.id, type(s.op).__name__))
                    elif isinstance(s.op, (ast.BitOr, ast.BitAnd, ast.Sub,
                                           ast.BitXor)) and \
                            self._set_typed(t.id, s.value):
                        # a |= b on sets changes the set a names in place
                        self._mutate(t, env, s, "%s %s= ... (a set)" % (
                            t.id, type(s.op).__name__))
                    else:
                        old = env.get(t.id, VUNK)
                        nv = self.val(s.value, env)
                        env[t.id] = Val([FRESH], old.e | nv.e,
                                        old.ee | nv.ee)
                else:
                    self._mutate(t.value, env, s, "%s (augmented store)" %
                                 unparse(t))
            elif isinstance(s, ast.Delete):
                for t in s.targets:
                    if isinstance(t, (ast.Subscript, ast.Attribute)):
                        self._mutate(t.value, env, s, "del %s" % unparse(t))
            elif isinstance(s, (ast.FunctionDef, ast.ClassDef,
                                ast.AsyncFunctionDef)):
                env[s.name] = VFRESH
            elif isinstance(s, ast.Return):
                if s.value is not None:
                    self._calls(s.value, env, n)
            else:
                self._calls(s, env, n)
        elif n.kind == "test":
            self._calls(s, env, n)
        elif n.kind == "iter":
            it = self.val(s.iter, env)
            self._bind(s.target, it.down(), env)
        elif n.kind == "with":
            for item in s.items:
                self._calls(item.context_expr, env, n)
                if item.optional_vars is not None:
                    self._bind(item.optional_vars, VFRESH, env)
        elif n.kind == "handler":
            if s.name:
                env[s.name] = VFRESH
        return env

    def _store(self, t, v, value_expr, env, n):
        if isinstance(t, ast.Name):
            env[t.id] = v
        elif isinstance(t, (ast.Tuple, ast.List)):
            if isinstance(value_expr, (ast.Tuple, ast.List)) and \
                    len(value_expr.elts) == len(t.elts):
                vals = [self.val(x, env) for x in value_expr.elts]
                for tt, vv, xx in zip(t.elts, vals, value_expr.elts):
                    self._store(tt, vv, xx, env, n)
            elif v.items is not None and len(v.items) == len(t.elts) and \
                    not any(isinstance(x, ast.Starred) for x in t.elts):
                for tt, iv in zip(t.elts, v.items):
                    self._store(tt, iv, None, env, n)
            else:
                for tt in t.elts:
                    self._store(tt, v.down(), None, env, n)
        elif isinstance(t, ast.Starred):
            self._store(t.value, v.shallow(), None, env, n)
        elif isinstance(t, ast.Attribute):
            self._mutate(t.value, env, t, "%s = ..." % unparse(t))
            c = chain(t)
            root = c.split(".")[0] if c else None
            if root in ("self", "cls"):
                # escape of a borrowed object into the instance
                borrowed = [o for o in v.s if o[0] == "P" and o[2] == 0 and
                            o[1] not in ("self", "cls")]
                if borrowed:
                    ev = any(container_evident(self.fn, o[1], value_expr)
                             for o in borrowed)
                    self._event("escape", borrowed, t,
                                "%s = %s" % (c, unparse(value_expr)), ev)
            if c is not None:
                env[c] = v
        elif isinstance(t, ast.Subscript):
            self._mutate(t.value, env, t, "%s = ..." % unparse(t))
            self._weak(t.value, v, env)

    def _set_typed(self, name, value):
        """Is the variable (or the right-hand side, when it is a name)
        certainly a set somewhere in the function: bound to a set display,
        a set comprehension or set(...)?"""
        names = {name}
        if isinstance(value, ast.Name):
            names.add(value.id)
        for n in _walk_no_scopes(self.fn):
            if isinstance(n, ast.Assign) and any(
                    isinstance(t, ast.Name) and t.id in names
                    for t in n.targets):
                v = n.value
                if isinstance(v, (ast.Set, ast.SetComp)) or (
                        isinstance(v, ast.Call) and
                        call_name(v)[0] in ("set", "frozenset")):
                    return True
        return False

    # -- fixpoint with flag partitioning ---------------------------------------------------
    def run(self):
        cfg = self.cfg
        init = {}
        for p in self.params:
            init[p] = Val([("P", p, 0)])
        a = self.fn.args
        for va in (a.vararg, a.kwarg):
            if va is not None:     # *args / **kwargs are fresh containers
                init[va.arg] = Val([FRESH], [("P", va.arg, 1)],
                                   [("P", va.arg, 2)])
        key0 = tuple(None for _ in self.flags) + \
            tuple(None for _ in self.idpairs)
        state_out = {}
        state_in = {n.id: {} for n in cfg.nodes}
        state_in[cfg.entry.id] = {key0: init}
        work = [cfg.entry]
        rounds = 0
        while work:
            rounds += 1
            if rounds > 200 * len(cfg.nodes) + 2000:
                raise AnalysisError("EFFECTS did not converge on %s" %
                                    self.fn.name)
            n = work.pop(0)
            if n is not cfg.entry:
                merged = {}
                for p in n.pred:
                    for k, env in state_out.get(p.id, {}).items():
                        if k in merged:
                            merged[k] = _merge(merged[k], env)
                        else:
                            merged[k] = env
                state_in[n.id] = merged
            out = {}
            for k, env in state_in[n.id].items():
                k2, env2 = self._apply(n, k, env)
                if k2 is None:
                    continue
                if k2 in out:
                    out[k2] = _merge(out[k2], env2)
                else:
                    out[k2] = env2
            if out != state_out.get(n.id):
                state_out[n.id] = out
                for s in n.succ:
                    if s not in work:
                        work.append(s)
        return self.events

    def _apply(self, n, key, env):
        if n.kind == "assume" and isinstance(n.ast, ast.Name) and \
                n.ast.id in self.flags:
            i = self.flags.index(n.ast.id)
            if key[i] is not None and key[i] != n.polarity:
                return None, None
            key = key[:i] + (n.polarity,) + key[i + 1:]
            return key, env
        nf = len(self.flags)
        if n.kind == "assume" and isinstance(n.ast, ast.Compare) and \
                len(n.ast.ops) == 1 and isinstance(
                    n.ast.ops[0], (ast.Is, ast.IsNot)) and \
                isinstance(n.ast.left, ast.Name) and \
                isinstance(n.ast.comparators[0], ast.Name) and \
                (n.ast.left.id, n.ast.comparators[0].id) in self.idpairs:
            i = nf + self.idpairs.index((n.ast.left.id,
                                         n.ast.comparators[0].id))
            same = n.polarity if isinstance(n.ast.ops[0], ast.Is) \
                else not n.polarity
            if key[i] is not None and key[i] != same:
                return None, None
            key = key[:i] + (same,) + key[i + 1:]
            return key, env
        env2 = self._transfer(n, env)
        if self.idpairs and n.kind in ("stmt", "iter") and n.ast is not None:
            stored = set()
            st_ = n.ast
            tgts = []
            if isinstance(st_, ast.Assign):
                tgts = st_.targets
            elif isinstance(st_, (ast.AugAssign, ast.AnnAssign)):
                tgts = [st_.target]
            elif isinstance(st_, ast.For):
                tgts = [st_.target]
            for t in tgts:
                for x in ast.walk(t):
                    if isinstance(x, ast.Name) and isinstance(x.ctx,
                                                              ast.Store):
                        stored.add(x.id)
            for j, (a_, b_) in enumerate(self.idpairs):
                i = nf + j
                if a_ in stored and isinstance(st_, ast.Assign) and \
                        len(st_.targets) == 1 and isinstance(
                            st_.targets[0], ast.Name) and \
                        isinstance(st_.value, ast.Name) and \
                        st_.value.id == b_:
                    key = key[:i] + (True,) + key[i + 1:]   # a = b
                elif a_ in stored and isinstance(st_, ast.Assign) and \
                        isinstance(st_.value, ast.Call):
                    key = key[:i] + (False,) + key[i + 1:]  # a = New(..)
                elif a_ in stored or b_ in stored:
                    key = key[:i] + (None,) + key[i + 1:]
        if n.kind == "stmt" and isinstance(n.ast, ast.Assign) and \
                len(n.ast.targets) == 1 and \
                isinstance(n.ast.targets[0], ast.Name) and \
                n.ast.targets[0].id in self.flags:
            i = self.flags.index(n.ast.targets[0].id)
            v_ = n.ast.value
            key = key[:i] + ((bool(v_.value) if isinstance(v_, ast.Constant)
                              else None),) + key[i + 1:]
        return key, env2


def _merge(a, b):
    out = dict(a)
    for k, v in b.items():
        if k in out:
            if out[k] != v:
                out[k] = out[k].union(v)
        else:
            out[k] = v
    return out
