"""NOEFFECT: a value is computed and dropped.

``constraints.union(extra)`` (meant: update), ``sorted(boards)`` (meant:
boards.sort() or an assignment), ``data.strip(b"\\0")``, ``x == y`` on a line
of its own (meant: an assertion or an assignment): the statement evaluates an
expression that changes nothing and discards the result, so whatever it was
meant to establish is not established.

Reported: an expression statement that is
  * a comparison, arithmetic / boolean operation, name, attribute, item or
    display in which no call occurs;
  * a call of a builtin that only computes (sorted, reversed, len, min, max,
    sum, abs, list, tuple, set, frozenset, dict, str, bytes, int, float,
    bool, zip, map, filter, enumerate, range, divmod, round);
  * a call of a method that returns a new value and leaves its receiver
    alone: the non-updating set operations (union, intersection, difference,
    symmetric_difference), copy, the str / bytes transformations (strip,
    lstrip, rstrip, replace, lower, upper, format, encode, decode, split,
    join);
  * a change made to a copy created in the same expression
    (``table[:].sort()``, ``dict(d).update(e)``, ``x.copy().add(y)``).
String constants on a line of their own are documentation (the package
writes attribute docstrings that way) and are not reported; ``...`` neither.
"""
import ast

PURE_BUILTINS = {"sorted", "reversed", "len", "min", "max", "sum", "abs",
                 "list", "tuple", "set", "frozenset", "dict", "str", "bytes",
                 "int", "float", "bool", "zip", "map", "filter", "enumerate",
                 "range", "divmod", "round", "repr", "hash", "isinstance"}
PURE_METHODS = {"union", "intersection", "difference",
                "symmetric_difference", "copy", "strip", "lstrip", "rstrip",
                "replace", "lower", "upper", "format", "encode", "decode",
                "split", "join", "items", "keys", "values", "get",
                "startswith", "endswith", "count", "index", "isdisjoint",
                "issubset", "issuperset"}


def _has_call(e):
    return any(isinstance(x, (ast.Call, ast.Yield, ast.YieldFrom, ast.Await,
                              ast.NamedExpr)) for x in ast.walk(e))


def sites(tree):
    """[(statement, what)] for the no-effect expression statements under
    ``tree``."""
    out = []
    for st in ast.walk(tree):
        if not isinstance(st, ast.Expr):
            continue
        v = st.value
        if isinstance(v, ast.Constant):
            continue                    # docstrings, Ellipsis
        if isinstance(v, (ast.Compare, ast.BinOp, ast.BoolOp, ast.UnaryOp,
                          ast.Name, ast.Attribute, ast.Subscript, ast.Tuple,
                          ast.List, ast.Set, ast.Dict)) and not _has_call(v):
            out.append((st, "the value of %s is computed and dropped" %
                        ast.unparse(v)[:60]))
        elif isinstance(v, ast.Call):
            f = v.func
            if isinstance(f, ast.Name) and f.id in PURE_BUILTINS and \
                    not any(_has_call(a) for a in v.args):
                out.append((st, "%s(...) only computes a value, which is "
                            "dropped" % f.id))
            elif isinstance(f, ast.Attribute) and f.attr in PURE_METHODS \
                    and not any(_has_call(a) for a in v.args) and \
                    not _has_call(f.value):
                out.append((st, ".%s(...) returns a new value and leaves %s "
                            "as it was; the result is dropped" % (
                                f.attr, ast.unparse(f.value)[:40])))
            elif isinstance(f, ast.Attribute) and f.attr in MUTATORS and \
                    _fresh_temporary(f.value):
                out.append((st, "%s is a copy made on the spot: .%s(...) "
                            "changes the copy, which is then dropped - the "
                            "object it was copied from stays as it was" % (
                                ast.unparse(f.value)[:40], f.attr)))
    return out


MUTATORS = {"append", "extend", "insert", "remove", "pop", "clear", "sort",
            "reverse", "update", "add", "discard", "setdefault", "popitem",
            "appendleft", "popleft"}


def _fresh_temporary(e):
    """An expression that makes a new container each time it is evaluated
    (so a change made to its value cannot be seen anywhere)."""
    if isinstance(e, ast.Subscript) and isinstance(e.slice, ast.Slice):
        return True                                     # x[:] / x[a:b]
    if isinstance(e, (ast.List, ast.Dict, ast.Set, ast.ListComp,
                      ast.DictComp, ast.SetComp)):
        return True
    if isinstance(e, ast.Call):
        f = e.func
        if isinstance(f, ast.Name) and f.id in ("list", "dict", "set",
                                                "sorted", "deepcopy",
                                                "bytearray", "OrderedDict"):
            return True
        if isinstance(f, ast.Attribute) and f.attr in ("copy", "deepcopy"):
            return True
    return False


def identity_with_values(tree):
    """[(compare node, text)]: ``x is 3`` / ``s is not "abc"`` - identity
    tested against a number, string or tuple.  Whether two equal values are
    one object is an accident of the interpreter (small integers and short
    strings are usually shared, others are not), so the test holds for the
    values the suite happens to use and fails for others."""
    out = []
    for c in ast.walk(tree):
        if isinstance(c, ast.Compare):
            operands = [c.left] + list(c.comparators)
            for i, op in enumerate(c.ops):
                if not isinstance(op, (ast.Is, ast.IsNot)):
                    continue
                for e in (operands[i], operands[i + 1]):
                    if isinstance(e, ast.Constant) and \
                            e.value is not None and \
                            not isinstance(e.value, bool) and \
                            e.value is not Ellipsis:
                        out.append((c, "'%s' tests identity with the value "
                                    "%r; equal values need not be the same "
                                    "object" % (ast.unparse(c)[:60],
                                                e.value)))
                    elif isinstance(e, ast.Tuple):
                        out.append((c, "'%s' tests identity with a tuple "
                                    "made on the spot: never the same "
                                    "object" % ast.unparse(c)[:60]))
    return out


def rule(program, rep, rule_id, modules):
    n = 0
    for mname in modules:
        m = program.full(mname) if hasattr(program, "full") else \
            program.modules.get(mname)
        if m is None:
            continue
        program.module(mname)
        for q, d in sorted(m.defs.items()):
            if not isinstance(d, (ast.FunctionDef, ast.AsyncFunctionDef)) \
                    or getattr(d, "_virtual", False):
                continue
            n += 1
            for st, what in sites(d):
                # (statements of nested defs are reported with their own
                # function)
                owner = st
                while owner is not None and not isinstance(
                        owner, (ast.FunctionDef, ast.AsyncFunctionDef)):
                    owner = getattr(owner, "_parent", None)
                if owner is not d:
                    continue
                rep.bad(rule_id, "%s:%s" % (mname, q), "statement without "
                        "effect", "%s, line %d: %s - the statement changes "
                        "nothing" % (q, st.lineno, what), st, positive=True)
            for c, what in identity_with_values(d):
                owner = c
                while owner is not None and not isinstance(
                        owner, (ast.FunctionDef, ast.AsyncFunctionDef)):
                    owner = getattr(owner, "_parent", None)
                if owner is d:
                    rep.bad(rule_id, "%s:%s" % (mname, q), "identity with a "
                            "value", "%s, line %d: %s" % (q, c.lineno, what),
                            c, positive=True)
    rep.ok(rule_id, ",".join(sorted(modules)) or "-",
           "%d function(s): no statement computes a value only to drop it"
           % n)
