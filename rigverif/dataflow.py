"""Reaching definitions, symbolic values and dominating facts for one function.

``Flow(fn)`` gives
  * ``sym(expr, node)``    - the value of an expression at a CFG node as a
                             polynomial over opaque atoms (see poly.py), with
                             definitions substituted when that is sound;
  * ``facts(node)``        - the branch conditions (assume nodes) that dominate
                             the node and whose operands have not been
                             re-defined / mutated since, as (expr, polarity,
                             assume-node);
  * ``constraints(node)``  - those facts translated to linear constraints.

Soundness conventions.  An atom denotes the value of a variable (or opaque
term) *as established at one program point* (its location).  A definition
``a = E`` is substituted at a use only if no atom of ``E`` can have been
re-established on any path from the definition to the use; the same test
decides whether a dominating fact is still valid.  Mutation of a container
(``d[k] = v``, ``d.pop(k)``, ``l.append(x)`` ...) counts as a re-definition of
the container variable.  Calls ``self.m(...)`` re-define every ``self.*``
variable unless ``m`` is listed as pure by the rule.  Aliasing between distinct
local names is not tracked (stated in the evidence's trusted base).
"""
import ast
from fractions import Fraction

from .core import AnalysisError, unparse
from .cfg import cfg_of
from .poly import Poly, Con, le, lt

MUTATORS = {
    "append", "extend", "insert", "pop", "remove", "clear", "sort", "reverse",
    "update", "setdefault", "popitem", "add", "discard",
    "difference_update", "intersection_update",
    "symmetric_difference_update", "appendleft", "popleft", "extendleft",
    "rotate", "write", "seek", "send", "sendto",
}
# free functions that mutate one of their arguments: name -> arg index
MUT_FUNCS = {"heappush": 0, "heappop": 0, "heapify": 0, "heapreplace": 0,
             "heappushpop": 0, "shuffle": 0, "pack_into": 1, "setattr": 0,
             "next": 0}
PURE_FUNCS = {"len", "min", "max", "int", "abs", "bool", "sorted", "list",
              "tuple", "set", "frozenset", "dict", "sum", "any", "all",
              "isinstance", "repr", "str", "bytes", "bytearray", "range",
              "enumerate", "zip", "iter", "iteritems", "itervalues",
              "iterkeys", "calcsize", "unpack", "unpack_from", "pack",
              "slice", "float", "round", "divmod", "hash", "id", "type",
              "getattr", "hasattr", "memoryview", "reversed", "log", "ceil",
              "floor"}


def chain(expr):
    """Dotted name of a Name / Attribute chain rooted at a Name, else None."""
    parts = []
    e = expr
    while isinstance(e, ast.Attribute):
        parts.append(e.attr)
        e = e.value
    if isinstance(e, ast.Name):
        parts.append(e.id)
        return ".".join(reversed(parts))
    return None


def call_name(call):
    """Last component of the callee's name, and its receiver expr (or None)."""
    f = call.func
    if isinstance(f, ast.Name):
        return f.id, None
    if isinstance(f, ast.Attribute):
        return f.attr, f.value
    return None, None


class Def(object):
    __slots__ = ("id", "var", "node", "value", "mode", "index")

    def __init__(self, id, var, node, value, mode, index=None):
        self.id = id
        self.var = var
        self.node = node
        self.value = value
        self.mode = mode
        self.index = index

    def __repr__(self):
        return "<def%d %s %s @%d>" % (self.id, self.var, self.mode,
                                       self.node.id)


def depth_ok(fl):
    return getattr(fl, "_bool_depth", 0) < 6


class Flow(object):
    def __init__(self, fn, pure_self_methods=(), pure_calls=(),
                 consts=None, inline_props=None, inline_methods=None):
        self.fn = fn
        self.consts = consts      # callable: dotted global name -> int/None
        # "self.attr" -> expression (pure properties of the class) and
        # method name -> (formals, expression) of pure expression-like
        # zero-argument helper methods: both are inlined by sym()
        self.inline_props = dict(inline_props or {})
        self.inline_methods = dict(inline_methods or {})
        pure_self_methods = tuple(pure_self_methods) + tuple(
            self.inline_methods)
        self.cfg = cfg_of(fn)
        self.pure_self = set(pure_self_methods)
        self.pure_calls = set(pure_calls) | PURE_FUNCS
        self.positive = set()    # atoms assumed >= 1 (set by the rule)
        self.defs = []
        self.node_defs = {}      # node id -> [Def]
        self.atom_loc = {}       # atom name -> set of location node ids
        self.atom_info = {}      # atom name -> structured description
        self._collect()
        self._solve()
        self._symcache = {}

    # -- definitions -----------------------------------------------------------
    def _add(self, var, node, value, mode, index=None):
        d = Def(len(self.defs), var, node, value, mode, index)
        self.defs.append(d)
        self.node_defs.setdefault(node.id, []).append(d)
        return d

    def _targets(self, target, node, value, mode):
        if isinstance(target, (ast.Tuple, ast.List)):
            for i, t in enumerate(target.elts):
                if isinstance(value, (ast.Tuple, ast.List)) and \
                        len(value.elts) == len(target.elts) and \
                        not any(isinstance(e, ast.Starred)
                                for e in value.elts + target.elts):
                    self._targets(t, node, value.elts[i], mode)
                else:
                    self._targets(t, node, value, "unpack" if mode != "iter"
                                  else "iterunpack")
                    # remember position
                    for d in self.node_defs.get(node.id, [])[::-1]:
                        if d.index is None and d.mode in ("unpack",
                                                          "iterunpack"):
                            d.index = i
                            break
            return
        if isinstance(target, ast.Starred):
            return self._targets(target.value, node, None, "opaque")
        c = chain(target)
        if c is not None:
            self._add(c, node, value, mode)
            return
        if isinstance(target, ast.Subscript):
            c = chain(target.value)
            if c is not None:
                self._add(c, node, None, "mut")
            elif isinstance(target.value, ast.Subscript):
                c2 = chain(target.value.value)
                if c2 is not None:
                    self._add(c2, node, None, "mut")
            return
        if isinstance(target, ast.Attribute):
            # attribute of a non-name expression: mutation of its root if any
            return

    def _scan_calls(self, root, node):
        for sub in _walk_no_scopes(root):
            if not isinstance(sub, ast.Call):
                continue
            name, recv = call_name(sub)
            if recv is not None and name in MUTATORS:
                c = chain(recv)
                if c is not None:
                    self._add(c, node, None, "mut")
                elif isinstance(recv, ast.Subscript):
                    c = chain(recv.value)
                    if c is not None:
                        self._add(c, node, None, "mut")
            if name in MUT_FUNCS and len(sub.args) > MUT_FUNCS[name]:
                c = chain(sub.args[MUT_FUNCS[name]])
                if c is not None:
                    self._add(c, node, None, "mut")
            # self.m(...) may change any self.* variable
            if recv is not None and isinstance(recv, ast.Name) and \
                    recv.id == "self" and name not in self.pure_self and \
                    name not in MUTATORS:
                self._add("self.*", node, None, "selfcall")
            if isinstance(sub.func, ast.NamedExpr):
                pass
        for sub in _walk_no_scopes(root):
            if isinstance(sub, ast.NamedExpr):
                self._targets(sub.target, node, sub.value, "assign")

    def _collect(self):
        fn = self.fn
        entry = self.cfg.entry
        a = fn.args
        for arg in a.posonlyargs + a.args + a.kwonlyargs:
            self._add(arg.arg, entry, None, "param")
        if a.vararg:
            self._add(a.vararg.arg, entry, None, "param")
        if a.kwarg:
            self._add(a.kwarg.arg, entry, None, "param")
        for n in self.cfg.nodes:
            s = n.ast
            if n.kind == "stmt":
                if isinstance(s, ast.Assign):
                    self._scan_calls(s.value, n)
                    for t in s.targets:
                        self._scan_calls(t, n)
                        self._targets(t, n, s.value, "assign")
                elif isinstance(s, ast.AnnAssign):
                    if s.value is not None:
                        self._scan_calls(s.value, n)
                        self._targets(s.target, n, s.value, "assign")
                elif isinstance(s, ast.AugAssign):
                    self._scan_calls(s.value, n)
                    c = chain(s.target)
                    if c is not None:
                        self._add(c, n, s, "aug")
                    else:
                        self._targets(s.target, n, None, "mut")
                elif isinstance(s, (ast.FunctionDef, ast.ClassDef,
                                    ast.AsyncFunctionDef)):
                    self._add(s.name, n, None, "def")
                elif isinstance(s, ast.Import):
                    for al in s.names:
                        self._add(al.asname or al.name.split(".")[0], n, None,
                                  "import")
                elif isinstance(s, ast.ImportFrom):
                    for al in s.names:
                        self._add(al.asname or al.name, n, None, "import")
                elif isinstance(s, ast.Delete):
                    for t in s.targets:
                        self._targets(t, n, None, "del"
                                      if chain(t) else "mut")
                else:
                    self._scan_calls(s, n)
            elif n.kind == "test":
                self._scan_calls(s, n)
            elif n.kind == "iter":
                self._targets(s.target, n, s.iter, "iter")
            elif n.kind == "with":
                for item in s.items:
                    self._scan_calls(item.context_expr, n)
                    if item.optional_vars is not None:
                        self._targets(item.optional_vars, n,
                                      item.context_expr, "with")
            elif n.kind == "handler":
                if s.name:
                    self._add(s.name, n, None, "except")

    # -- reaching definitions --------------------------------------------------
    def _kills(self, d, var):
        """Does definition d (of d.var) kill reaching defs of ``var``?"""
        if d.var == var:
            return True
        if d.var == "self.*":
            return var.startswith("self.")
        # defining x kills x.attr ; mutating x.attr does not kill x
        if var.startswith(d.var + "."):
            return True
        # mutating x.y is a mutation of x too (weak): handled by adding defs
        return False

    def _solve(self):
        nodes = self.cfg.nodes
        self.rd_in = {n.id: {} for n in nodes}
        self.rd_out = {n.id: {} for n in nodes}
        allvars = set(d.var for d in self.defs if d.var != "self.*")
        self.allvars = allvars
        # a mutation of "a.b" also re-defines (weakly) "a"?  No: facts about
        # ``a`` itself (identity) stay valid; facts about ``len(a.b)`` mention
        # a.b.  But a mutation of ``a`` must invalidate ``a.b``: _kills does.
        work = list(nodes)
        inwork = set(n.id for n in nodes)
        order = {n.id: i for i, n in enumerate(nodes)}
        while work:
            n = work.pop(0)
            inwork.discard(n.id)
            # merge preds
            merged = {}
            for p in n.pred:
                for v, s in self.rd_out[p.id].items():
                    if v in merged:
                        merged[v] = merged[v] | s
                    else:
                        merged[v] = s
            self.rd_in[n.id] = merged
            out = dict(merged)
            for d in self.node_defs.get(n.id, []):
                if d.var == "self.*":
                    for v in list(out):
                        if v.startswith("self."):
                            out[v] = frozenset([d.id])
                    for v in allvars:
                        if v.startswith("self."):
                            out[v] = frozenset([d.id])
                    continue
                for v in list(out):
                    if v != d.var and v.startswith(d.var + "."):
                        out[v] = frozenset([d.id])
                for v in allvars:
                    if v != d.var and v.startswith(d.var + "."):
                        out[v] = frozenset([d.id])
                out[d.var] = frozenset([d.id])
            if out != self.rd_out[n.id]:
                self.rd_out[n.id] = out
                for s in n.succ:
                    if s.id not in inwork:
                        inwork.add(s.id)
                        work.append(s)

    def reaching(self, var, node):
        """Reaching definitions of ``var`` on entry to ``node``.  For an
        attribute chain never assigned in the function, falls back on the
        definitions of its longest defined prefix (or the implicit entry
        definition)."""
        rd = self.rd_in[node.id]
        if var in rd:
            return [self.defs[i] for i in sorted(rd[var])]
        return []

    # -- atoms -----------------------------------------------------------------
    def _atom(self, name, locs, info=None):
        self.atom_loc.setdefault(name, set()).update(locs)
        if info is not None:
            self.atom_info[name] = info
        return Poly.atom(name)

    def _composite(self, name, parts, info):
        locs = set()
        for p in parts:
            if isinstance(p, Poly):
                for a in p.atoms():
                    locs |= self.atom_loc.get(a, set())
        return self._atom(name, locs, info)

    def _available(self, poly_or_atoms, d_node, u_node):
        """Can a value computed at d_node be used at u_node, i.e. is no atom
        of it re-established on a path d_node -> u_node (avoiding d_node)?"""
        atoms = poly_or_atoms.atoms() if isinstance(poly_or_atoms, Poly) \
            else poly_or_atoms
        if d_node is u_node:
            return True
        reach_from_d = None
        for a in atoms:
            for loc in self.atom_loc.get(a, ()):
                if loc == self.cfg.entry.id:
                    continue
                if loc == d_node.id:
                    continue
                if reach_from_d is None:
                    reach_from_d = self.cfg.reachable_from(d_node,
                                                           avoid=[d_node])
                if loc in reach_from_d:
                    locn = self.cfg.nodes[loc]
                    # (values are taken on entry to u_node: a definition made
                    # by u_node itself only matters if u_node can be reached
                    # again without re-establishing the fact)
                    if u_node.id in self.cfg.reachable_from(
                            locn, avoid=[d_node]):
                        return False
        return True

    # -- symbolic values ---------------------------------------------------------
    def sym_after(self, expr, node):
        """Value of ``expr`` in the state just after ``node`` has executed."""
        self._after = node.id
        try:
            return self.sym(expr, node)
        finally:
            self._after = None

    _after = None

    def symvar(self, var, node, depth=0):
        rd = self.rd_out[node.id] if self._after == node.id \
            else self.rd_in[node.id]
        saved = self._after
        self._after = None      # definitions' values are taken at their node
        try:
            return self._symvar(var, node, depth, rd)
        finally:
            self._after = saved

    def _symvar(self, var, node, depth, rd):
        if var not in rd:
            # never defined on any path here: a global / free name, or an
            # attribute chain read but not written: value fixed by its prefix
            prefix = var
            while "." in prefix:
                prefix = prefix.rsplit(".", 1)[0]
                if prefix in rd:
                    ids = sorted(rd[prefix])
                    ds = [self.defs[i] for i in ids]
                    if len(ds) == 1 and ds[0].mode == "param":
                        return self._atom(var, {self.cfg.entry.id})
                    name = "%s<%s>" % (var, "_".join(
                        "%s%d" % (self.defs[i].mode[0], self.defs[i].node.id)
                        for i in ids))
                    return self._atom(name,
                                      set(self.defs[i].node.id for i in ids))
            if self.consts is not None and var.split(".")[0] not in rd:
                c = self.consts(var)
                if isinstance(c, int) and not isinstance(c, bool):
                    return Poly.const(c)
            return self._atom(var, {self.cfg.entry.id})
        ids = sorted(rd[var])
        ds = [self.defs[i] for i in ids]
        if len(ds) == 1:
            d = ds[0]
            if d.mode == "param":
                return self._atom(var, {self.cfg.entry.id})
            if d.mode == "assign" and d.value is not None and depth < 40 and \
                    self.cfg.dominates(d.node, node):
                key = ("def", d.id)
                if key not in self._symcache:
                    self._symcache[key] = None   # recursion guard
                    self._symcache[key] = self.sym(d.value, d.node, depth + 1)
                val = self._symcache[key]
                if val is not None and self._available(val, d.node, node):
                    return val
            if d.mode == "aug" and depth < 40 and \
                    self.cfg.dominates(d.node, node):
                key = ("def", d.id)
                if key not in self._symcache:
                    self._symcache[key] = None
                    s = d.value
                    fake = ast.BinOp(left=s.target, op=s.op, right=s.value)
                    ast.copy_location(fake, s)
                    fake._parent = s
                    self._symcache[key] = self.sym(fake, d.node, depth + 1)
                val = self._symcache[key]
                if val is not None and self._available(val, d.node, node):
                    return val
            name = "%s@%d" % (var, d.node.id)
            return self._atom(name, {d.node.id}, ("def", d))
        # several definitions merge: a phi located at the highest dominator
        # of ``node`` that sees the same set of definitions
        m = self._phi_location(var, node, rd[var])
        name = "%s#%d" % (var, m.id)
        return self._atom(name, {m.id}, ("phi", var, m, ds))

    def _phi_location(self, var, node, defset):
        dom = self.cfg.dominators()[node.id]
        best = node
        for nid in dom:
            n = self.cfg.nodes[nid] if nid >= 0 else None
            if n is None:
                continue
            if self.rd_in[nid].get(var) == defset and \
                    self.cfg.dominates(n, best):
                # no def of var between n and node?  since the def set is the
                # same and n dominates node, check that no def of var lies on
                # a path n -> node avoiding n... approximated by the def-set
                # equality plus: var not defined at n itself
                if not any(d.var == var or var.startswith(d.var + ".")
                           for d in self.node_defs.get(nid, [])):
                    if not self._def_between(var, n, node):
                        best = n
        return best

    def _def_between(self, var, a, b):
        if a is b:
            return False
        reach = self.cfg.reachable_from(a, avoid=[a])
        for d in self.defs:
            if not self._kills(d, var):
                continue
            if d.node.id in reach:
                # (for d.node is b this asks for a cycle through b that
                # avoids a: the value at b then differs between iterations)
                if b.id in self.cfg.reachable_from(d.node, avoid=[a]):
                    return True
        return False

    def sym(self, expr, node, depth=0):
        """Polynomial normal form of ``expr`` evaluated on entry to ``node``
        (for the statement's own right-hand side that is what is wanted)."""
        P = Poly
        e = expr
        if isinstance(e, ast.Call) and self.inline_methods and depth < 25:
            nm, rc = call_name(e)
            if rc is not None and chain(rc) == "self" and \
                    nm in self.inline_methods and not e.keywords and \
                    not e.args and not self.inline_methods[nm][0]:
                return self.sym(self.inline_methods[nm][1], node, depth + 1)
        if isinstance(e, ast.Attribute) and self.inline_props and \
                depth < 25:
            c0 = chain(e)
            if c0 in self.inline_props and \
                    type(self).__name__ == "Flow":
                return self.sym(self.inline_props[c0], node, depth + 1)
        if isinstance(e, ast.Constant):
            v = e.value
            if isinstance(v, bool):
                return P.const(int(v))
            if isinstance(v, int):
                return P.const(v)
            if isinstance(v, float) and v == int(v):
                return P.const(int(v))
            return self._atom("const:%r" % (v,), {self.cfg.entry.id},
                              ("const", v))
        c = chain(e)
        if c is not None:
            return self.symvar(c, node, depth)
        if isinstance(e, ast.BinOp):
            l = self.sym(e.left, node, depth + 1)
            r = self.sym(e.right, node, depth + 1)
            op = e.op
            if isinstance(op, ast.Add):
                return l + r
            if isinstance(op, ast.Sub):
                return l - r
            if isinstance(op, ast.Mult):
                return l * r
            if isinstance(op, ast.LShift) and r.is_const() and \
                    r.const_value() >= 0:
                return l * (2 ** int(r.const_value()))
            if isinstance(op, ast.RShift) and r.is_const() and \
                    r.const_value() >= 0:
                return self.fdiv(l, P.const(2 ** int(r.const_value())))
            if isinstance(op, ast.LShift) and not r.is_const():
                # x << e  ==  x * 2**e : one canonical power-of-two atom
                return l * self._pow2(r)
            if isinstance(op, ast.Pow) and l == P.const(2) and \
                    not r.is_const():
                return self._pow2(r)
            if isinstance(op, ast.FloorDiv):
                return self.fdiv(l, r)
            if isinstance(op, ast.Mod):
                return self.mod(l, r)
            if isinstance(op, ast.Pow) and r.is_const() and \
                    r.const_value().denominator == 1 and \
                    0 <= r.const_value() <= 64:
                out = P.const(1)
                for _ in range(int(r.const_value())):
                    out = out * l
                return out
            if isinstance(op, ast.Div) and r.is_const() and \
                    r.const_value() != 0:
                return l * (1 / r.const_value())
            opn = type(op).__name__
            if l.is_const() and r.is_const() and \
                    l.const_value().denominator == 1 and \
                    r.const_value().denominator == 1:
                a, b = int(l.const_value()), int(r.const_value())
                if opn == "BitAnd":
                    return P.const(a & b)
                if opn == "BitOr":
                    return P.const(a | b)
                if opn == "BitXor":
                    return P.const(a ^ b)
            if opn == "BitAnd":
                # x & ~(2^k - 1)  ==  2^k * (x // 2^k)  for every int x
                for a_, b_ in ((l, r), (r, l)):
                    if b_.is_const() and b_.const_value() < 0 and \
                            b_.const_value().denominator == 1:
                        m = -int(b_.const_value())
                        if m & (m - 1) == 0:
                            return self.fdiv(a_, P.const(m)) * m
            if opn == "BitAnd":
                # x & (2^k - 1)  ==  x % 2^k  for every int x
                for a_, b_ in ((l, r), (r, l)):
                    if b_.is_const() and b_.const_value() > 0 and \
                            b_.const_value().denominator == 1:
                        m = int(b_.const_value()) + 1
                        if m & (m - 1) == 0:
                            return self.mod(a_, P.const(m))
            if opn in ("BitOr", "BitXor"):
                # a | b == a ^ b == a + b when 0 <= a < 2^k and every term
                # of b is a multiple of 2^k (no bit in common)
                for a_, b_ in ((l, r), (r, l)):
                    rng = self._small_range(a_)
                    if rng is None or not b_.t:
                        continue
                    k2 = 1
                    while k2 < rng:
                        k2 *= 2
                    if all(c.denominator == 1 and int(c) % k2 == 0
                           for c in b_.t.values()):
                        return a_ + b_
            if opn in ("BitAnd", "BitOr", "BitXor"):
                args = sorted([l, r], key=repr)
                name = "%s(%r, %r)" % (opn.lower(), args[0], args[1])
                return self._composite(name, args, (opn, args[0], args[1]))
            name = "%s(%r, %r)" % (opn.lower(), l, r)
            return self._composite(name, [l, r], (opn, l, r))
        if isinstance(e, ast.UnaryOp):
            v = self.sym(e.operand, node, depth + 1)
            if isinstance(e.op, ast.USub):
                return -v
            if isinstance(e.op, ast.UAdd):
                return v
            if isinstance(e.op, ast.Invert):
                return -v - 1
            name = "not(%r)" % (v,)
            return self._composite(name, [v], ("Not", v))
        if isinstance(e, ast.Call):
            return self._symcall(e, node, depth)
        if isinstance(e, ast.Subscript):
            base = self.sym(e.value, node, depth + 1)
            sl = e.slice
            if isinstance(sl, ast.Slice):
                lo = self.sym(sl.lower, node, depth + 1) if sl.lower \
                    is not None else None
                hi = self.sym(sl.upper, node, depth + 1) if sl.upper \
                    is not None else None
                st = self.sym(sl.step, node, depth + 1) if sl.step \
                    is not None else None
                name = "slice(%r, %r, %r%s)" % (
                    base, lo, hi, "" if st is None else ", %r" % (st,))
                return self._composite(name, [base, lo, hi, st],
                                       ("slice", base, lo, hi, st))
            idx = self.sym(sl, node, depth + 1)
            name = "sub(%r, %r)" % (base, idx)
            return self._composite(name, [base, idx], ("sub", base, idx))
        if isinstance(e, ast.Attribute):
            base = self.sym(e.value, node, depth + 1)
            name = "attr(%r).%s" % (base, e.attr)
            return self._composite(name, [base], ("attr", base, e.attr))
        if isinstance(e, ast.IfExp):
            a = self.sym(e.body, node, depth + 1)
            b = self.sym(e.orelse, node, depth + 1)
            if a == b:
                return a
            cname = self._condname(e.test, node, depth)
            name = "ite(%s, %r, %r)" % (cname, a, b)
            parts = [a, b] + self._cond_polys(e.test, node, depth)
            return self._composite(name, parts, ("ite", e.test, node, a, b))
        if isinstance(e, (ast.Tuple, ast.List)):
            parts = [self.sym(x, node, depth + 1) for x in e.elts]
            name = "tuple(%s)" % ", ".join(repr(p) for p in parts)
            return self._composite(name, parts, ("tuple", parts))
        if isinstance(e, ast.BoolOp) and isinstance(e.op, ast.Or) and \
                len(e.values) == 2 and isinstance(e.values[1], ast.Constant) \
                and isinstance(e.values[1].value, int):
            # "x or 1": x when truthy, else the constant - an opaque numeric
            # term (the rule states what it knows about it)
            a = self.sym(e.values[0], node, depth + 1)
            nm = "or(%r, %r)" % (a, e.values[1].value)
            return self._composite(nm, [a], ("or", a, e.values[1].value))
        if isinstance(e, (ast.Compare, ast.BoolOp)):
            cname = self._condname(e, node, depth)
            return self._composite("cond(%s)" % cname,
                                   self._cond_polys(e, node, depth),
                                   ("cond", e, node))
        # anything else: opaque, unique to this AST node
        name = "opaque:%s@%d" % (type(e).__name__, node.id)
        return self._atom("%s:%s" % (name, unparse(e)[:40]), {node.id},
                          ("opaque", e))

    def _cond_polys(self, test, node, depth):
        out = []
        for sub in ast.walk(test):
            c = chain(sub)
            if c is not None and isinstance(sub, (ast.Name, ast.Attribute)):
                par = getattr(sub, "_parent", None)
                if isinstance(par, ast.Attribute):
                    continue
                out.append(self.symvar(c, node, depth + 1))
        return out

    def _condname(self, test, node, depth):
        """Canonical text of a condition with variables replaced by their
        symbolic values."""
        if isinstance(test, ast.Compare) and len(test.ops) == 1:
            l = self.sym(test.left, node, depth + 1)
            r = self.sym(test.comparators[0], node, depth + 1)
            return "%r %s %r" % (l, type(test.ops[0]).__name__, r)
        if isinstance(test, ast.BoolOp):
            return (" %s " % type(test.op).__name__).join(
                "(%s)" % self._condname(v, node, depth) for v in test.values)
        if isinstance(test, ast.UnaryOp) and isinstance(test.op, ast.Not):
            return "not (%s)" % self._condname(test.operand, node, depth)
        return repr(self.sym(test, node, depth + 1))

    def _symcall(self, e, node, depth):
        P = Poly
        name, recv = call_name(e)
        args = [self.sym(a, node, depth + 1) for a in e.args
                if not isinstance(a, ast.Starred)]
        if recv is None and name in ("min", "max") and not e.keywords:
            polys = args
            if len(e.args) == 1 and isinstance(e.args[0], (ast.Tuple,
                                                           ast.List)):
                polys = [self.sym(x, node, depth + 1)
                         for x in e.args[0].elts]
            if len(polys) >= 2:
                return self.minmax(name, polys)
        if recv is None and name == "len" and len(args) == 1:
            a = args[0]
            info = None
            for at in a.atoms():
                info = self.atom_info.get(at)
            if a.is_linear() and len(a.t) == 1 and info and \
                    info[0] == "slice":
                pass
            nm = "len(%r)" % (a,)
            return self._composite(nm, [a], ("len", a))
        if recv is None and name == "int" and len(args) == 1 and \
                not e.keywords:
            a0 = args[0]
            # truncation toward zero is odd: int(-v) == -int(v); keep the
            # form whose leading coefficient is positive
            if a0.t and all(c < 0 for c in a0.t.values()):
                pos = a0 * -1
                nm = "int(%r)" % (pos,)
                return self._composite(nm, [pos], ("int", pos)) * -1
            nm = "int(%r)" % (a0,)
            return self._composite(nm, args, ("int", a0))
        if recv is None and name == "abs" and len(args) == 1:
            nm = "abs(%r)" % (args[0],)
            return self._composite(nm, args, ("abs", args[0]))
        full = unparse(e.func)
        kw = []
        for k in e.keywords:
            if k.arg is not None:
                kw.append((k.arg, self.sym(k.value, node, depth + 1)))
        is_pure = (name in self.pure_calls or full in self.pure_calls) and \
            not any(isinstance(a, ast.Starred) for a in e.args)
        if recv is not None and isinstance(recv, ast.Name) and \
                recv.id == "self":
            is_pure = name in self.pure_self
        if is_pure:
            rp = [] if recv is None or (isinstance(recv, ast.Name) and
                                        recv.id in ("struct", "math", "six"))\
                else [self.sym(recv, node, depth + 1)]
            nm = "%s(%s)" % (
                name if not rp else "%r.%s" % (rp[0], name),
                ", ".join([repr(a) for a in args] +
                          ["%s=%r" % kv for kv in kw]))
            return self._composite(nm, args + rp + [v for _, v in kw],
                                   ("call", name, args, kw))
        nm = "call:%s@%d.%d" % (full, node.id, getattr(e, "col_offset", 0))
        return self._atom(nm, {node.id}, ("impure", e))

    def _pow2(self, e):
        name = "pow2(%r)" % (e,)
        return self._composite(name, [e], ("pow2", e))

    def fdiv(self, l, r):
        P = Poly
        if r.is_const() and r.const_value() != 0:
            d = r.const_value()
            if l.is_const():
                return P.const(l.const_value() // d)
            # exact when every coefficient is a multiple of d and the atoms
            # are integers (they are: all atoms denote Python ints here)
            if d > 0 and all((c / d).denominator == 1
                             for c in l.t.values()):
                return l * (1 / d)
            # split off the exactly divisible part:  (d*k + rest) // d
            #   = k + rest // d
            exact = P({m: c for m, c in l.t.items()
                       if (c / d).denominator == 1 and m != ()})
            rest = l - exact
            if exact.t and d > 0:
                return exact * (1 / d) + self.fdiv(rest, r)
        name = "fdiv(%r, %r)" % (l, r)
        return self._composite(name, [l, r], ("fdiv", l, r))

    def _small_range(self, p):
        """n when ``p`` is known to lie in 0 .. n-1: a constant, or a
        remainder by a positive constant; else None."""
        if p.is_const():
            v = p.const_value()
            return int(v) + 1 if v.denominator == 1 and v >= 0 else None
        if len(p.t) == 1:
            (m, c), = p.t.items()
            if c == 1 and len(m) == 1:
                info = self.atom_info.get(m[0])
                if info and info[0] == "mod" and info[2].is_const() and \
                        info[2].const_value() > 0 and \
                        info[2].const_value().denominator == 1:
                    return int(info[2].const_value())
        return None

    def mod(self, l, r):
        P = Poly
        if r.is_const() and r.const_value() > 0:
            d = r.const_value()
            if l.is_const():
                return P.const(l.const_value() % d)
            exact = P({m: c for m, c in l.t.items()
                       if (c / d).denominator == 1 and m != ()})
            if exact.t:
                return self.mod(l - exact, r)
            if not l.monomials():
                return P.const(l.const_value() % d)
            # (e % d) % d == e % d
            if len(l.t) == 1:
                (m, c), = l.t.items()
                if c == 1 and len(m) == 1:
                    info = self.atom_info.get(m[0])
                    if info and info[0] == "mod" and info[2] == r:
                        return l
                    # (x & c) % d == x & c  when 0 <= c < d
                    if info and info[0] == "BitAnd":
                        for cc in (info[1], info[2]):
                            if cc.is_const() and 0 <= cc.const_value() < d:
                                return l
        name = "mod(%r, %r)" % (l, r)
        return self._composite(name, [l, r], ("mod", l, r))

    def minmax(self, which, polys):
        P = Poly
        # flatten nested min/min, drop duplicates, fold constants
        flat = []
        for p in polys:
            info = None
            if len(p.t) == 1 and list(p.t.values())[0] == 1 and \
                    len(list(p.t)[0]) == 1:
                info = self.atom_info.get(list(p.t)[0][0])
            if info and info[0] == which:
                flat.extend(info[1])
            else:
                flat.append(p)
        consts = [p for p in flat if p.is_const()]
        others = []
        for p in flat:
            if not p.is_const() and p not in others:
                others.append(p)
        if consts:
            f = min if which == "min" else max
            others.append(P.const(f(c.const_value() for c in consts)))
        if len(others) == 1:
            return others[0]
        others.sort(key=repr)
        name = "%s(%s)" % (which, ", ".join(repr(p) for p in others))
        return self._composite(name, others, (which, others))

    # -- facts ---------------------------------------------------------------------
    def fact_valid(self, a, node, origin=None):
        """Is what the assume node ``a`` established still true on entry to
        ``node`` (nothing its condition mentions is re-defined on a path
        from ``a`` to ``node``)?  ``origin``: the node the fact is known at
        when that is not ``a`` itself (the join behind a test with several
        operands)."""
        if origin is not None:
            return self._fact_valid_from(a, node, origin)
        atoms = set()
        for p in self._cond_polys(a.ast, a, 0):
            atoms |= p.atoms()
        # composite operands (len(x), x[i] ...) depend on the same atoms
        for sub in ast.walk(a.ast):
            if isinstance(sub, (ast.Call, ast.Subscript)):
                try:
                    atoms |= self.sym(sub, a).atoms()
                except AnalysisError:
                    pass
        if not self._available(atoms, a, node):
            return False
        # a container the condition mentions is mutated in place (x.remove(),
        # x[k] = v, ...) on a path from the test to ``node`` that does not
        # pass the test again: what was established about it is gone
        names = set(chain(x) for x in ast.walk(a.ast)
                    if isinstance(x, (ast.Name, ast.Attribute)) and
                    isinstance(getattr(x, "ctx", None), ast.Load))
        names.discard(None)
        after_a = None
        for d in self.defs:
            if d.mode != "mut" or d.node is a or not any(
                    d.var == v or v.startswith(d.var + ".") for v in names):
                continue
            if after_a is None:
                after_a = self.cfg.reachable_from(a, avoid=[a])
            if d.node.id in after_a and (
                    d.node is not node and node.id in self.cfg.reachable_from(
                        d.node, avoid=[a])):
                return False
        return True

    def _fact_valid_from(self, a, node, origin):
        atoms = set()
        for p in self._cond_polys(a.ast, a, 0):
            atoms |= p.atoms()
        for sub in ast.walk(a.ast):
            if isinstance(sub, (ast.Call, ast.Subscript)):
                try:
                    atoms |= self.sym(sub, a).atoms()
                except AnalysisError:
                    pass
        if not self._available(atoms, origin, node):
            return False
        names = set(chain(x) for x in ast.walk(a.ast)
                    if isinstance(x, (ast.Name, ast.Attribute)) and
                    isinstance(getattr(x, "ctx", None), ast.Load))
        names.discard(None)
        after = self.cfg.reachable_from(origin, avoid=[origin])
        for d in self.defs:
            if d.mode != "mut" or not any(
                    d.var == v or v.startswith(d.var + ".") for v in names):
                continue
            if d.node.id in after and d.node is not node and \
                    node.id in self.cfg.reachable_from(d.node,
                                                       avoid=[origin]):
                return False
        return True

    def facts(self, node):
        """[(cond expr, polarity, assume node)] for every assume node that
        dominates ``node`` and is still valid there."""
        out = []
        dom = self.cfg.dominators()[node.id]
        for nid in sorted(dom):
            a = self.cfg.nodes[nid]
            if a.kind != "assume" or a is node:
                continue
            if self.fact_valid(a, node):
                out.append((a.ast, a.polarity, a))
        return out

    def constraints(self, node, integer=True):
        """Linear constraints implied by the dominating facts at ``node``
        (only comparison facts between arithmetic expressions translate)."""
        cons = []
        for cond, pol, a in self.facts(node):
            cons += self.cond_constraints(cond, pol, a)
        return cons

    def cond_constraints(self, cond, polarity, at):
        """Translate ``cond == polarity`` evaluated at node ``at``."""
        if isinstance(cond, ast.Compare):
            # a chain  a < b <= c  is a conjunction
            items = []
            left = cond.left
            for op, right in zip(cond.ops, cond.comparators):
                items.append((left, op, right))
                left = right
            if polarity:
                out = []
                for l, op, r in items:
                    out += self._cmp(l, op, r, True, at)
                return out
            if len(items) == 1:
                l, op, r = items[0]
                return self._cmp(l, op, r, False, at)
            return []
        if isinstance(cond, ast.UnaryOp) and isinstance(cond.op, ast.Not):
            return self.cond_constraints(cond.operand, not polarity, at)
        if isinstance(cond, ast.BoolOp):
            if isinstance(cond.op, ast.And) and polarity:
                out = []
                for v in cond.values:
                    out += self.cond_constraints(v, True, at)
                return out
            if isinstance(cond.op, ast.Or) and not polarity:
                out = []
                for v in cond.values:
                    out += self.cond_constraints(v, False, at)
                return out
            return []
        if (isinstance(cond, ast.Call) and isinstance(cond.func, ast.Name)
                and cond.func.id == "len" and len(cond.args) == 1 and
                not cond.keywords) or (
                isinstance(cond, ast.BinOp) and isinstance(
                    cond.op, (ast.Mod, ast.BitAnd, ast.Sub, ast.FloorDiv,
                              ast.RShift))):
            # the truth value of a number:  ``if len(x):``  is  len(x) != 0
            zero = ast.Constant(value=0)
            ast.copy_location(zero, cond)
            return self._cmp(cond, ast.NotEq(), zero, polarity, at)
        if isinstance(cond, ast.Name) and depth_ok(self):
            # a boolean kept in a variable: ``ok = a < b and c; if ok:``
            # reads like the test itself while nothing it mentions changes
            try:
                ds = self.reaching(cond.id, at)
            except AnalysisError:
                ds = []
            if len(ds) == 1 and ds[0].mode == "assign" and isinstance(
                    ds[0].value, (ast.Compare, ast.BoolOp, ast.UnaryOp,
                                  ast.Name)) and ds[0].node is not at:
                names = set(x.id for x in ast.walk(ds[0].value)
                            if isinstance(x, ast.Name))
                stable = True
                for nm in names:
                    try:
                        here = set(id(d) for d in self.reaching(nm, at))
                        there = set(id(d) for d in self.reaching(
                            nm, ds[0].node))
                    except AnalysisError:
                        stable = False
                        break
                    if here != there and nm != cond.id:
                        stable = False
                    if nm == cond.id:
                        # ok = ok and ...: the previous value, as it was
                        # where this one was computed
                        pass
                if stable:
                    self._bool_depth = getattr(self, "_bool_depth", 0) + 1
                    try:
                        return self.cond_constraints(ds[0].value, polarity,
                                                     ds[0].node)
                    finally:
                        self._bool_depth -= 1
        return []

    def _cmp(self, l, op, r, polarity, at):
        opn = type(op).__name__
        if opn not in ("Lt", "LtE", "Gt", "GtE", "Eq", "NotEq"):
            return []
        if not polarity:
            opn = {"Lt": "GtE", "LtE": "Gt", "Gt": "LtE", "GtE": "Lt",
                   "Eq": "NotEq", "NotEq": "Eq"}[opn]
        if any(isinstance(x, ast.Constant) and
               not isinstance(x.value, (int, float)) for x in (l, r)):
            return []
        a = self.sym(l, at)
        b = self.sym(r, at)
        why = "%s %s %s" % (unparse(l), opn, unparse(r))
        if opn == "Lt":
            return [lt(a, b, why)]
        if opn == "LtE":
            return [le(a, b, why)]
        if opn == "Gt":
            return [lt(b, a, why)]
        if opn == "GtE":
            return [le(b, a, why)]
        if opn == "Eq":
            return [le(a, b, why), le(b, a, why)]
        # a != b : usable when one side has an obvious bound equal to the
        # other side (len(..) != 0  =>  len(..) >= 1)
        for u, v in ((a, b), (b, a)):
            if v.is_const() and len(u.t) == 1:
                (m, c), = u.t.items()
                if c == 1 and len(m) == 1:
                    info = self.atom_info.get(m[0])
                    if info and info[0] == "len" and v.const_value() == 0:
                        return [lt(v, u, why)]
                    # a remainder by a positive constant is >= 0 as well
                    if info and info[0] == "mod" and \
                            v.const_value() == 0 and info[2].is_const() and \
                            info[2].const_value() > 0:
                        return [lt(v, u, why)]
        return []

    # -- axioms for composite atoms ------------------------------------------------
    def axioms(self, polys, nonneg=(), limit=24):
        """Linear axioms about the composite atoms occurring in ``polys`` and
        a list of case splits.  Returns (axioms, splits) where splits is a
        list of alternatives-lists: each alternative is a list of Cons; the
        disjunction of the alternatives of one split always holds."""
        P = Poly
        seen = set()
        todo = set()
        for p in polys:
            todo |= p.atoms()
        ax = []
        splits = []
        while todo:
            a = min(todo, key=lambda z: (z is None, str(z)))   # deterministic
            todo.discard(a)
            if a in seen:
                continue
            seen.add(a)
            info = self.atom_info.get(a)
            A = P.atom(a)
            if a in nonneg:
                ax.append(le(0, A, "%s >= 0" % a))
            if not info:
                continue
            kind = info[0]
            if kind == "len":
                ax.append(le(0, A, "len >= 0"))
                todo |= info[1].atoms()
                # len of a slice
                inner = info[1]
                if len(inner.t) == 1:
                    (m, c), = inner.t.items()
                    if c == 1 and len(m) == 1:
                        ii = self.atom_info.get(m[0])
                        if ii and ii[0] == "slice":
                            self._slice_len_axioms(A, ii, ax, splits)
                            for q in ii[1:]:
                                if isinstance(q, Poly):
                                    todo |= q.atoms()
            elif kind == "fdiv":
                l, r = info[1], info[2]
                todo |= l.atoms() | r.atoms()
                if r.is_const() and r.const_value() > 0:
                    d = r.const_value()
                    ax.append(le(A * d, l, "d*(e//d) <= e"))
                    ax.append(le(l, A * d + (d - 1), "e <= d*(e//d)+d-1"))
                elif r.atoms() and all(x in self.positive
                                       for x in r.atoms()) and \
                        r.is_linear() and len(r.t) == 1:
                    # symbolic divisor assumed >= 1: d*q <= e <= d*q + d - 1
                    # (the product d*q is an opaque monomial for FM)
                    ax.append(le(A * r, l, "d*(e//d) <= e"))
                    ax.append(le(l, A * r + r - 1, "e <= d*(e//d)+d-1"))
                    ax.append(le(1, r, "assumed divisor >= 1"))
            elif kind == "mod":
                l, r = info[1], info[2]
                todo |= l.atoms() | r.atoms()
                if r.is_const() and r.const_value() > 0:
                    d = r.const_value()
                    ax.append(le(0, A, "0 <= e%d"))
                    ax.append(le(A, d - 1, "e%d <= d-1"))
                    q = self.fdiv(l, r)
                    ax += [le(l, q * d + A, "e = d*(e//d) + e%d"),
                           le(q * d + A, l, "e = d*(e//d) + e%d")]
                    todo |= q.atoms()
                elif r.atoms() and all(x in self.positive
                                       for x in r.atoms()) and \
                        r.is_linear() and len(r.t) == 1:
                    # symbolic divisor assumed >= 1
                    ax.append(le(0, A, "0 <= e%d"))
                    ax.append(le(A, r - 1, "e%d <= d-1"))
                    q = self.fdiv(l, r)
                    ax += [le(l, q * r + A, "e = d*(e//d) + e%d"),
                           le(q * r + A, l, "e = d*(e//d) + e%d")]
                    ax.append(le(1, r, "assumed divisor >= 1"))
                    todo |= q.atoms()
            elif kind in ("min", "max"):
                ps = info[1]
                for p in ps:
                    todo |= p.atoms()
                    if kind == "min":
                        ax.append(le(A, p, "min <= each"))
                    else:
                        ax.append(le(p, A, "max >= each"))
                if len(splits) < limit:
                    alts = []
                    for p in ps:
                        alts.append([le(A, p), le(p, A)])
                    splits.append(alts)
            elif kind == "BitAnd":
                l, r = info[1], info[2]
                todo |= l.atoms() | r.atoms()
                for c in (l, r):
                    if c.is_const() and c.const_value() >= 0:
                        ax.append(le(0, A, "x&c >= 0"))
                        ax.append(le(A, c, "x&c <= c"))
            elif kind == "ite":
                _, test, node, x, y = info
                todo |= x.atoms() | y.atoms()
                if len(splits) < limit:
                    splits.append([
                        [le(A, x), le(x, A)] +
                        self.cond_constraints(test, True, node),
                        [le(A, y), le(y, A)] +
                        self.cond_constraints(test, False, node)])
            elif kind == "abs":
                x = info[1]
                todo |= x.atoms()
                ax += [le(x, A), le(-x, A)]
            elif kind in ("slice", "sub", "tuple", "attr", "call"):
                for q in info[1:]:
                    if isinstance(q, Poly):
                        todo |= q.atoms()
                    elif isinstance(q, list):
                        for z in q:
                            if isinstance(z, Poly):
                                todo |= z.atoms()
        return ax, splits

    def _slice_len_axioms(self, A, info, ax, splits):
        """len(s[lo:hi]) under Python slice semantics (step 1)."""
        _, base, lo, hi, st = info
        if st is not None:
            return
        L = self._composite("len(%r)" % (base,), [base], ("len", base))
        ax.append(le(0, L))
        ax.append(le(A, L, "len(slice) <= len"))
        if lo is None and hi is not None:
            # s[:n] : n >= 0 -> min(n, len) ; n < 0 -> max(0, len + n)
            splits.append([
                [le(0, hi), le(A, hi), le(A, L),
                 ],  # refined below by two sub-cases
                [lt(hi, 0), le(L + hi, A), le(0, A)],
            ])
            splits.append([
                [lt(hi, 0)],
                [le(0, hi), le(hi, L), le(A, hi), le(hi, A)],
                [le(0, hi), lt(L, hi), le(A, L), le(L, A)],
            ])
            splits.append([
                [le(0, hi)],
                [lt(hi, 0), le(L + hi, 0), le(A, 0)],
                [lt(hi, 0), lt(0, L + hi), le(A, L + hi), le(L + hi, A)],
            ])
        elif lo is not None and hi is not None:
            # s[a:b], a, b >= 0:  len = max(0, min(b, L) - min(a, L))
            splits.append([
                [lt(lo, 0)], [lt(hi, 0)],
                [le(0, lo), le(0, hi), le(hi, L), le(lo, hi),
                 le(A, hi - lo), le(hi - lo, A)],
                [le(0, lo), le(0, hi), le(hi, L), lt(hi, lo), le(A, 0)],
                [le(0, lo), le(0, hi), lt(L, hi), le(lo, L),
                 le(A, L - lo), le(L - lo, A)],
                [le(0, lo), le(0, hi), lt(L, hi), lt(L, lo), le(A, 0)],
            ])
        elif lo is not None and hi is None:
            # s[a:], a >= 0: len = max(0, L - a)
            splits.append([
                [lt(lo, 0)],
                [le(0, lo), le(lo, L), le(A, L - lo), le(L - lo, A)],
                [le(0, lo), lt(L, lo), le(A, 0)],
            ])

    # -- proving --------------------------------------------------------------------
    def demod(self, p):
        """``p`` with every remainder by a positive constant written through
        the quotient: e % d == e - d * (e // d)."""
        m = {}
        for a in p.atoms():
            info = self.atom_info.get(a)
            if info and info[0] == "mod" and info[2].is_const() and \
                    info[2].const_value() > 0:
                m[a] = info[1] - self.fdiv(info[1], info[2]) * \
                    info[2].const_value()
        return p.subst(m) if m else p

    def prove(self, node, goals, extra=(), nonneg=(), integer=True,
              use_facts=True):
        """Do the facts dominating ``node`` (plus ``extra`` constraints) entail
        every goal?  Goals/extra are Cons over sym() polynomials.  Case splits
        from min/max/ite/slice atoms are explored (bounded)."""
        from .poly import entails, feasible
        prem = list(extra)
        if use_facts:
            prem += self.constraints(node, integer)
        goals = list(goals) if isinstance(goals, (list, tuple)) else [goals]
        polys = [c.p for c in prem] + [g.p for g in goals]
        # iterate axioms to a fixpoint over atoms introduced by the axioms
        ax, splits = self.axioms(polys, nonneg)
        ax2, splits2 = self.axioms([c.p for c in ax] +
                                   [c.p for alts in splits for alt in alts
                                    for c in alt], nonneg)
        for c in ax2:
            ax.append(c)
        for s in splits2:
            if s not in splits:
                splits.append(s)
        prem += ax
        splits = order_splits(prem, splits, goals)

        def rec(i, acc):
            if not feasible(acc, integer):
                return True    # this case cannot occur
            if entails(acc, goals, integer):
                return True
            if i == len(splits) or i >= 12:
                return False
            for alt in splits[i]:
                if not rec(i + 1, acc + alt):
                    return False
            return True
        return rec(0, prem)


def order_splits(prem, splits, goals):
    """Order case splits by their distance from the goal's atoms in the graph
    'atoms occurring in one constraint / one split' (the closest first), so
    that the bounded case analysis spends its depth on the relevant ones."""
    if len(splits) < 2:
        return splits
    groups = [set(c.p.atoms()) for c in prem]
    satoms = []
    for sp in splits:
        acc = set()
        for alt in sp:
            for c in alt:
                acc |= set(c.p.atoms())
        satoms.append(acc)
    reach = set()
    for g in goals:
        reach |= set(g.p.atoms())
    order = []
    left = list(range(len(splits)))
    for _ in range(len(prem) + len(splits) + 2):
        hit = [i for i in left if satoms[i] & reach]
        for i in hit:
            order.append(i)
            left.remove(i)
        new = set(reach)
        for i in hit:
            new |= satoms[i]
        for g in groups:
            if g & reach:
                new |= g
        if new == reach and not hit:
            break
        reach = new
        if not left:
            break
    order += left
    return [splits[i] for i in order]


def _walk_no_scopes(root):
    """ast.walk that does not descend into nested function/class bodies or
    lambdas (their effects happen when called, not here)."""
    stack = [root]
    while stack:
        n = stack.pop()
        yield n
        for c in ast.iter_child_nodes(n):
            if isinstance(c, (ast.FunctionDef, ast.AsyncFunctionDef,
                              ast.ClassDef, ast.Lambda)):
                continue
            stack.append(c)


_flows = {}


def flow_of(fn, **kw):
    key = (id(fn), tuple(sorted((k, tuple(sorted(v))) for k, v in kw.items())))
    f = _flows.get(key)
    if f is None or f.fn is not fn:
        f = Flow(fn, **kw)
        _flows[key] = f
    return f
