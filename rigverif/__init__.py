"""rigverif: static analysis of mundya/rig (no rig module is ever imported)."""
