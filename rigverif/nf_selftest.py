"""Self-test of the source normal forms (core._normalise): each example is
parsed, normalised and unparsed, and must read as the expected text.  Run by
``vcheck --selfcheck-fast`` (MANIFEST setup_cmd) - a normal form that stops
applying would silently turn refactorings into alarms."""
import ast

from . import core

CASES = [
    # (name, source, expected after normalisation)
    ("walrus in an if test",
     "def f(self, b):\n    if (n := len(b)) > self.limit:\n        warn(n)\n",
     "def f(self, b):\n    n = len(b)\n    if n > self.limit:\n        warn(n)"),
    ("walrus under and stays",
     "def f(a):\n    if a and (m := g()):\n        pass\n",
     "def f(a):\n    if a and (m := g()):\n        pass"),
    ("dict display with unpacking",
     "def f(a, b, g):\n    g(1, {**dict(a), **b})\n",
     "def f(a, b, g):\n    __dict1 = dict(a)\n    __dict1.update(b)\n    g(1, __dict1)"),
    ("parallel assignment",
     "def f(o, l, s):\n    o.length, o.start = l, s\n    a, b = b, a\n",
     "def f(o, l, s):\n    o.length = l\n    o.start = s\n    a, b = (b, a)"),
    ("struct objects and bound methods",
     "import struct\nS = struct.Struct('<I')\ndef f(d):\n    u = struct.Struct('<H').unpack_from\n    return u(d, 0), S.unpack_from(d, 4), S.size\n",
     "import struct\nS = struct.Struct('<I')\n\ndef f(d):\n    u = struct.Struct('<H').unpack_from\n    return (struct.unpack_from('<H', d, 0), struct.unpack_from('<I', d, 4), struct.calcsize('<I'))"),
    ("bound-method alias",
     "def f(t, xs):\n    add = t.add_core\n    for x in xs:\n        add(x)\n",
     "def f(t, xs):\n    for x in xs:\n        t.add_core(x)"),
    ("slice object",
     "def f(buf, data):\n    area = slice(A, A + N)\n    buf[area] = data\n",
     "def f(buf, data):\n    buf[A:A + N] = data"),
    ("local numeric constants",
     "def f(w, e):\n    bits = 3\n    mask = (1 << bits) - 1\n    return (w >> (bits * e)) & mask\n",
     "def f(w, e):\n    bits = 3\n    mask = (1 << bits) - 1\n    return w >> 3 * e & (1 << 3) - 1"),
    ("boolean flag tests",
     "def f(xs):\n    busy = True\n    while busy is True:\n        busy = False\n    return busy is not True\n",
     "def f(xs):\n    busy = True\n    while busy:\n        busy = False\n    return not busy"),
    ("assign then return",
     "def f(x):\n    r = g(x)\n    return r\n",
     "def f(x):\n    return g(x)"),
    ("while True / break",
     "def f(q):\n    while True:\n        if not q:\n            break\n        q.pop()\n",
     "def f(q):\n    while q:\n        q.pop()"),
]


def run():
    """-> list of failure texts (empty: all normal forms apply)."""
    bad = []
    for name, src, want in CASES:
        core._DICT_N[0] = 0
        got = ast.unparse(core._normalise(ast.parse(src))).strip()
        if got != want.strip():
            bad.append("%s: got\n%s\nexpected\n%s" % (name, got, want))
    # module-level names the reference tree did not have: numbers and
    # literal tables that are only looked at read as their values
    src = ("_STEPS_X = ((1, 1), (0, 1))\n_N_X = 6\n_LOG_X = []\n"
           "def f(x):\n    for dx, dy in _STEPS_X:\n        x += dx % _N_X\n"
           "    _LOG_X.append(x)\n    return x\n")
    want = ("_STEPS_X = ((1, 1), (0, 1))\n_N_X = 6\n_LOG_X = []\n\n"
            "def f(x):\n    for dx, dy in ((1, 1), (0, 1)):\n"
            "        x += dx % 6\n    _LOG_X.append(x)\n    return x")
    tree = ast.parse(src)
    core._inline_new_constants(tree, "rig.geometry")
    got = ast.unparse(tree).strip()
    if got != want:
        bad.append("new module-level constants: got\n%s\nexpected\n%s" % (
            got, want))
    return bad
