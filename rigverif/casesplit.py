"""Proofs by cases on a remainder test.

``n = a // d; if a % d: n += 1`` makes ``n`` a merged value.  The linear
prover works on one value at a time, so the merged value is split on the test
that selects it: under ``a % d != 0`` (remainder >= 1) and under ``a % d ==
0``, each with the value term the hypothesis leaves.
"""
import ast

from .core import AnalysisError
from .poly import le, eq
from .terms import plain, reify, subterms

VOLATILE = ("mu", "phi", "rec", "opaque")


def sym_term(fl, t, node):
    e_ = reify(plain(t))
    for n_ in ast.walk(e_):
        for c_ in ast.iter_child_nodes(n_):
            c_._parent = n_
    ast.fix_missing_locations(e_)
    return fl.sym(e_, node)


def _replace(t, old, new):
    if t == old:
        return new
    if not isinstance(t, tuple) or not t or t[0] == "const":
        return t
    return tuple(_replace(x, old, new) if isinstance(x, tuple) else x
                 for x in t)


def remainder_cases(T, fl, expr, tnode, fnode):
    """[(extra constraints, value term)] for ``expr`` at ``tnode`` (node of
    the Terms CFG; ``fnode`` the same place in the Flow CFG): one case when
    the value is not merged, two when a remainder test decides it, None when
    it is merged some other way."""
    whole = T.term(expr, tnode)
    if not any(st[0] in VOLATILE for st in subterms(whole)):
        # a conditional expression on a remainder: ``q + 1 if r else q``
        ites = [st for st in subterms(plain(whole)) if st[0] == "ite" and
                any(x[0] == "binop" and x[1] == "Mod"
                    for x in subterms(st[1]))]
        if len(set(ites)) == 1:
            c = ites[0][1]
            X, nz = None, None
            if c[0] == "cmp" and c[1] in ("Eq", "NotEq") and \
                    ("const", 0) in (c[2], c[3]):
                X = c[3] if c[2] == ("const", 0) else c[2]
                nz = (c[1] == "NotEq")
            elif c[0] == "cmp" and c[1] in ("Gt", "GtE") and \
                    c[3] == ("const", 0 if c[1] == "Gt" else 1):
                X, nz = c[2], True
            elif c[0] == "binop" and c[1] == "Mod":
                X, nz = c, True
            elif c[0] == "not" and c[1][0] == "binop" and c[1][1] == "Mod":
                X, nz = c[1], False
            if X is not None and X[0] == "binop" and X[1] == "Mod":
                Xp = sym_term(fl, X, fnode)
                outs = []
                for v in (True, False):
                    tv = _replace(plain(whole), ites[0],
                                  ites[0][2] if v else ites[0][3])
                    outs.append(([le(1, Xp)] if nz == v else list(eq(Xp, 0)),
                                 tv))
                return outs
        return [([], whole)]
    for a in T.cfg.nodes:
        if a.kind != "assume" or not a.polarity or \
                not T.cfg.reaches(a, tnode):
            continue
        c, pol = T.cond(a.ast, a, True)
        if any(st[0] in VOLATILE for st in subterms(c)):
            continue
        if c[0] == "cmp" and c[1] in ("Eq", "NotEq") and \
                ("const", 0) in (c[2], c[3]):
            X = c[3] if c[2] == ("const", 0) else c[2]
            nonzero_when_true = (c[1] == "NotEq")
        elif c[0] == "binop" and c[1] == "Mod":
            X = c                    # ``if a % d:`` - truthiness
            nonzero_when_true = True
        else:
            continue
        if not (X[0] == "binop" and X[1] == "Mod"):
            continue
        outs = []
        for v in (True, False):
            H = T.under((c, v))
            tv = H.term(expr, tnode)
            if any(st[0] in VOLATILE for st in subterms(tv)):
                break
            nonzero = nonzero_when_true == v
            Xp = sym_term(fl, X, fnode)
            outs.append(([le(1, Xp)] if nonzero else eq(Xp, 0)
                         if isinstance(eq(Xp, 0), list) else [eq(Xp, 0)],
                         tv))
        else:
            return outs
    return None
