"""SLIPS: slips of kinds that are visible in the shape of the code wherever
they occur (run for every property over the packages it lives in, next to
NAMELINK / FALSY / STALE / NOEFFECT).

Each analysis states a rule of the *language*, not of rig, and reports only
what fails on every execution that reaches the construct:

UNDEF      a name that no enclosing scope, the module or the builtins bind
           (NameError on the path that reads it - typically the error path
           the suite never takes);
SELFATTR   ``self.x`` read in a class none of whose methods, bases or
           subclasses in the package ever define ``x`` (AttributeError);
CALLSIG    a call of a package function / method / class resolved to one
           definition whose parameter list cannot accept the call (too many
           positional arguments, an unknown keyword, a required parameter
           left out, a parameter given twice): TypeError at the call;
EXHAUST    a one-shot iterator (generator expression, call of a generator
           function of the package, ``map`` / ``filter`` / ``zip`` /
           ``iter`` / ``reversed`` / ``enumerate``) bound to a local name
           and then taken for a collection: ``len()`` / indexing (TypeError),
           a truth test (always true), or two traversals one of which can
           follow the other (the second sees nothing);
ITERMUT    a set / dict / list changed in size inside a ``for`` loop over
           that same object (RuntimeError for sets and dicts, skipped
           elements for lists) on a path that goes on iterating;
LATEBIND   a ``lambda`` / nested function created in a loop that reads a
           variable the loop re-binds and is stored or yielded (it sees the
           value of the pass in which it is *called*);
INTDIV     the result of a true division ``/`` used where only an integer is
           accepted (``range``, an index or slice bound, a shift or bit
           operation, a sequence repetition): TypeError, or a float where
           the integer quotient was meant;
SHADOW     an inner ``for`` loop that re-binds the variable of an enclosing
           ``for`` loop whose body reads it again after the inner loop;
SWALLOW    an ``except`` clause for every exception (bare, ``Exception``,
           ``BaseException``) that neither re-raises nor looks at what it
           caught, outside the frozen table of the reference tree's own
           sites.

Nothing here is a style lint: every report names a construct that raises or
computes the wrong thing whenever it is reached.
"""
import ast
import builtins
import symtable

from .cfg import cfg_of

# --------------------------------------------------------------------------
# shared helpers
# --------------------------------------------------------------------------
_FUNC = (ast.FunctionDef, ast.AsyncFunctionDef)


def _own_nodes(fn, into_lambdas=False):
    """Nodes of fn's own scope (nested defs / classes excluded)."""
    todo = list(fn.body) if not isinstance(fn, ast.Lambda) else [fn.body]
    while todo:
        n = todo.pop()
        yield n
        if isinstance(n, _FUNC + (ast.ClassDef,)):
            continue            # (a nested def is a node of this scope; its
            #                      body is not)
        for c in ast.iter_child_nodes(n):
            if isinstance(c, ast.Lambda) and not into_lambdas:
                continue
            todo.append(c)


def _owner(n):
    p = getattr(n, "_parent", None)
    while p is not None and not isinstance(p, _FUNC + (ast.Lambda,)):
        p = getattr(p, "_parent", None)
    return p


def _names_stored(t):
    return [x.id for x in ast.walk(t) if isinstance(x, ast.Name) and
            isinstance(x.ctx, (ast.Store, ast.Del))]


def _is_name(e, nm):
    return isinstance(e, ast.Name) and e.id == nm


def _txt(n, k=60):
    try:
        return " ".join(ast.unparse(n).split())[:k]
    except Exception:
        return type(n).__name__


# --------------------------------------------------------------------------
# UNDEF
# --------------------------------------------------------------------------
_BUILTINS = set(dir(builtins)) | {
    "__file__", "__name__", "__doc__", "__package__", "__path__",
    "__spec__", "__loader__", "__builtins__", "__class__", "__module__",
    "__qualname__", "__debug__", "__annotations__", "__dict__"}
# names of the other major version, read only under a version test or inside
# a try that catches NameError
_PY2 = {"unicode", "xrange", "basestring", "long", "unichr", "raw_input",
        "reduce", "file", "buffer", "cmp", "execfile", "intern"}


def _module_bound(program, m, seen=None):
    """Names bound at the top level of module m (None: cannot be listed -
    a star import from outside the package)."""
    seen = seen or set()
    if m.name in seen:
        return set()
    seen.add(m.name)
    out = set()
    todo = list(m.tree.body)
    while todo:
        s = todo.pop()
        if isinstance(s, _FUNC + (ast.ClassDef,)):
            out.add(s.name)
            continue
        if isinstance(s, (ast.Import, ast.ImportFrom)):
            for al in s.names:
                if al.name == "*":
                    modname = s.module or ""
                    if isinstance(s, ast.ImportFrom) and s.level:
                        pkg = m.name.split(".")
                        import os
                        if os.path.basename(m.path) != "__init__.py":
                            pkg = pkg[:-1]
                        if s.level > 1:
                            pkg = pkg[:len(pkg) - (s.level - 1)]
                        modname = ".".join(pkg + ([s.module] if s.module
                                                  else []))
                    m2 = program.modules.get(modname)
                    if m2 is None:
                        return None
                    sub = _module_bound(program, m2, seen)
                    if sub is None:
                        return None
                    out |= sub
                else:
                    out.add((al.asname or al.name).split(".")[0])
            continue
        for x in ast.iter_child_nodes(s):
            if isinstance(x, ast.Name) and isinstance(x.ctx, (ast.Store,
                                                               ast.Del)):
                out.add(x.id)
            elif isinstance(x, ast.ExceptHandler) and x.name:
                out.add(x.name)
                todo.append(x)
            elif isinstance(x, (ast.expr, ast.stmt, ast.excepthandler,
                                ast.withitem, ast.comprehension,
                                ast.match_case, ast.pattern)) or \
                    isinstance(x, (ast.alias,)):
                todo.append(x)
    # ``global x`` in a function that assigns x
    for n in ast.walk(m.tree):
        if isinstance(n, ast.Global):
            out |= set(n.names)
    return out


def undef(program, m):
    """[(line, name, qualified scope)] for names read in module m that
    nothing binds."""
    bound = _module_bound(program, m)
    if bound is None:
        return []
    try:
        top = symtable.symtable(m.src, m.path, "exec")
    except SyntaxError:
        return []
    # lines of each (name) load, to attribute reports; nested by def lineno
    out = []

    def guarded(name, lineno):
        """Is the read at lineno inside a try that catches NameError or
        under a test of the interpreter version?"""
        for n in ast.walk(m.tree):
            if isinstance(n, ast.Try) and n.lineno <= lineno <= max(
                    getattr(x, "end_lineno", n.lineno) for x in n.body):
                for h in n.handlers:
                    if h.type is None or "NameError" in _txt(h.type, 200) \
                            or _txt(h.type) in ("Exception",
                                                "BaseException"):
                        return True
            if isinstance(n, (ast.If, ast.IfExp)) and \
                    n.lineno <= lineno <= getattr(n, "end_lineno",
                                                  n.lineno):
                t = _txt(n.test, 200)
                if "PY2" in t or "PY3" in t or "version_info" in t:
                    return True
        return False

    loads = {}
    for n in ast.walk(m.tree):
        if isinstance(n, ast.Name) and isinstance(n.ctx, ast.Load):
            loads.setdefault(n.id, []).append(n)

    def visit(tab, qual):
        for s in tab.get_symbols():
            nm = s.get_name()
            if not s.is_referenced():
                continue
            if tab.get_type() == "module":
                is_glob = True
            else:
                is_glob = s.is_global()
            if tab.get_type() == "class" and not s.is_global() and \
                    not s.is_free() and not s.is_assigned() and \
                    not s.is_imported() and not s.is_parameter():
                is_glob = True      # class body reads fall back to globals
            if not is_glob:
                continue
            if nm in bound or nm in _BUILTINS:
                continue
            # locate a read of that name inside this table's line span
            lo = tab.get_lineno()
            cands = [x for x in loads.get(nm, []) if x.lineno >= lo]
            line = cands[0].lineno if cands else lo
            if tab.get_type() != "module":
                # restrict to the def's own span
                d = None
                for q, dd in m.defs.items():
                    if q != "__dups__" and isinstance(
                            dd, _FUNC + (ast.ClassDef,)) and \
                            dd.name == tab.get_name() and \
                            dd.lineno <= lo <= dd.lineno + len(
                                dd.decorator_list) + 1:
                        d = dd
                        break
                if d is not None:
                    inside = [x for x in cands if d.lineno <= x.lineno <=
                              d.end_lineno]
                    if inside:
                        line = inside[0].lineno
            if nm in _PY2 and guarded(nm, line):
                continue
            if guarded(nm, line) and nm in _PY2:
                continue
            out.append((line, nm, qual or "<module>"))
        for ch in tab.get_children():
            visit(ch, (qual + "." if qual else "") + ch.get_name())
    visit(top, "")
    # one report per (scope, name)
    seen = set()
    res = []
    for line, nm, q in sorted(out):
        if (q, nm) in seen:
            continue
        seen.add((q, nm))
        res.append((line, nm, q))
    return res


# --------------------------------------------------------------------------
# class model shared by SELFATTR and CALLSIG
# --------------------------------------------------------------------------
class _Classes(object):
    def __init__(self, program):
        self.program = program
        self.by_name = {}       # (module, name) -> ClassDef  (top level)
        for mname, m in program.modules.items():
            for s in ast.walk(m.tree):
                if isinstance(s, ast.ClassDef):
                    self.by_name.setdefault((mname, s.name), s)
                    s._modname = mname
        self._subs = None

    def resolve(self, mname, expr):
        """ClassDef for a base-class / constructor expression in module
        mname, 'object' for object, None when it is not a package class."""
        m = self.program.modules.get(mname)
        if m is None:
            return None
        if isinstance(expr, ast.Name):
            if expr.id == "object":
                return "object"
            c = self.by_name.get((mname, expr.id))
            if c is not None and isinstance(getattr(c, "_parent", None),
                                            ast.Module):
                return c
            tgt = m.imports.get(expr.id, "")
            if ":" in tgt:
                mod2, _, nm2 = tgt.partition(":")
                return self._lookup(mod2, nm2, 0)
        elif isinstance(expr, ast.Attribute) and isinstance(expr.value,
                                                            ast.Name):
            tgt = m.imports.get(expr.value.id, "")
            if tgt and ":" not in tgt:
                return self._lookup(tgt, expr.attr, 0)
            if ":" in tgt:
                mod2, _, nm2 = tgt.partition(":")
                return self._lookup(mod2 + "." + nm2, expr.attr, 0)
        return None

    def _lookup(self, mod2, nm2, depth):
        if depth > 4:
            return None
        c = self.by_name.get((mod2, nm2))
        if c is not None and isinstance(getattr(c, "_parent", None),
                                        ast.Module):
            return c
        m2 = self.program.modules.get(mod2)
        if m2 is not None:
            tgt = m2.imports.get(nm2, "")
            if ":" in tgt:
                a, _, b = tgt.partition(":")
                return self._lookup(a, b, depth + 1)
        return None

    def mro(self, cls):
        """Linearised bases inside the package, or None when a base is not a
        package class (its attributes are unknown)."""
        out, todo, seen = [], [cls], set()
        while todo:
            c = todo.pop(0)
            if id(c) in seen:
                continue
            seen.add(id(c))
            out.append(c)
            for b in c.bases:
                r = self.resolve(c._modname, b)
                if r == "object":
                    continue
                if r is None:
                    return None
                todo.append(r)
            if c.keywords:
                return None         # metaclass
        return out

    def subclasses(self, cls):
        if self._subs is None:
            self._subs = {}
            for c in self.by_name.values():
                for b in c.bases:
                    r = self.resolve(c._modname, b)
                    if isinstance(r, ast.ClassDef):
                        self._subs.setdefault(id(r), []).append(c)
        out, todo = [], [cls]
        while todo:
            c = todo.pop()
            for s in self._subs.get(id(c), []):
                if s not in out:
                    out.append(s)
                    todo.append(s)
        return out


def _self_name(fn):
    if isinstance(getattr(fn, "_parent", None), ast.ClassDef) and \
            not any(_txt(d) == "staticmethod" for d in fn.decorator_list):
        a = fn.args.posonlyargs + fn.args.args
        if a:
            return a[0].arg
    return None


def _class_defines(cls):
    """Attribute names class cls itself provides; None when it cannot be
    listed (``__getattr__``, ``setattr(self, ...)``, ``__dict__`` updates,
    ``__slots__`` built by an expression)."""
    out = set()
    for s in cls.body:
        if isinstance(s, _FUNC + (ast.ClassDef,)):
            out.add(s.name)
            if s.name in ("__getattr__", "__getattribute__"):
                return None
        elif isinstance(s, (ast.Assign, ast.AnnAssign, ast.AugAssign)):
            for t in (s.targets if isinstance(s, ast.Assign)
                      else [s.target]):
                out |= set(_names_stored(t))
        elif isinstance(s, (ast.For, ast.If, ast.With, ast.Try)):
            out |= set(_names_stored(s))
            for x in ast.walk(s):
                if isinstance(x, _FUNC):
                    out.add(x.name)
    for fn in ast.walk(cls):
        if not isinstance(fn, _FUNC):
            continue
        for n in ast.walk(fn):
            if isinstance(n, ast.Attribute) and isinstance(
                    n.ctx, (ast.Store, ast.Del)) and isinstance(
                        n.value, ast.Name):
                out.add(n.attr)     # (any receiver: cls.x, self.x, other.x)
            elif isinstance(n, ast.Call) and isinstance(n.func, ast.Name) \
                    and n.func.id in ("setattr", "vars"):
                return None
            elif isinstance(n, ast.Attribute) and n.attr == "__dict__":
                return None
    return out


_OBJECT_ATTRS = set(dir(object)) | {"__dict__", "__class__", "__module__",
                                    "__name__", "__qualname__", "__slots__",
                                    "__weakref__"}


def _package_attr_stores(program):
    """Every attribute name stored anywhere in the package (``x.name = ..``,
    setattr(x, "name", ..)): a helper outside the class may be what gives
    the instances their attributes."""
    got = getattr(program, "_slips_attr_stores", None)
    if got is None:
        got = set()
        for m2 in program.modules.values():
            for n in ast.walk(m2.tree):
                if isinstance(n, ast.Attribute) and isinstance(
                        n.ctx, (ast.Store, ast.Del)):
                    got.add(n.attr)
                elif isinstance(n, ast.Call) and isinstance(
                        n.func, ast.Name) and n.func.id == "setattr" and \
                        len(n.args) >= 2 and isinstance(
                            n.args[1], ast.Constant) and \
                        isinstance(n.args[1].value, str):
                    got.add(n.args[1].value)
        program._slips_attr_stores = got
    return got


def selfattr(program, classes, m):
    """[(node, class name, attribute)] for ``self.x`` reads that nothing in
    the class's family defines."""
    out = []
    for cls in ast.walk(m.tree):
        if not isinstance(cls, ast.ClassDef):
            continue
        if not hasattr(cls, "_modname"):
            continue
        if cls.decorator_list:
            continue
        mro = classes.mro(cls)
        if mro is None:
            continue
        family = list(mro)
        for c in list(mro):
            for s in classes.subclasses(c):
                if s not in family:
                    family.append(s)
                    ms = classes.mro(s)
                    if ms is None:
                        family = None
                        break
                    for x in ms:
                        if x not in family:
                            family.append(x)
            if family is None:
                break
        if family is None:
            continue
        have = set(_OBJECT_ATTRS) | _package_attr_stores(program)
        ok = True
        for c in family:
            d = _class_defines(c)
            if d is None or c.decorator_list:
                ok = False
                break
            have |= d
        if not ok:
            continue
        for fn in cls.body:
            if not isinstance(fn, _FUNC):
                continue
            me = _self_name(fn)
            if me is None or any(_txt(d) == "classmethod"
                                 for d in fn.decorator_list):
                continue
            rebinds = any(isinstance(n, ast.Name) and n.id == me and
                          isinstance(n.ctx, ast.Store)
                          for n in ast.walk(fn))
            if rebinds:
                continue
            for n in ast.walk(fn):
                if isinstance(n, ast.Attribute) and isinstance(
                        n.ctx, ast.Load) and _is_name(n.value, me) and \
                        n.attr not in have:
                    # hasattr(self, 'x') / getattr guard anywhere in class
                    guarded = any(
                        isinstance(c, ast.Call) and
                        isinstance(c.func, ast.Name) and
                        c.func.id in ("hasattr", "getattr") and
                        len(c.args) >= 2 and
                        isinstance(c.args[1], ast.Constant) and
                        c.args[1].value == n.attr
                        for c in ast.walk(cls))
                    if not guarded:
                        out.append((n, cls.name, n.attr))
    return out


# --------------------------------------------------------------------------
# CALLSIG
# --------------------------------------------------------------------------
_PLAIN_DECOS = {"staticmethod", "classmethod"}


def _sig_problem(call, fn, drop_first, strict_missing):
    a = fn.args
    pos = [x.arg for x in a.posonlyargs + a.args]
    if drop_first:
        pos = pos[1:]
    n_pos_only = max(0, len(a.posonlyargs) - (1 if drop_first else 0))
    kwonly = [x.arg for x in a.kwonlyargs]
    n_def = len(a.defaults)
    required = pos[:len(pos) - n_def] if n_def else list(pos)
    kw_required = [x.arg for x, d in zip(a.kwonlyargs, a.kw_defaults)
                   if d is None]
    star = any(isinstance(x, ast.Starred) for x in call.args)
    dstar = any(k.arg is None for k in call.keywords)
    n_actual = len([x for x in call.args if not isinstance(x, ast.Starred)])
    if not star and a.vararg is None and n_actual > len(pos):
        return "%d positional argument(s) for %d positional parameter(s) " \
               "(%s)" % (n_actual, len(pos), ", ".join(pos) or "none")
    given = set(pos[:n_actual]) if not star else set()
    for k in call.keywords:
        if k.arg is None:
            continue
        if k.arg not in pos[n_pos_only:] and k.arg not in kwonly:
            if a.kwarg is None:
                return "no parameter is called '%s'" % k.arg
        elif k.arg in given:
            return "parameter '%s' is given both by position and by " \
                   "keyword" % k.arg
        given.add(k.arg)
    if strict_missing and not star and not dstar:
        missing = [p for p in required + kw_required if p not in given]
        if missing:
            return "required parameter(s) %s not given" % ", ".join(missing)
    return None


def _scope_binds(h, cache):
    """Names a function / lambda scope binds itself (stores, parameters,
    nested defs and classes), cached."""
    k = id(h)
    if k not in cache:
        out = set()
        if isinstance(h, ast.Lambda):
            out |= {x.arg for x in ast.walk(h.args) if isinstance(x, ast.arg)}
        else:
            for n in ast.walk(h):
                if isinstance(n, ast.Name) and isinstance(n.ctx, ast.Store):
                    out.add(n.id)
                elif isinstance(n, ast.arg):
                    out.add(n.arg)
                elif isinstance(n, _FUNC + (ast.ClassDef,)) and n is not h:
                    out.add(n.name)
        cache[k] = out
    return cache[k]


def _top_bind_count(m2, cache):
    """name -> number of top-level bindings in module m2 (a def / class
    counts 1; an assignment, or a def under if / try, counts 2: such a name
    does not denote one definition)."""
    k = id(m2)
    if k not in cache:
        cnt = {}
        for s in m2.tree.body:
            if isinstance(s, _FUNC + (ast.ClassDef,)):
                cnt[s.name] = cnt.get(s.name, 0) + 1
            else:
                for x in ast.walk(s):
                    if isinstance(x, ast.Name) and isinstance(
                            x.ctx, ast.Store) and _owner(x) is None:
                        cnt[x.id] = cnt.get(x.id, 0) + 2
                    elif isinstance(x, _FUNC + (ast.ClassDef,)):
                        cnt[x.name] = cnt.get(x.name, 0) + 2
                    elif isinstance(x, ast.alias):
                        nm = (x.asname or x.name).split(".")[0]
                        cnt[nm] = cnt.get(nm, 0) + 2
        cache[k] = cnt
    return cache[k]


def _attr_stores(cls, cache):
    k = id(cls)
    if k not in cache:
        cache[k] = {n.attr for n in ast.walk(cls)
                    if isinstance(n, ast.Attribute) and
                    isinstance(n.ctx, ast.Store)}
    return cache[k]


def callsig(program, classes, m):
    """[(call node, callee description, problem)]."""
    out = []
    cache = getattr(program, "_slips_cache", None)
    if cache is None:
        cache = program._slips_cache = ({}, {}, {})
    sb_cache, top_cache, as_cache = cache
    for c in ast.walk(m.tree):
        if not isinstance(c, ast.Call):
            continue
        target = None
        drop_first = False
        f = c.func
        host = _owner(c)
        if isinstance(f, ast.Name):
            # names shadowed locally are not resolved
            shadow = False
            h = host
            while h is not None:
                if f.id in _scope_binds(h, sb_cache):
                    shadow = True
                    break
                h = _owner(h)
            if shadow:
                continue
            d = m.defs.get(f.id)
            if d is not None:
                if _top_bind_count(m, top_cache).get(f.id) == 1 and \
                        isinstance(getattr(d, "_parent", None), ast.Module):
                    target = d
            elif ":" in m.imports.get(f.id, "") and \
                    _top_bind_count(m, top_cache).get(f.id) == 2:
                mod2, _, nm2 = m.imports[f.id].partition(":")
                m2 = program.modules.get(mod2)
                if m2 is not None:
                    d2 = m2.defs.get(nm2)
                    if d2 is not None and isinstance(
                            getattr(d2, "_parent", None), ast.Module) and \
                            _top_bind_count(m2, top_cache).get(nm2) == 1:
                        target = d2
        elif isinstance(f, ast.Attribute) and isinstance(f.value, ast.Name):
            hostfn = host
            while isinstance(hostfn, ast.Lambda):
                hostfn = _owner(hostfn)
            me = _self_name(hostfn) if isinstance(hostfn, _FUNC) else None
            if me is not None and f.value.id == me and not any(
                    _txt(d) == "classmethod"
                    for d in hostfn.decorator_list):
                cls = hostfn._parent
                if hasattr(cls, "_modname") and not cls.decorator_list:
                    mro = classes.mro(cls)
                    subs = classes.subclasses(cls)
                    if mro is not None and not any(
                            any(isinstance(x, _FUNC) and x.name == f.attr
                                for x in s.body) for s in subs):
                        for k in mro:
                            cand = [x for x in k.body if isinstance(
                                x, _FUNC) and x.name == f.attr]
                            assigned = any(
                                isinstance(x, ast.Assign) and f.attr in
                                _names_stored(x) for x in k.body)
                            if assigned:
                                break
                            if cand:
                                if len(cand) == 1:
                                    target = cand[0]
                                    drop_first = not any(
                                        _txt(d) == "staticmethod"
                                        for d in target.decorator_list)
                                break
                        # an instance attribute of that name wins
                        if target is not None and any(
                                f.attr in _attr_stores(k, as_cache)
                                for k in mro + subs):
                            target = None
            else:
                tgt = m.imports.get(f.value.id, "")
                modname = None
                if tgt and ":" not in tgt:
                    modname = tgt
                elif ":" in tgt:
                    a_, _, b_ = tgt.partition(":")
                    if (a_ + "." + b_) in program.modules:
                        modname = a_ + "." + b_
                # local shadowing of the module alias
                if modname in program.modules:
                    h = host
                    while h is not None:
                        if f.value.id in _scope_binds(h, sb_cache):
                            modname = None
                            break
                        h = _owner(h)
                if modname in program.modules and _top_bind_count(
                        m, top_cache).get(f.value.id) == 2:
                    m2 = program.modules[modname]
                    d2 = m2.defs.get(f.attr)
                    if d2 is not None and isinstance(
                            getattr(d2, "_parent", None), ast.Module) \
                            and _top_bind_count(m2, top_cache).get(
                                f.attr) == 1:
                        target = d2
        if target is None:
            continue
        desc = target.name
        if isinstance(target, ast.ClassDef):
            cls = target
            if cls.decorator_list or not hasattr(cls, "_modname"):
                continue
            mro = classes.mro(cls)
            if mro is None:
                continue
            init = None
            for k in mro:
                news = [x for x in k.body if isinstance(x, _FUNC) and
                        x.name == "__new__"]
                if news:
                    init = news[0]
                    break
                got = [x for x in k.body if isinstance(x, _FUNC) and
                       x.name == "__init__"]
                if got:
                    init = got[0]
                    break
            if init is None:
                continue
            target = init
            drop_first = True
            desc = cls.name
        decos = [_txt(d) for d in target.decorator_list]
        plain = all(d in _PLAIN_DECOS for d in decos)
        if isinstance(f, ast.Name) and isinstance(
                getattr(target, "_parent", None), ast.ClassDef) and \
                target.name not in ("__init__", "__new__"):
            continue
        if any(d in ("property",) or d.endswith(".setter") for d in decos):
            continue
        p = _sig_problem(c, target, drop_first, strict_missing=plain)
        if p is not None and not plain:
            # a wrapping decorator may add or strip parameters; surplus
            # positionals and unknown keywords are judged for plain
            # definitions and the ``use_contextual_arguments`` family,
            # which keeps the parameter list
            if not all(("contextual" in d) or d in _PLAIN_DECOS
                       for d in decos):
                p = None
        if p is not None:
            out.append((c, desc, p))
    return out


# --------------------------------------------------------------------------
# EXHAUST
# --------------------------------------------------------------------------
_ONE_SHOT_BUILTINS = {"map", "filter", "zip", "iter", "reversed",
                      "enumerate"}
_CONSUMERS = {"list", "tuple", "set", "frozenset", "sorted", "sum", "dict",
              "any", "all", "min", "max", "OrderedDict", "deque", "Counter",
              "bytes", "bytearray"}


def _generator_functions(program):
    out = {}
    for mname, m in program.modules.items():
        for q, d in m.defs.items():
            if q == "__dups__" or not isinstance(d, _FUNC):
                continue
            if any(isinstance(n, (ast.Yield, ast.YieldFrom))
                   for n in _own_nodes(d)):
                if not d.decorator_list:
                    out[(mname, q)] = d
    return out


def _is_one_shot(program, m, e, genfns):
    if isinstance(e, ast.GeneratorExp):
        return "a generator expression"
    if isinstance(e, ast.Call):
        f = e.func
        if isinstance(f, ast.Name):
            if f.id in _ONE_SHOT_BUILTINS:
                return "%s(...)" % f.id
            d = m.defs.get(f.id)
            if d is not None and (m.name, f.id) in genfns and isinstance(
                    getattr(d, "_parent", None), ast.Module):
                return "the generator %s(...)" % f.id
            tgt = m.imports.get(f.id, "")
            if ":" in tgt:
                mod2, _, nm2 = tgt.partition(":")
                if (mod2, nm2) in genfns:
                    return "the generator %s(...)" % nm2
    return None


def _leaves_early(loop):
    """The for statement has a break of its own (not of a nested loop)."""
    def walk(sts):
        for s in sts:
            if isinstance(s, ast.Break):
                return True
            if isinstance(s, (ast.For, ast.While, ast.FunctionDef,
                              ast.ClassDef, ast.AsyncFunctionDef)):
                # a nested loop's break is its own; its else part is ours
                if isinstance(s, (ast.For, ast.While)) and walk(s.orelse):
                    return True
                continue
            for fld in ("body", "orelse", "finalbody"):
                if walk(getattr(s, fld, []) or []):
                    return True
            for h in getattr(s, "handlers", []) or []:
                if walk(h.body):
                    return True
            for c in getattr(s, "cases", []) or []:
                if walk(c.body):
                    return True
        return False
    return walk(loop.body)


def exhaust(program, m, fn, genfns):
    out = []
    binds = {}
    for n in _own_nodes(fn):
        if isinstance(n, ast.Name) and isinstance(n.ctx, (ast.Store,
                                                           ast.Del)):
            binds.setdefault(n.id, []).append(n)
    params = {x.arg for x in ast.walk(fn.args) if isinstance(x, ast.arg)}
    for nm, sts in binds.items():
        if len(sts) != 1 or nm in params:
            continue
        st = sts[0]._parent
        if not (isinstance(st, ast.Assign) and len(st.targets) == 1 and
                st.targets[0] is sts[0]):
            continue
        kind = _is_one_shot(program, m, st.value, genfns)
        if kind is None:
            continue
        if any(isinstance(x, (ast.Global, ast.Nonlocal)) and nm in x.names
               for x in ast.walk(fn)):
            continue
        # every read of the name in the function (nested scopes included)
        reads = [x for x in ast.walk(fn) if isinstance(x, ast.Name) and
                 x.id == nm and isinstance(x.ctx, ast.Load)]
        traversals = []
        for r in reads:
            p = r._parent
            if _owner(r) is not fn:
                # read from a closure: its uses are not followed
                traversals = None
                break
            if isinstance(p, ast.Call) and r in p.args and isinstance(
                    p.func, ast.Name) and p.func.id == "len":
                out.append((p, "len() of %s, which is %s: TypeError" % (
                    nm, kind)))
            elif isinstance(p, ast.Subscript) and p.value is r:
                out.append((p, "%s is %s and cannot be indexed: TypeError"
                            % (nm, kind)))
            elif (isinstance(p, (ast.If, ast.While, ast.IfExp)) and
                  p.test is r) or (isinstance(p, ast.UnaryOp) and
                                   isinstance(p.op, ast.Not)) or \
                    (isinstance(p, ast.BoolOp)):
                out.append((p, "truth test of %s, which is %s: always true"
                            % (nm, kind)))
            elif isinstance(p, ast.Call) and isinstance(p.func, ast.Name) \
                    and p.func.id == "next":
                traversals = None       # drawn from on purpose
                break
            elif isinstance(p, ast.For) and p.iter is r and \
                    _leaves_early(p):
                # a traversal that can stop half way is a cursor that a later
                # traversal resumes: drawn from on purpose
                traversals = None
                break
            elif (isinstance(p, (ast.For, ast.comprehension)) and
                  p.iter is r) or \
                    (isinstance(p, ast.Call) and r in p.args and
                     isinstance(p.func, ast.Name) and
                     p.func.id in _CONSUMERS) or \
                    (isinstance(p, ast.Compare) and r in p.comparators and
                     any(isinstance(o, (ast.In, ast.NotIn))
                         for o in p.ops)) or \
                    (isinstance(p, ast.Starred)) or \
                    (isinstance(p, ast.Call) and isinstance(
                        p.func, ast.Attribute) and p.func.attr in (
                            "join", "extend", "update") and r in p.args):
                traversals.append(r)
            else:
                traversals = None       # handed on / stored: not followed
                break
        if not traversals or len(traversals) < 1:
            continue
        try:
            cfg = cfg_of(fn)
            nodes = []
            for r in traversals:
                x = r
                node = None
                # a comprehension's iterable belongs to the statement
                node = cfg.node_containing(x)
                nodes.append(node)
            start = cfg.node_of(st)
        except Exception:
            continue
        # the binding is re-evaluated on every pass through st: a traversal
        # is a *second* one if another traversal (or itself, in a loop) can
        # be reached from it without passing st again
        for i, a in enumerate(nodes):
            for j, b in enumerate(nodes):
                if i == j:
                    # same construct reached twice (the traversal sits in a
                    # loop the binding is outside of)
                    if cfg.reaches(a, a, avoid=[start]):
                        # ... a comprehension / for over nm is one node; the
                        # for-header node loops on itself by design
                        r = traversals[i]
                        p = r._parent
                        if isinstance(p, ast.For) and p.iter is r:
                            # reached again only through an enclosing loop
                            encl = [q for q in _loops_above(p, fn)]
                            if not any(_inside(st, q) is False
                                       for q in encl):
                                continue
                        out.append((traversals[i], "%s is %s bound once "
                                    "(line %d) and traversed on every pass "
                                    "of a loop: from the second pass on it "
                                    "is exhausted" % (nm, kind,
                                                      st.lineno)))
                    continue
                if i < j and (cfg.reaches(a, b, avoid=[start]) or
                              cfg.reaches(b, a, avoid=[start])):
                    out.append((traversals[j], "%s is %s (line %d) and is "
                                "traversed twice (lines %d and %d): the "
                                "second traversal sees nothing" % (
                                    nm, kind, st.lineno,
                                    traversals[i].lineno,
                                    traversals[j].lineno)))
    return out


def _loops_above(n, fn):
    p = getattr(n, "_parent", None)
    while p is not None and p is not fn:
        if isinstance(p, (ast.For, ast.While)):
            yield p
        p = getattr(p, "_parent", None)


def _inside(n, anc):
    p = n
    while p is not None:
        if p is anc:
            return True
        p = getattr(p, "_parent", None)
    return False


# --------------------------------------------------------------------------
# ITERMUT
# --------------------------------------------------------------------------
_SIZE_CHANGERS = {"add", "discard", "remove", "pop", "popitem", "clear",
                  "append", "insert", "extend", "update", "setdefault",
                  "difference_update", "intersection_update",
                  "symmetric_difference_update"}


def _chain(e):
    parts = []
    while isinstance(e, ast.Attribute):
        parts.append(e.attr)
        e = e.value
    if isinstance(e, ast.Name):
        parts.append(e.id)
        return ".".join(reversed(parts))
    return None


def itermut(fn):
    out = []
    for loop in _own_nodes(fn):
        if not isinstance(loop, ast.For):
            continue
        it = loop.iter
        view = None
        if isinstance(it, ast.Call) and isinstance(it.func, ast.Attribute) \
                and it.func.attr in ("items", "keys", "values") and \
                not it.args:
            view = it.func.attr
            it = it.func.value
        elif isinstance(it, ast.Call) and isinstance(it.func, ast.Name) \
                and it.func.id in ("enumerate", "reversed", "iter") and \
                len(it.args) >= 1:
            it = it.args[0]
        ch = _chain(it)
        if ch is None:
            continue
        # the loop re-binds the object's name: not the same object any more
        for body_st in loop.body:
            for n in ast.walk(body_st):
                if isinstance(n, _FUNC + (ast.Lambda, ast.ClassDef)):
                    continue
                hit = None
                if isinstance(n, ast.Call) and isinstance(
                        n.func, ast.Attribute) and \
                        n.func.attr in _SIZE_CHANGERS and \
                        _chain(n.func.value) == ch:
                    if n.func.attr == "setdefault" or (
                            n.func.attr == "update" and view is None and
                            False):
                        continue
                    if n.func.attr in ("append", "insert", "extend") and \
                            False:
                        continue
                    hit = ".%s(...)" % n.func.attr
                elif isinstance(n, ast.Delete) and any(
                        isinstance(t, ast.Subscript) and
                        _chain(t.value) == ch and
                        not isinstance(t.slice, ast.Slice)
                        for t in n.targets):
                    hit = "del %s[...]" % ch
                if hit is None:
                    continue
                if _owner(n) is not fn and _owner(n) is not None and \
                        _owner(n) is not _owner(loop):
                    continue
                # does the pass go on iterating afterwards?  Not if the
                # statement is followed (in its own block, and in every
                # enclosing block up to the loop) by break / return / raise
                if _leaves_loop_after(n, loop):
                    continue
                # list: append while iterating is a work-list idiom the
                # language defines (the loop visits the new elements);
                # reported only for removal
                if hit in (".append(...)", ".extend(...)", ".insert(...)"):
                    continue
                if hit in (".pop(...)", ".update(...)") and view is None \
                        and False:
                    continue
                out.append((n, "%s while a for loop (line %d) iterates over "
                            "%s%s itself: the container changes size under "
                            "the iteration (RuntimeError for a set or "
                            "dictionary, skipped elements for a list)" % (
                                hit, loop.lineno, ch,
                                "." + view + "()" if view else "")))
    return out


def _leaves_loop_after(n, loop):
    """Is every way on from statement-containing-n, inside ``loop``, a break
    out of loop / return / raise?  (syntactic: the rest of n's block, and of
    each enclosing block up to the loop, ends in such a statement)"""
    st = n
    while not isinstance(st, ast.stmt):
        st = st._parent
    while st is not loop:
        parent = st._parent
        blocks = [getattr(parent, f, None) for f in ("body", "orelse",
                                                     "finalbody")]
        if isinstance(parent, ast.Try):
            blocks += [h.body for h in parent.handlers]
        blk = None
        for b in blocks:
            if isinstance(b, list) and any(x is st for x in b):
                blk = b
        if isinstance(parent, ast.ExceptHandler):
            blk = parent.body
        if blk is None:
            return False
        rest = blk[[i for i, x in enumerate(blk) if x is st][0] + 1:]
        for r in rest:
            if isinstance(r, (ast.Return, ast.Raise)):
                return True
            if isinstance(r, ast.Break):
                # a break of an inner loop does not leave ``loop``
                inner = [q for q in _loops_above(r, loop)]
                return not inner
            if isinstance(r, ast.Continue):
                return False
        if rest:
            # falls through other statements to the end of the block
            pass
        if isinstance(parent, (ast.For, ast.While)) and parent is not loop:
            return False
        st = parent
        if isinstance(st, ast.ExceptHandler):
            st = st._parent
    return False


# --------------------------------------------------------------------------
# LATEBIND
# --------------------------------------------------------------------------
def latebind(fn):
    out = []
    for loop in _own_nodes(fn):
        if not isinstance(loop, (ast.For, ast.While)):
            continue
        rebound = set()
        if isinstance(loop, ast.For):
            rebound |= set(_names_stored(loop.target))
        for b in loop.body:
            for n in ast.walk(b):
                if isinstance(n, _FUNC + (ast.Lambda, ast.ClassDef)):
                    continue
            for n in _walk_scope(b):
                if isinstance(n, ast.Name) and isinstance(n.ctx, ast.Store):
                    rebound.add(n.id)
        if not rebound:
            continue
        for b in loop.body:
            for n in _walk_scope(b, closures=True):
                if not isinstance(n, ast.Lambda) and not isinstance(n,
                                                                    _FUNC):
                    continue
                if _nearest_loop(n, fn) is not loop:
                    continue
                own = {x.arg for x in ast.walk(n.args)
                       if isinstance(x, ast.arg)}
                body_nodes = [n.body] if isinstance(n, ast.Lambda) \
                    else n.body
                local = set()
                if isinstance(n, _FUNC):
                    for s in n.body:
                        local |= set(_names_stored(s))
                free = set()
                for bn in body_nodes:
                    for x in ast.walk(bn):
                        if isinstance(x, ast.Name) and isinstance(
                                x.ctx, ast.Load) and x.id in rebound and \
                                x.id not in own and x.id not in local:
                            free.add(x.id)
                if not free:
                    continue
                how = _escapes_pass(n, loop)
                if how is None:
                    continue
                out.append((n, "%s created in the loop at line %d reads %s, "
                            "which the loop re-binds, and is %s: when it is "
                            "called later it sees the value of the last "
                            "pass, not of the pass that created it" % (
                                "lambda" if isinstance(n, ast.Lambda)
                                else "function %s" % n.name, loop.lineno,
                                ", ".join(sorted(free)), how)))
    return out


def _walk_scope(root, closures=False):
    todo = [root]
    while todo:
        n = todo.pop()
        yield n
        if isinstance(n, _FUNC + (ast.Lambda, ast.ClassDef)) and \
                n is not root:
            continue
        for c in ast.iter_child_nodes(n):
            todo.append(c)


def _nearest_loop(n, fn):
    p = getattr(n, "_parent", None)
    while p is not None and p is not fn:
        if isinstance(p, (ast.For, ast.While)):
            return p
        if isinstance(p, _FUNC + (ast.Lambda,)):
            return None
        p = getattr(p, "_parent", None)
    return None


def _escapes_pass(clo, loop):
    """How the closure outlives the pass that made it: 'appended to a
    collection', 'stored', 'yielded'; None when it is only handed to a call
    whose result is used on the spot."""
    if isinstance(clo, _FUNC):
        # a nested def: look at what is done with its name in the loop body
        nm = clo.name
        for b in loop.body:
            for n in _walk_scope(b):
                if isinstance(n, ast.Name) and n.id == nm and isinstance(
                        n.ctx, ast.Load):
                    h = _escape_of_expr(n, loop)
                    if h:
                        return h
        return None
    return _escape_of_expr(clo, loop)


_IMMEDIATE = {"sorted", "min", "max", "map", "filter", "sum", "any", "all",
              "list", "tuple", "set", "next", "reduce", "groupby"}


def _escape_of_expr(e, loop):
    p = e._parent
    child = e
    through_call = False
    while p is not None and p is not loop:
        if isinstance(p, ast.Call):
            if child is p.func:
                return None                     # called on the spot
            f = p.func
            if isinstance(f, ast.Attribute) and f.attr in (
                    "append", "add", "insert", "appendleft", "setdefault",
                    "extend", "put", "register"):
                return "put into a collection (%s)" % _txt(f, 40)
            if isinstance(f, ast.Name) and f.id in _IMMEDIATE or \
                    isinstance(f, ast.Attribute) and f.attr in (
                        "sort", "get", "pop"):
                return None
            through_call = True
        elif isinstance(p, (ast.Yield, ast.YieldFrom)):
            return "yielded"
        elif isinstance(p, ast.Assign):
            for t in p.targets:
                if isinstance(t, (ast.Subscript, ast.Attribute)):
                    return "stored in %s" % _txt(t, 40)
            return None
        elif isinstance(p, ast.Return):
            return None
        elif isinstance(p, ast.stmt):
            return None
        child = p
        p = p._parent
    return None


# --------------------------------------------------------------------------
# INTDIV
# --------------------------------------------------------------------------
def _is_truediv(e):
    return isinstance(e, ast.BinOp) and isinstance(e.op, ast.Div)


def _float_valued(e, env, depth=0):
    """Does e certainly evaluate to a float produced by '/'? (through + - *
    with other operands, unary minus, parentheses and names bound once)."""
    if depth > 4:
        return False
    if _is_truediv(e):
        # numpy arrays / Fractions divide too; only plain numbers are
        # judged: both operands are names, constants, len(), attribute
        # chains or arithmetic over those
        return True
    if isinstance(e, ast.BinOp) and isinstance(e.op, (ast.Add, ast.Sub,
                                                      ast.Mult)):
        return _float_valued(e.left, env, depth + 1) or \
            _float_valued(e.right, env, depth + 1)
    if isinstance(e, ast.UnaryOp) and isinstance(e.op, (ast.USub,
                                                        ast.UAdd)):
        return _float_valued(e.operand, env, depth + 1)
    if isinstance(e, ast.Name) and e.id in env:
        return _float_valued(env[e.id], env, depth + 1)
    return False


def intdiv(fn):
    out = []
    # names bound exactly once in fn, by a plain assignment
    binds = {}
    for n in _own_nodes(fn):
        if isinstance(n, ast.Name) and isinstance(n.ctx, ast.Store):
            binds.setdefault(n.id, []).append(n)
    env = {}
    for nm, sts in binds.items():
        if len(sts) == 1 and isinstance(sts[0]._parent, ast.Assign) and \
                len(sts[0]._parent.targets) == 1 and \
                sts[0]._parent.targets[0] is sts[0]:
            env[nm] = sts[0]._parent.value
    params = {x.arg for x in ast.walk(fn.args) if isinstance(x, ast.arg)}
    for p in params:
        env.pop(p, None)
    for n in _own_nodes(fn, into_lambdas=True):
        sinks = []
        if isinstance(n, ast.Call) and isinstance(n.func, ast.Name) and \
                n.func.id in ("range", "xrange", "bytes", "bytearray",
                              "hex", "bin", "oct", "chr"):
            sinks = [(a, "%s()" % n.func.id) for a in n.args]
        elif isinstance(n, ast.Subscript):
            s = n.slice
            if isinstance(s, ast.Slice):
                sinks = [(x, "a slice bound") for x in (s.lower, s.upper,
                                                        s.step)
                         if x is not None]
            elif not isinstance(s, ast.Tuple):
                # an index - only when the container is known to be a
                # sequence is a float index an error; dictionaries take any
                # key.  Judged only for expressions that *are* a division
                if _is_truediv(s):
                    pass
        elif isinstance(n, ast.BinOp) and isinstance(
                n.op, (ast.LShift, ast.RShift, ast.BitAnd, ast.BitOr,
                       ast.BitXor)):
            sinks = [(n.left, "a bit operation"), (n.right,
                                                   "a bit operation")]
        for e, what in sinks:
            if _float_valued(e, env):
                out.append((e, "%s is the result of a true division ('/' "
                            "gives a float) and is used as %s, which takes "
                            "integers only: TypeError" % (_txt(e), what)))
    return out


# --------------------------------------------------------------------------
# SHADOW
# --------------------------------------------------------------------------
def shadow(fn):
    out = []
    for outer in _own_nodes(fn):
        if not isinstance(outer, ast.For):
            continue
        onames = set(_names_stored(outer.target))
        for inner in _walk_scope_list(outer.body):
            if not isinstance(inner, ast.For) or inner is outer:
                continue
            both = onames & set(_names_stored(inner.target))
            if not both:
                continue
            # does the outer body read the name after the inner loop (before
            # re-binding it)?  Statement order within the enclosing blocks.
            for nm in sorted(both):
                if _read_after(inner, outer, nm):
                    out.append((inner, "the loop at line %d re-binds %s, the "
                                "variable of the enclosing loop at line %d, "
                                "whose body reads it again afterwards: it "
                                "then holds the inner loop's last element" %
                                (inner.lineno, nm, outer.lineno)))
    return out


def _walk_scope_list(stmts):
    for s in stmts:
        for n in _walk_scope(s):
            yield n


def _read_after(inner, outer, nm):
    st = inner
    while st is not outer:
        parent = st._parent
        blk = None
        for f in ("body", "orelse", "finalbody"):
            b = getattr(parent, f, None)
            if isinstance(b, list) and any(x is st for x in b):
                blk = b
        if blk is None and isinstance(parent, ast.ExceptHandler):
            blk = parent.body
        if blk is None:
            return False
        rest = blk[[i for i, x in enumerate(blk) if x is st][0] + 1:]
        for r in rest:
            for n in _walk_scope(r):
                if isinstance(n, ast.Name) and n.id == nm:
                    if isinstance(n.ctx, ast.Load):
                        return True
            if any(isinstance(n, ast.Name) and n.id == nm and
                   isinstance(n.ctx, ast.Store) for n in ast.walk(r)):
                return False
        st = parent
        if isinstance(st, ast.ExceptHandler):
            st = st._parent
    return False


# --------------------------------------------------------------------------
# SWALLOW
# --------------------------------------------------------------------------
# the reference tree's own catch-alls that do not re-raise, each with the
# reason it is harmless: (module, function) -> reason
SWALLOW_OK = {}


def swallow(fn):
    out = []
    for n in _own_nodes(fn):
        if not isinstance(n, ast.ExceptHandler):
            continue
        t = n.type
        broad = t is None or (_txt(t) in ("Exception", "BaseException")) or \
            (isinstance(t, ast.Tuple) and any(
                _txt(x) in ("Exception", "BaseException") for x in t.elts))
        if not broad:
            continue
        reraises = any(isinstance(x, ast.Raise) for b in n.body
                       for x in _walk_scope(b))
        uses = n.name is not None and any(
            isinstance(x, ast.Name) and x.id == n.name and
            isinstance(x.ctx, ast.Load) for b in n.body
            for x in ast.walk(b))
        if reraises or uses:
            continue
        out.append((n, "'except %s' catches every error of the block at "
                    "line %d and neither re-raises nor looks at it: "
                    "failures of the guarded calls pass unnoticed" % (
                        _txt(t) if t is not None else "", n._parent.lineno)))
    return out


# --------------------------------------------------------------------------
# UNBOUND
# --------------------------------------------------------------------------
def _guard_names(n, fn):
    out = set()
    p = getattr(n, "_parent", None)
    child = n
    while p is not None and p is not fn:
        if isinstance(p, (ast.If, ast.While, ast.IfExp)) and \
                child is not p.test:
            for x in ast.walk(p.test):
                if isinstance(x, ast.Name):
                    out.add(x.id)
        child = p
        p = getattr(p, "_parent", None)
    return out


def _reach_unbound(cfg, rn, dnodes, avoid):
    """Can rn be reached from the entry without *completing* any binding?
    A binding statement inside a try block may raise before it binds: its
    exceptional successors (handlers) are entered from its predecessors."""
    avoid_ids = set(id(a) for a in avoid)
    seen = set()
    stack = [cfg.entry]
    dset = set(id(d) for d in dnodes)
    while stack:
        n = stack.pop()
        for s_ in n.succ:
            if s_.id in seen:
                continue
            if id(s_) in dset and s_ is not rn:
                # the statement starts; if it raises, control goes to its
                # handlers with the name still unbound
                for h in s_.succ:
                    if h.kind == "handler" and h.id not in seen and \
                            id(h) not in avoid_ids:
                        # a handler that sets a variable may be setting the
                        # flag under which the name is not read later on
                        # (``except E: ok = False`` ... ``if not ok:
                        # return``): correlated in a way no path argument
                        # here follows - no verdict through that handler
                        hb = getattr(h.ast, "body", []) or []
                        if any(isinstance(x, ast.Name) and
                               isinstance(x.ctx, ast.Store)
                               for b_ in hb for x in ast.walk(b_)):
                            continue
                        seen.add(h.id)
                        stack.append(h)
                continue
            if id(s_) in avoid_ids:
                continue
            if s_.kind == "handler":
                hb = getattr(s_.ast, "body", []) or []
                if any(isinstance(x, ast.Name) and
                       isinstance(x.ctx, ast.Store)
                       for b_ in hb for x in ast.walk(b_)):
                    continue        # (see above: a flag may be set there)
            seen.add(s_.id)
            stack.append(s_)
    return rn.id in seen


def unbound(fn):
    """[(read Name node, text)]: a local read on a path from the function's
    entry that passes none of its bindings (UnboundLocalError), after the
    branch edges contradicted by the conditions that hold at the read are
    removed.  Loops are taken to run at least once (a name bound in a loop
    and read after it is the 'last element' idiom); reads inside the loop
    that binds the name are STALE's business."""
    from . import stale
    from .core import AnalysisError
    if any(isinstance(n, (ast.Global, ast.Nonlocal)) for n in ast.walk(fn)):
        return []
    if any(isinstance(n, ast.Call) and isinstance(n.func, ast.Name) and
           n.func.id in ("locals", "exec", "eval", "vars")
           for n in ast.walk(fn)):
        return []
    binds = stale._bindings(fn)
    # (stale._bindings walks into nested defs that are direct statements of
    # the body: keep the binding sites of this scope only)
    for v in list(binds):
        if binds[v] is not None:
            binds[v] = [s_ for s_ in binds[v]
                        if isinstance(s_, _FUNC + (ast.ClassDef,)) and
                        s_._parent is not None and _owner(s_) is fn or
                        not isinstance(s_, _FUNC + (ast.ClassDef,)) and
                        _owner(s_) is fn]
    reads = {}
    for n in _own_nodes(fn):
        if isinstance(n, ast.Name) and isinstance(n.ctx, ast.Load) and \
                binds.get(n.id):
            reads.setdefault(n.id, []).append(n)
    # a name that a nested scope also binds or reads is left alone
    for n in ast.walk(fn):
        if isinstance(n, _FUNC + (ast.Lambda,)) and n is not fn:
            for x in ast.walk(n):
                if isinstance(x, ast.arg):
                    pass
    if not reads:
        return []
    # cheap filter: some binding sits under a branch / handler
    def conditional(s):
        p = getattr(s, "_parent", None)
        while p is not None and p is not fn:
            if isinstance(p, (ast.If, ast.Try, ast.ExceptHandler, ast.While,
                              ast.For, ast.Match)):
                return True
            p = getattr(p, "_parent", None)
        return False
    cand = [v for v in reads if all(conditional(s) for s in binds[v])]
    if not cand:
        return []
    try:
        cfg = cfg_of(fn)
    except (AnalysisError, RecursionError):
        return []
    chain_ends = stale._exhaustive_chain_ends(fn, cfg)
    out = []
    T = None
    for v in sorted(cand):
        sites = binds[v]
        try:
            dnodes = []
            for s_ in sites:
                if isinstance(s_, _FUNC + (ast.ClassDef,)):
                    dnodes.append(cfg.node_of(s_))
                else:
                    dnodes.append(cfg.node_containing(s_))
        except (AnalysisError, KeyError):
            continue
        if any(d is None for d in dnodes):
            continue
        for r in sorted(reads[v], key=lambda x: (x.lineno, x.col_offset)):
            rloops = stale._loops_of(r, fn)
            # loops holding a binding and not the read: run at least once
            extra = []
            skip = False
            for s_ in sites:
                for L in stale._loops_of(s_, fn):
                    if L in rloops:
                        skip = True     # STALE's case
                    elif id(L) in cfg.loop_head:
                        extra.append(cfg.loop_head[id(L)])
            if skip:
                continue
            try:
                rn = cfg.node_containing(r)
            except AnalysisError:
                continue
            if rn is None:
                continue
            if rn in dnodes and not stale._reads_before_binding(r, sites):
                continue
            # conditions around the read that mention a name the conditions
            # around a binding mention too may be correlated with them in a
            # way no path argument here follows (``if n > 0: v = ..`` /
            # ``while n > 0: use(v)``): no verdict
            gr = _guard_names(r, fn)
            if gr and any(gr & _guard_names(s_, fn) for s_ in sites):
                continue
            avoid = extra + chain_ends
            if not _reach_unbound(cfg, rn, [d for d in dnodes
                                            if d is not rn], avoid):
                continue
            try:
                if T is None:
                    from .terms import Terms
                    T = Terms(fn)
                facts = [(t, p) for t, p in T.all_facts(rn)
                         if t[0] not in ("and", "or")]
                Hh = T.under(*facts) if facts else T
                dead = [T.cfg.nodes[i] for i in Hh.dead]
                tr = T.cfg.node_containing(r)
                tav = []
                for s_ in sites:
                    if isinstance(s_, _FUNC + (ast.ClassDef,)):
                        tav.append(T.cfg.node_of(s_))
                    else:
                        tav.append(T.cfg.node_containing(s_))
                tdn = [d for d in tav if d is not tr]
                tav = dead + stale._exhaustive_chain_ends(fn, T.cfg)
                for s_ in sites:
                    for L in stale._loops_of(s_, fn):
                        if L not in rloops and id(L) in T.cfg.loop_head:
                            tav.append(T.cfg.loop_head[id(L)])
                if not _reach_unbound(T.cfg, tr, tdn, tav):
                    continue
            except (AnalysisError, KeyError, RecursionError):
                continue
            except Exception:
                continue
            out.append((r, "%s is read at line %d, which can be reached "
                        "from the start of %s without passing any of its "
                        "assignments (line%s %s): UnboundLocalError on "
                        "that path" % (
                            v, r.lineno, fn.name,
                            "s" if len(sites) > 1 else "",
                            ", ".join(str(getattr(s_, "lineno", "?"))
                                      for s_ in sites[:4]))))
            break
    return out


# --------------------------------------------------------------------------
# SNAPSHOT
# --------------------------------------------------------------------------
_SNAP_FUNCS = {"set", "list", "tuple", "frozenset", "dict", "sorted", "len",
               "sum", "min", "max"}


def _new_key_evidence(target, src, loop):
    """Is the key stored under known to be new: a test / assertion
    ``<key> not in <src>`` earlier in the loop body?"""
    kd = ast.dump(target.slice)
    for b in loop.body:
        for x in _walk_scope(b):
            if isinstance(x, ast.Compare) and len(x.ops) == 1 and \
                    isinstance(x.ops[0], ast.NotIn) and \
                    _is_name(x.comparators[0], src) and \
                    ast.dump(x.left) == kd and \
                    (x.lineno, x.col_offset) <= (target.lineno,
                                                 target.col_offset):
                return True
    return False


def snapshot(fn):
    """A value made from the contents of a container before a loop
    (``seen = set(table)``, ``n = len(queue)``), read inside the loop, while
    the loop itself changes that container (``table[k] = v``): from the
    second pass on the value no longer describes the container - it was
    computed once instead of per pass."""
    out = []
    stores = {}
    for n in _own_nodes(fn):
        if isinstance(n, ast.Name) and isinstance(n.ctx, (ast.Store,
                                                           ast.Del)):
            stores.setdefault(n.id, []).append(n)
    for v, sts in stores.items():
        if len(sts) != 1:
            continue
        st = sts[0]._parent
        if not (isinstance(st, ast.Assign) and len(st.targets) == 1 and
                st.targets[0] is sts[0]):
            continue
        val = st.value
        src = None
        if isinstance(val, ast.Call) and isinstance(val.func, ast.Name) and \
                val.func.id in _SNAP_FUNCS and len(val.args) == 1 and \
                not val.keywords and isinstance(val.args[0], ast.Name):
            src = val.args[0].id
        elif isinstance(val, ast.Call) and isinstance(
                val.func, ast.Attribute) and val.func.attr in (
                    "copy", "keys", "values", "items") and \
                isinstance(val.func.value, ast.Name) and not val.args and \
                val.func.attr == "copy":
            src = val.func.value.id
        if src is None or src == v:
            continue
        # the container is bound once (or is a parameter) - the same object
        # throughout
        params = {a.arg for a in ast.walk(fn.args) if isinstance(a, ast.arg)}
        if len(stores.get(src, [])) > (0 if src in params else 1):
            continue
        for loop in _own_nodes(fn):
            if not isinstance(loop, (ast.For, ast.While)):
                continue
            if _inside(st, loop):
                continue
            if (loop.lineno, loop.col_offset) < (st.lineno, st.col_offset):
                continue
            # the loop is not nested in another loop that re-runs the
            # snapshot statement together with it
            outer = [q for q in _loops_above(loop, fn)]
            if any(_inside(st, q) for q in outer):
                continue
            reads = [x for b in loop.body for x in _walk_scope(b)
                     if isinstance(x, ast.Name) and x.id == v and
                     isinstance(x.ctx, ast.Load)]
            if not reads:
                continue
            muts = []
            for b in loop.body:
                for x in _walk_scope(b):
                    if isinstance(x, ast.Call) and isinstance(
                            x.func, ast.Attribute) and \
                            x.func.attr in _SIZE_CHANGERS and \
                            _is_name(x.func.value, src):
                        muts.append(x)
                    elif isinstance(x, (ast.Assign, ast.AugAssign,
                                        ast.Delete)):
                        tg = x.targets if not isinstance(
                            x, ast.AugAssign) else [x.target]
                        for t in tg:
                            if isinstance(t, ast.Subscript) and \
                                    _is_name(t.value, src):
                                if isinstance(x, ast.Delete):
                                    muts.append(x)
                                elif _new_key_evidence(t, src, loop):
                                    # (a store under an existing key leaves
                                    # the keys as they were)
                                    muts.append(x)
            if not muts:
                continue
            # a mutation after which the pass leaves the loop does not count
            muts = [m_ for m_ in muts if not _leaves_loop_after(m_, loop)]
            if not muts:
                continue
            # the loop iterating over the snapshot itself (for k in
            # list(d): del d[k]) is the purpose of a snapshot
            if isinstance(loop, ast.For) and any(
                    x is r for r in reads for x in ast.walk(loop.iter)):
                continue
            # len() taken on purpose to bound a loop over the old part
            if isinstance(val.func, ast.Name) and val.func.id == "len":
                continue
            out.append((reads[0], "%s = %s is computed once, before the "
                        "loop at line %d, but the loop changes %s (line %d) "
                        "and reads %s on every pass: from the second pass "
                        "on it no longer describes %s" % (
                            v, _txt(val, 40), loop.lineno, src,
                            muts[0].lineno, v, src)))
            break
    return out


# --------------------------------------------------------------------------
# FINALLYLOST
# --------------------------------------------------------------------------
def finallylost(fn):
    """``try: A  except Exception: X; raise`` followed by ``X``: a clean-up
    written twice in place of ``finally``.  It runs when A succeeds and when
    A raises an Exception - but not when A is left by KeyboardInterrupt,
    SystemExit or GeneratorExit (a ``with`` block interrupted, a generator
    closed), which ``finally`` covers: the clean-up (popping a stack,
    releasing a lock) is then skipped and the state it guards stays as it
    was."""
    out = []
    for holder in [fn] + list(_own_nodes(fn)):
        if holder is not fn and isinstance(holder, _FUNC + (ast.ClassDef,)):
            continue
        for field in ("body", "orelse", "finalbody"):
            blk = getattr(holder, field, None)
            if not (isinstance(blk, list) and blk and
                    isinstance(blk[0], ast.stmt)):
                continue
            for i, st in enumerate(blk[:-1]):
                if not isinstance(st, ast.Try) or st.finalbody or \
                        len(st.handlers) != 1:
                    continue
                h = st.handlers[0]
                if h.type is None or _txt(h.type) != "Exception":
                    continue
                if not (len(h.body) >= 2 and isinstance(h.body[-1],
                                                         ast.Raise) and
                        h.body[-1].exc is None):
                    continue
                cleanup = h.body[:-1]
                after = blk[i + 1:i + 1 + len(cleanup)]
                if len(after) != len(cleanup):
                    continue

                def core_call(s_):
                    # the call a statement makes, whatever is done with its
                    # value (x.pop() / removed = x.pop())
                    v = s_.value if isinstance(s_, (ast.Expr, ast.Assign,
                                                    ast.Return)) else None
                    return ast.dump(v) if isinstance(v, ast.Call) else \
                        ast.dump(s_)
                if [core_call(a) for a in cleanup] != \
                        [core_call(b) for b in after]:
                    continue
                out.append((st, "the clean-up '%s' is written once under "
                            "'except Exception: ...; raise' and once after "
                            "the try statement (line %d) instead of under "
                            "'finally': when the guarded block is left by "
                            "KeyboardInterrupt, SystemExit or GeneratorExit "
                            "neither copy runs" % (_txt(cleanup[0], 40),
                                                   after[0].lineno)))
    return out


# --------------------------------------------------------------------------
# STALEDEP
# --------------------------------------------------------------------------
def staledep(fn):
    """A collection worked out from the attributes of an object before a
    loop (``below = [.. for e in merge.table[merge.index:]]``), read inside
    the loop, while the loop binds the object's name to a new object
    (``merge = _Merge(..)``) and never works the collection out again: from
    the pass that re-binds the name on, the collection describes an object
    that is no longer the one in hand."""
    out = []
    params = {a.arg for a in ast.walk(fn.args) if isinstance(a, ast.arg)}
    own = list(_own_nodes(fn))
    top_loops = [n for n in own if isinstance(n, (ast.For, ast.While))
                 and not list(_loops_above(n, fn))]
    for L in top_loops:
        rebound_by_call = set()
        stored_in_L = set()
        for b in L.body:
            for x in _walk_scope(b):
                if isinstance(x, ast.Name) and isinstance(x.ctx, ast.Store):
                    stored_in_L.add(x.id)
                if isinstance(x, ast.Assign) and len(x.targets) == 1 and \
                        isinstance(x.targets[0], ast.Name) and \
                        isinstance(x.value, ast.Call):
                    rebound_by_call.add(x.targets[0].id)
                # mutated in place inside L: the collection is kept up
                if isinstance(x, ast.Call) and isinstance(
                        x.func, ast.Attribute) and isinstance(
                            x.func.value, ast.Name) and \
                        x.func.attr in _SIZE_CHANGERS | {"sort", "reverse"}:
                    stored_in_L.add(x.func.value.id)
                if isinstance(x, (ast.Assign, ast.AugAssign, ast.Delete)):
                    tg = x.targets if not isinstance(x, ast.AugAssign) \
                        else [x.target]
                    for t in tg:
                        if isinstance(t, ast.Subscript) and isinstance(
                                t.value, ast.Name):
                            stored_in_L.add(t.value.id)
        if isinstance(L, ast.For):
            stored_in_L |= set(_names_stored(L.target))
        if not rebound_by_call:
            continue
        reads = {}
        for b in L.body:
            for x in _walk_scope(b):
                if isinstance(x, ast.Name) and isinstance(x.ctx, ast.Load):
                    reads.setdefault(x.id, x)
        for v, site in sorted(reads.items()):
            if v in stored_in_L or v in params:
                continue
            # the statements before L that build v
            builders = []
            for st in own:
                if not isinstance(st, ast.stmt) or _inside(st, L) or \
                        (st.lineno, st.col_offset) >= (L.lineno,
                                                       L.col_offset):
                    continue
                if isinstance(st, ast.Assign) and any(
                        _is_name(t, v) for t in st.targets):
                    builders.append(st)
                elif isinstance(st, ast.Expr) and isinstance(
                        st.value, ast.Call) and isinstance(
                            st.value.func, ast.Attribute) and \
                        _is_name(st.value.func.value, v) and \
                        st.value.func.attr in _SIZE_CHANGERS:
                    builders.append(st)
                    for q in _loops_above(st, fn):
                        builders.append(q)
            if not builders:
                continue
            # a collection: some builder makes a display / comprehension /
            # list() / set() / dict() or grows it
            def collection(st):
                if isinstance(st, ast.Expr):
                    return True
                val = getattr(st, "value", None)
                return isinstance(val, (ast.List, ast.Set, ast.Dict,
                                        ast.ListComp, ast.SetComp,
                                        ast.DictComp)) or (
                    isinstance(val, ast.Call) and isinstance(
                        val.func, ast.Name) and val.func.id in _MUT_CTORS)
            if not any(collection(st) for st in builders
                       if isinstance(st, ast.stmt) and
                       not isinstance(st, (ast.For, ast.While))):
                continue
            dep_attrs = {}
            for st in builders:
                exprs = [st.iter] if isinstance(st, ast.For) else \
                    [st.test] if isinstance(st, ast.While) else [st]
                for e in exprs:
                    for x in ast.walk(e):
                        if isinstance(x, ast.Attribute) and isinstance(
                                x.ctx, ast.Load) and isinstance(
                                    x.value, ast.Name):
                            dep_attrs.setdefault(x.value.id, x)
                        elif isinstance(x, ast.Call) and not (
                                isinstance(x.func, ast.Name) and
                                x.func.id in _MUT_CTORS | {"len", "sorted",
                                                           "tuple"}):
                            # the object handed whole to a function whose
                            # result is collected: list(f(merge, aliases))
                            for a in x.args:
                                if isinstance(a, ast.Name):
                                    dep_attrs.setdefault(a.id, a)
            hits = [m_ for m_ in dep_attrs if m_ in rebound_by_call and
                    m_ not in ("self", "cls")]
            if not hits:
                continue
            # only a collection that the loop goes through as a whole
            # (for .. in v, a comprehension over v): a table looked up by
            # key (v[k]) may well be valid for every object to come
            uses = [x for b in L.body for x in _walk_scope(b)
                    if isinstance(x, ast.Name) and x.id == v and
                    isinstance(x.ctx, ast.Load)]
            if not uses or not all(
                    isinstance(u._parent, (ast.For, ast.comprehension)) and
                    u._parent.iter is u for u in uses):
                continue
            m_ = hits[0]
            out.append((site, "%s is worked out before the loop at line %d "
                        "from %s.%s (line %d); the loop binds %s to a new "
                        "object and goes on reading %s without working it "
                        "out again: it describes the object %s named before"
                        % (v, L.lineno, m_, getattr(dep_attrs[m_], "attr",
                                                     "<as an argument>"),
                           dep_attrs[m_].lineno, m_, v, m_)))
    return out


# --------------------------------------------------------------------------
# MEMOKEY
# --------------------------------------------------------------------------
def memokey(fn):
    """A function that looks a key up in a table it did not make (a
    parameter, a module-level name, an attribute), returns / uses what it
    finds and otherwise stores a freshly computed value under that key: the
    value must be determined by the key.  Reported when the value computed
    depends on a parameter of the function that the key does not (the
    parameter is left out of the key): two calls that differ only in that
    parameter share one entry, and the second gets the first one's
    answer."""
    out = []
    a = fn.args
    params = [x.arg for x in a.posonlyargs + a.args + a.kwonlyargs]
    pset = set(params) - {"self", "cls"}
    if not pset:
        return out
    # locals -> parameters they are computed from (single pass, repeated)
    deps = {p_: {p_} for p_ in pset}
    assigns = [n for n in _own_nodes(fn) if isinstance(n, (ast.Assign,
                                                             ast.AugAssign,
                                                             ast.For))]

    def expr_deps(e):
        d = set()
        for x in ast.walk(e):
            if isinstance(x, ast.Name) and isinstance(x.ctx, ast.Load):
                d |= deps.get(x.id, set())
        return d
    for _ in range(4):
        for n in assigns:
            if isinstance(n, ast.For):
                src = expr_deps(n.iter)
                tgts = _names_stored(n.target)
            elif isinstance(n, ast.AugAssign):
                src = expr_deps(n.value)
                tgts = _names_stored(n.target)
            else:
                src = expr_deps(n.value)
                tgts = [x for t in n.targets for x in _names_stored(t)]
            for t in tgts:
                if t not in pset:
                    deps[t] = deps.get(t, set()) | src
    fresh = set()
    for n in _own_nodes(fn):
        if isinstance(n, ast.Assign) and len(n.targets) == 1 and \
                isinstance(n.targets[0], ast.Name) and \
                _fresh_mutable(n.value, fn):
            fresh.add(n.targets[0].id)
    for st in _own_nodes(fn):
        if not (isinstance(st, ast.Assign) and len(st.targets) == 1 and
                isinstance(st.targets[0], ast.Subscript)):
            continue
        tgt = st.targets[0]
        cont = tgt.value
        root = cont
        while isinstance(root, ast.Attribute):
            root = root.value
        if not isinstance(root, ast.Name) or root.id in fresh:
            continue
        if isinstance(cont, ast.Name) and cont.id not in params and any(
                isinstance(x, ast.Name) and x.id == cont.id and
                isinstance(x.ctx, ast.Store) for x in _own_nodes(fn)):
            continue            # a table made here
        kd = ast.dump(tgt.slice)
        cd = ast.dump(cont)
        # the same key looked up in the same table elsewhere in fn
        looked = False
        for n in _own_nodes(fn):
            if isinstance(n, ast.Subscript) and isinstance(n.ctx, ast.Load) \
                    and ast.dump(n.value) == cd and ast.dump(n.slice) == kd:
                looked = True
            elif isinstance(n, ast.Compare) and len(n.ops) == 1 and \
                    isinstance(n.ops[0], (ast.In, ast.NotIn)) and \
                    ast.dump(n.comparators[0]) == cd and \
                    ast.dump(n.left) == kd:
                looked = True
            elif isinstance(n, ast.Call) and isinstance(
                    n.func, ast.Attribute) and n.func.attr == "get" and \
                    ast.dump(n.func.value) == cd and n.args and \
                    ast.dump(n.args[0]) == kd:
                looked = True
        if not looked:
            continue
        # ... and what is found there is what the function answers with
        # (``return table[key]`` / ``v = table[key]`` ... ``return v``): a
        # read-modify-write of a table entry is not a memo
        def is_lookup(e):
            if isinstance(e, ast.Subscript) and ast.dump(e.value) == cd \
                    and ast.dump(e.slice) == kd:
                return True
            return isinstance(e, ast.Call) and isinstance(
                e.func, ast.Attribute) and e.func.attr == "get" and \
                ast.dump(e.func.value) == cd and bool(e.args) and \
                ast.dump(e.args[0]) == kd
        answered = False
        for r in _own_nodes(fn):
            if not isinstance(r, (ast.Return, ast.Yield)) or \
                    r.value is None:
                continue
            if is_lookup(r.value):
                answered = True
            elif isinstance(r.value, ast.Name):
                for n in _own_nodes(fn):
                    if isinstance(n, ast.Assign) and len(n.targets) == 1 \
                            and _is_name(n.targets[0], r.value.id) and \
                            is_lookup(n.value):
                        answered = True
        if not answered:
            continue
        kdeps = expr_deps(tgt.slice)
        vdeps = expr_deps(st.value)
        missing = vdeps - kdeps - {root.id}
        if not missing or not kdeps:
            continue
        out.append((st, "%s files a value under the key %s and looks the "
                    "same key up to answer later calls, but the value is "
                    "computed from %s too, which the key leaves out: calls "
                    "that differ only there share one entry" % (
                        fn.name, _txt(tgt.slice, 40),
                        ", ".join(sorted(missing)))))
    return out


# --------------------------------------------------------------------------
# PACKKEY
# --------------------------------------------------------------------------
def packkey(fn):
    """Several values packed into one integer that is then used as the key of
    a table (``table[x + (y << 8) + (z << 8)]``): the packing identifies the
    tuple only if every value has a position of its own.  Reported when two
    different values are shifted to the same position: tuples that differ
    only by moving an amount from one of them to the other get one key."""
    out = []
    binds = {}
    for n in _own_nodes(fn):
        if isinstance(n, ast.Name) and isinstance(n.ctx, (ast.Store,
                                                           ast.Del)):
            binds.setdefault(n.id, []).append(n)

    def resolve(e):
        if isinstance(e, ast.Name) and len(binds.get(e.id, ())) == 1:
            st = binds[e.id][0]._parent
            if isinstance(st, ast.Assign) and len(st.targets) == 1 and \
                    st.targets[0] is binds[e.id][0]:
                return st.value
        return e

    def flatten(e, acc):
        if isinstance(e, ast.BinOp) and isinstance(e.op, (ast.Add,
                                                           ast.BitOr)):
            return flatten(e.left, acc) and flatten(e.right, acc)
        sh = 0
        if isinstance(e, ast.BinOp) and isinstance(e.op, ast.LShift) and \
                isinstance(e.right, ast.Constant) and \
                isinstance(e.right.value, int):
            sh, e = e.right.value, e.left
        elif isinstance(e, ast.BinOp) and isinstance(e.op, ast.Mult) and \
                isinstance(e.right, ast.Constant) and \
                isinstance(e.right.value, int) and e.right.value > 1 and \
                e.right.value & (e.right.value - 1) == 0:
            sh, e = e.right.value.bit_length() - 1, e.left
        if isinstance(e, ast.BinOp) and isinstance(e.op, ast.BitAnd) and \
                isinstance(e.right, ast.Constant):
            e = e.left
        if not isinstance(e, (ast.Name, ast.Attribute)):
            return False
        acc.append((ast.dump(e), sh, e))
        return True
    seen = set()
    for n in _own_nodes(fn):
        key = None
        if isinstance(n, ast.Subscript) and isinstance(
                n.value, (ast.Name, ast.Attribute)):
            key = n.slice
        elif isinstance(n, ast.Compare) and len(n.ops) == 1 and isinstance(
                n.ops[0], (ast.In, ast.NotIn)):
            key = n.left
        elif isinstance(n, ast.Call) and isinstance(n.func, ast.Attribute) \
                and n.func.attr in ("get", "setdefault", "pop") and n.args:
            key = n.args[0]
        if key is None:
            continue
        e = resolve(key)
        if id(e) in seen:
            continue
        seen.add(id(e))
        acc = []
        if not flatten(e, acc) or len(acc) < 2 or \
                not any(sh for _, sh, _ in acc):
            continue
        for i, (d1, s1, e1) in enumerate(acc):
            for d2, s2, e2 in acc[i + 1:]:
                if d1 != d2 and s1 == s2 and s1 > 0:
                    out.append((e, "the key %s packs %s and %s at the same "
                                "position (<< %d): different tuples of "
                                "values get the same key, and the entry "
                                "filed for one is found for the other" % (
                                    _txt(e, 50), _txt(e1, 20), _txt(e2, 20),
                                    s1)))
    return out


# --------------------------------------------------------------------------
# REFORMAT
# --------------------------------------------------------------------------
def _formats_param(fn):
    """Parameters of fn that fn itself uses as a format template
    (``p.format(...)`` / ``p % ...``) without rebinding them."""
    a = fn.args
    params = [x.arg for x in a.posonlyargs + a.args + a.kwonlyargs]
    rebound = {n.id for n in _own_nodes(fn) if isinstance(n, ast.Name) and
               isinstance(n.ctx, (ast.Store, ast.Del))}
    out = set()
    for n in _own_nodes(fn):
        if isinstance(n, ast.Call) and isinstance(n.func, ast.Attribute) \
                and n.func.attr == "format" and isinstance(
                    n.func.value, ast.Name) and n.func.value.id in params \
                and n.func.value.id not in rebound:
            out.add(n.func.value.id)
        elif isinstance(n, ast.BinOp) and isinstance(n.op, ast.Mod) and \
                isinstance(n.left, ast.Name) and n.left.id in params and \
                n.left.id not in rebound and isinstance(
                    n.right, (ast.Tuple, ast.Dict)):
            out.add(n.left.id)
    return out


def _already_formatted(e):
    if isinstance(e, ast.Call) and isinstance(e.func, ast.Attribute) and \
            e.func.attr == "format" and e.args + [k.value for k in
                                                  e.keywords]:
        return "str.format"
    if isinstance(e, ast.BinOp) and isinstance(e.op, ast.Mod) and \
            isinstance(e.left, ast.Constant) and isinstance(
                e.left.value, str):
        return "%"
    if isinstance(e, ast.JoinedStr) and any(
            isinstance(v, ast.FormattedValue) for v in e.values):
        return "an f-string"
    return None


def reformat(program, m):
    """A text that the caller has already formatted (``"..{}..".format(v)``)
    is handed to a function or exception class that formats its argument
    again: whatever the first formatting put into the text is now read as
    part of a template - a brace in a value (the repr of a set or dict, a
    name like 'dtcm{0}') is a field, and the call raises KeyError /
    IndexError / ValueError instead of doing what it was called for."""
    out = []
    for c in ast.walk(m.tree):
        if not isinstance(c, ast.Call) or not isinstance(c.func, ast.Name):
            continue
        nm = c.func.id
        d = m.defs.get(nm)
        if d is None and ":" in m.imports.get(nm, ""):
            mod2, _, nm2 = m.imports[nm].partition(":")
            m2 = program.full(mod2) if hasattr(program, "full") else \
                program.modules.get(mod2)
            d = m2.defs.get(nm2) if m2 is not None else None
        if d is None or not isinstance(getattr(d, "_parent", None),
                                       ast.Module):
            continue
        drop = 0
        if isinstance(d, ast.ClassDef):
            inits = [x for x in d.body if isinstance(x, _FUNC) and
                     x.name == "__init__"]
            if len(inits) != 1:
                continue
            d, drop = inits[0], 1
        elif not isinstance(d, _FUNC):
            continue
        tmpl = _formats_param(d)
        if not tmpl:
            continue
        a = d.args
        pos = [x.arg for x in a.posonlyargs + a.args][drop:]
        given = {}
        for i, x in enumerate(c.args):
            if isinstance(x, ast.Starred):
                break
            if i < len(pos):
                given[pos[i]] = x
        for k in c.keywords:
            if k.arg:
                given[k.arg] = k.value
        for pn, x in given.items():
            how = _already_formatted(x)
            if pn in tmpl and how:
                out.append((c, "%s is given a text already formatted with "
                            "%s, and formats its parameter '%s' again: a "
                            "brace or percent sign that the first "
                            "formatting put into the text (the repr of a "
                            "set, a name with braces) is read as a field - "
                            "KeyError / IndexError / ValueError instead of "
                            "the call's own effect" % (nm, how, pn), nm))
    return out


# --------------------------------------------------------------------------
# DEFAULTLEAK
# --------------------------------------------------------------------------
def defaultleak(fn):
    """A parameter whose default is a mutable object made once, when the
    function is defined (``aliases=dict()``, ``acc=[]``), is handed back to
    the caller (returned / yielded, alone or in a tuple) or stored in an
    object on a path that has not re-bound it to a fresh one: every caller
    that relies on the default gets the *same* object, and what one of them
    puts into it is there for all later calls."""
    out = []
    a = fn.args
    pos = a.posonlyargs + a.args
    defaults = dict(zip([x.arg for x in pos][len(pos) - len(a.defaults):],
                        a.defaults))
    for x, d in zip(a.kwonlyargs, a.kw_defaults):
        if d is not None:
            defaults[x.arg] = d

    def made_once(d):
        return isinstance(d, (ast.Dict, ast.List, ast.Set)) or (
            isinstance(d, ast.Call) and isinstance(d.func, ast.Name) and
            d.func.id in _MUT_CTORS)
    mut = sorted(p_ for p_, d in defaults.items() if made_once(d))
    if not mut:
        return out
    try:
        cfg = cfg_of(fn)
    except Exception:
        return out
    for p_ in mut:
        loads, rebinds = [], []
        for n in _own_nodes(fn):
            if isinstance(n, ast.Name) and n.id == p_:
                if isinstance(n.ctx, ast.Load):
                    loads.append(n)
                else:
                    try:
                        rebinds.append(cfg.node_containing(n))
                    except Exception:
                        rebinds = None
                        break
        if rebinds is None:
            continue
        for n in loads:
            top = n
            while isinstance(getattr(top, "_parent", None), (ast.Tuple,
                                                              ast.List)):
                top = top._parent
            q = getattr(top, "_parent", None)
            how = None
            if isinstance(q, (ast.Return, ast.Yield)) and q.value is top:
                how = "handed back to the caller"
            elif isinstance(q, ast.Assign) and q.value is top and any(
                    isinstance(t, (ast.Attribute, ast.Subscript))
                    for t in q.targets):
                how = "stored (%s)" % _txt(q.targets[0], 30)
            if how is None:
                continue
            try:
                node = cfg.node_containing(n)
            except Exception:
                continue
            if node is cfg.entry or cfg.reaches(cfg.entry, node,
                                                avoid=rebinds):
                out.append((n, "%s is %s at line %d on a path that has not "
                            "replaced it by a fresh object: when the caller "
                            "leaves it out, that is the one %s made when "
                            "%s was defined - shared by all such calls, so "
                            "what a caller puts into the result shows up "
                            "in later calls" % (
                                p_, how, n.lineno, _txt(defaults[p_], 20),
                                fn.name)))
    return out


# --------------------------------------------------------------------------
# SHALLOWCACHE
# --------------------------------------------------------------------------
def _mutable_attr_classes(m):
    """Classes of module m whose instances hold a mutable container in an
    attribute set by a method (``self.fields = OrderedDict()``)."""
    out = {}
    for cls in ast.walk(m.tree):
        if not isinstance(cls, ast.ClassDef):
            continue
        for fn in cls.body:
            if not isinstance(fn, _FUNC):
                continue
            for n in ast.walk(fn):
                if isinstance(n, ast.Assign) and len(n.targets) == 1 and \
                        isinstance(n.targets[0], ast.Attribute) and \
                        _is_name(n.targets[0].value, "self") and (
                            isinstance(n.value, (ast.Dict, ast.List, ast.Set,
                                                 ast.ListComp, ast.DictComp,
                                                 ast.SetComp)) or (
                                isinstance(n.value, ast.Call) and
                                isinstance(n.value.func, ast.Name) and
                                n.value.func.id in _MUT_CTORS)):
                    out.setdefault(cls.name, n.targets[0].attr)
    return out


def shallowcache(program, m, fn):
    """A function keeps what it has built in a table that outlives the call
    (module level, or an attribute) and hands out ``copy.copy()`` of the
    objects kept there, while those objects are instances of a class of the
    module that holds a mutable container in an attribute: the copy shares
    that container with the cached object, so what one caller changes
    through its copy is there for every later caller."""
    out = []
    cache = program.__dict__.setdefault("_slips_mc", {})
    if "mc" not in cache:
        mc_, made_ = {}, set()
        for m2 in program.modules.values():
            mc_.update(_mutable_attr_classes(m2))
        for m2 in program.modules.values():
            for c in ast.walk(m2.tree):
                if isinstance(c, ast.Call):
                    nm = c.func.id if isinstance(c.func, ast.Name) else (
                        c.func.attr if isinstance(c.func, ast.Attribute)
                        else None)
                    if nm in mc_:
                        made_.add(nm)
        cache["mc"], cache["made"] = mc_, sorted(made_)
    mc, made = cache["mc"], cache["made"]
    # (classes of the package that hold a mutable container in an attribute
    # and of which the package makes instances)
    if not mc or not made:
        return out
    # prefer a class of this module for the message
    here = [c for c in made if c in _mutable_attr_classes(m)]
    made = here or made
    # fn stores into a table that is not made in fn
    stored = None
    for st in _own_nodes(fn):
        if isinstance(st, ast.Assign) and len(st.targets) == 1 and \
                isinstance(st.targets[0], ast.Subscript):
            root = st.targets[0].value
            while isinstance(root, ast.Attribute):
                root = root.value
            if isinstance(root, ast.Name) and not any(
                    isinstance(x, ast.Name) and x.id == root.id and
                    isinstance(x.ctx, ast.Store) for x in _own_nodes(fn)) \
                    and root.id not in {a.arg for a in ast.walk(fn.args)
                                        if isinstance(a, ast.arg)}:
                stored = st
    if stored is None:
        return out
    for r in [fn]:
        for c in _own_nodes(fn, into_lambdas=True):
            if isinstance(c, ast.Call) and (
                    (isinstance(c.func, ast.Attribute) and
                     c.func.attr == "copy" and
                     _is_name(c.func.value, "copy") and c.args) or
                    (isinstance(c.func, ast.Name) and c.func.id == "copy"
                     and c.args)):
                out.append((c, "%s keeps what it builds in %s (line %d) and "
                            "hands out copy.copy() of the objects kept "
                            "there; instances of %s hold a mutable "
                            "container in .%s, which a shallow copy shares "
                            "with the cached object: a change made through "
                            "one result shows in every later one" % (
                                fn.name, _txt(stored.targets[0].value, 30),
                                stored.lineno, made[0], mc[made[0]])))
                return out
    return out


# --------------------------------------------------------------------------
# AXISORDER
# --------------------------------------------------------------------------
def _axis_of(name):
    import re
    m = re.search(r"(?:^|_)([xyz])\d?$", name)
    return m.group(1) if m else None


def axisorder(fn):
    """The pairs of one collection are unpacked in one place as ``x, ..``
    and in another as ``y, ..`` (``max(x for x, _ in chips)`` ... ``max(y
    for y, _ in chips)``): one position of the pair is given the names of
    two different coordinates - one of the two reads the wrong one."""
    out = []
    seen = {}       # dump of iterable -> {position: (axis, node)}
    for n in _own_nodes(fn, into_lambdas=True):
        it = tg = None
        if isinstance(n, (ast.For, ast.comprehension)):
            it, tg = n.iter, n.target
        if it is None or not isinstance(tg, (ast.Tuple, ast.List)) or \
                not isinstance(it, (ast.Name, ast.Attribute)):
            continue
        key = (ast.dump(it), len(tg.elts))
        for i, t in enumerate(tg.elts):
            if not isinstance(t, ast.Name):
                continue
            ax = _axis_of(t.id)
            if ax is None:
                continue
            prev = seen.setdefault(key, {}).get(i)
            if prev is not None and prev[0] != ax:
                out.append((t, "item %d of the elements of %s is called "
                            "%s here and %s at line %d: the same position "
                            "of the pair is read as two different "
                            "coordinates" % (i, _txt(it, 30), t.id,
                                             prev[1].id, prev[1].lineno)))
            elif prev is None:
                seen[key][i] = (ax, t)
    return out


# --------------------------------------------------------------------------
# CACHEDMUT
# --------------------------------------------------------------------------
_MUT_CTORS = {"dict", "list", "set", "bytearray", "defaultdict",
              "OrderedDict", "deque", "Counter"}


def _fresh_mutable(e, fn, depth=0):
    """Is e certainly a mutable object made in fn (a display, a
    comprehension, a container constructor, an instance of a package class,
    or a local bound only to such)?"""
    if isinstance(e, (ast.Dict, ast.List, ast.Set, ast.ListComp,
                      ast.DictComp, ast.SetComp)):
        return True
    if isinstance(e, ast.Call) and isinstance(e.func, ast.Name) and \
            e.func.id in _MUT_CTORS:
        return True
    if isinstance(e, ast.Name) and depth < 3:
        vals = [n._parent.value for n in _own_nodes(fn)
                if isinstance(n, ast.Name) and n.id == e.id and
                isinstance(n.ctx, ast.Store) and
                isinstance(n._parent, ast.Assign) and
                len(n._parent.targets) == 1 and n._parent.targets[0] is n]
        stores = [n for n in _own_nodes(fn) if isinstance(n, ast.Name) and
                  n.id == e.id and isinstance(n.ctx, ast.Store)]
        return bool(vals) and len(vals) == len(stores) and all(
            _fresh_mutable(v, fn, depth + 1) for v in vals)
    return False


def cachedmut(fn):
    """A function under functools.lru_cache / cache (or a decorator named
    memoize / memoized / cached) that returns a mutable object it made:
    every caller with the same arguments gets the *same* object, so what
    one caller does to it is seen by the next."""
    decos = [_txt(d.func if isinstance(d, ast.Call) else d)
             for d in fn.decorator_list]
    hit = [d for d in decos if d.split(".")[-1] in (
        "lru_cache", "cache", "memoize", "memoized", "cached",
        "cached_property")]
    if not hit:
        return []
    out = []
    # ... or whose result depends on something outside its arguments (the
    # contents of a file, the clock, a random draw): the cache goes on
    # answering with what was true at the first call
    for c in _own_nodes(fn):
        if isinstance(c, ast.Call):
            f = c.func
            nm = f.id if isinstance(f, ast.Name) else None
            root = f
            while isinstance(root, ast.Attribute):
                root = root.value
            rn = root.id if isinstance(root, ast.Name) else None
            if nm == "open" or (isinstance(f, ast.Attribute) and rn in (
                    "os", "time", "random", "socket", "io", "pkg_resources")
                    and f.attr not in ("join", "basename", "dirname",
                                       "splitext", "resource_filename")):
                out.append((c, "%s is decorated with %s but its result "
                            "depends on %s, which is not among its "
                            "arguments: later calls with the same "
                            "arguments get the answer of the first call, "
                            "whatever has changed since (a file rebuilt, "
                            "time passed)" % (fn.name, hit[0], _txt(c, 40))))
                return out
    for r in _own_nodes(fn):
        if isinstance(r, ast.Return) and r.value is not None and \
                _fresh_mutable(r.value, fn):
            out.append((r, "%s is decorated with %s and returns a mutable "
                        "object it has made (%s): the cache hands the very "
                        "same object to every later caller with the same "
                        "arguments, so a change made through one result - "
                        "by the caller or by the package itself - shows in "
                        "all of them" % (fn.name, hit[0], _txt(r.value, 40))))
            break
    return out


# --------------------------------------------------------------------------
# frozen exceptions (reference tree), keyed by kind / module / scope / name
# --------------------------------------------------------------------------
EXCEPTIONS = {}


def findings(program, modules):
    """[(kind, module, qualname, node-or-line, text)] over ``modules``."""
    classes = _Classes(program)
    genfns = _generator_functions(program)
    out = []
    stats = {"functions": 0, "calls": 0, "classes": 0}
    for mname in modules:
        m = program.full(mname) if hasattr(program, "full") else \
            program.modules.get(mname)
        if m is None:
            continue
        for line, nm, q in undef(program, m):
            out.append(("UNDEF", mname, q, line,
                        "%s reads the name '%s', which nothing binds (not "
                        "a local, not a name of the module, not a builtin): "
                        "NameError when line %d is reached" % (q, nm, line),
                        nm))
        for n, cname, attr in selfattr(program, classes, m):
            out.append(("SELFATTR", mname, cname, n,
                        "%s reads self.%s, but no method, base or subclass "
                        "of %s in the package ever defines an attribute of "
                        "that name: AttributeError" % (
                            getattr(_owner(n), "name", "?"), attr, cname),
                        attr))
        for c, desc, p in callsig(program, classes, m):
            o = _owner(c)
            while isinstance(o, ast.Lambda):
                o = _owner(o)
            out.append(("CALLSIG", mname, getattr(o, "name", "<module>"), c,
                        "call '%s' of %s: %s - TypeError when the call is "
                        "reached" % (_txt(c, 70), desc, p), desc))
        for c, text, nm in reformat(program, m):
            o = _owner(c)
            while isinstance(o, ast.Lambda):
                o = _owner(o)
            out.append(("REFORMAT", mname, getattr(o, "name", "<module>"), c,
                        text, nm))
        for q, d in sorted(m.defs.items()):
            if q == "__dups__" or not isinstance(d, _FUNC) or \
                    getattr(d, "_virtual", False):
                continue
            stats["functions"] += 1
            for kind, f in (("EXHAUST", lambda d=d: exhaust(program, m, d,
                                                            genfns)),
                            ("ITERMUT", lambda d=d: itermut(d)),
                            ("LATEBIND", lambda d=d: latebind(d)),
                            ("INTDIV", lambda d=d: intdiv(d)),
                            ("SHADOW", lambda d=d: shadow(d)),
                            ("SWALLOW", lambda d=d: swallow(d)),
                            ("UNBOUND", lambda d=d: unbound(d)),
                            ("CACHEDMUT", lambda d=d: cachedmut(d)),
                            ("SNAPSHOT", lambda d=d: snapshot(d)),
                            ("FINALLYLOST", lambda d=d: finallylost(d)),
                            ("STALEDEP", lambda d=d: staledep(d)),
                            ("MEMOKEY", lambda d=d: memokey(d)),
                            ("PACKKEY", lambda d=d: packkey(d)),
                            ("DEFAULTLEAK", lambda d=d: defaultleak(d)),
                            ("SHALLOWCACHE", lambda d=d: shallowcache(
                                program, m, d)),
                            ("AXISORDER", lambda d=d: axisorder(d))):
                for n, text in f():
                    out.append((kind, mname, q, n, text, _txt(n, 50)))
    return out, stats


_SELFTEST = []
KINDS = ("UNDEF", "SELFATTR", "CALLSIG", "EXHAUST", "ITERMUT", "LATEBIND",
         "INTDIV", "SHADOW", "SWALLOW", "UNBOUND", "CACHEDMUT", "SNAPSHOT",
         "FINALLYLOST", "STALEDEP", "MEMOKEY", "SHALLOWCACHE",
         "AXISORDER", "PACKKEY", "REFORMAT",
         "DEFAULTLEAK")


def selftest():
    """Every analysis must report its positive example (and nothing in the
    functions named *_ok*) in rigverif/slips_examples - on every run: a rule
    whose expected count on the library is zero must still be shown to
    match something."""
    if _SELFTEST:
        return _SELFTEST[0]
    import os
    from .core import Program, AnalysisError
    here = os.path.join(os.path.dirname(os.path.abspath(__file__)),
                        "slips_examples")
    prog = Program(here)
    res, _ = findings(prog, sorted(prog.modules))
    kinds = {}
    for kind, mname, q, n, text, key in res:
        kinds[kind] = kinds.get(kind, 0) + 1
        if "_ok" in q:
            raise AnalysisError("SLIPS self-test: %s reported in the "
                                "negative example %s" % (kind, q))
    missing = [k for k in KINDS if not kinds.get(k)]
    if missing:
        raise AnalysisError("SLIPS self-test: no report for the positive "
                            "example(s) of %s" % ", ".join(missing))
    _SELFTEST.append(kinds)
    return kinds


def rule(program, rep, rule_id, modules):
    kinds = selftest()
    rep.note("SLIPS self-test: %d reports over %d kinds in "
             "rigverif/slips_examples" % (sum(kinds.values()), len(kinds)))
    res, stats = findings(program, modules)
    for kind, mname, q, n, text, key in res:
        if (kind, mname, q, key) in EXCEPTIONS or \
                (kind, mname, q) in EXCEPTIONS:
            continue
        node = n if isinstance(n, ast.AST) else None
        rep.bad(rule_id, "%s:%s" % (mname, q), kind, text, node,
                positive=True)
    rep.ok(rule_id, ",".join(sorted(m for m in modules
                                    if m in program.modules)) or "-",
           "%d function(s): every name read is bound somewhere, self "
           "attributes exist, calls of package functions fit their "
           "parameter lists, no one-shot iterator is traversed twice or "
           "measured, no container changes size under its own loop, no "
           "stored closure reads a loop variable, no true division feeds "
           "an integer-only use, no inner loop clobbers an outer loop's "
           "variable, no new catch-all hides errors" % stats["functions"])
