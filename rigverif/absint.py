"""LININV engine: forward abstract interpretation of one function over
conjunctions of linear constraints (polyhedra with a weak join), with the
Fourier-Motzkin procedures of poly.py for projection and entailment.

State at a program point: a list of ``Con`` over atoms that denote the
*current* value of variables (plain names / dotted chains) and of composite
terms built from them (``len(x)``, ``min(a, b)``, ``e // d`` ...).  Ghost
atoms ``v@0`` denote the value of parameter ``v`` on entry.

  assignment   x = e      project x (and every composite mentioning x) out,
                          then add x = e; invertible updates x = x + e are
                          handled by substitution
  branch       assume nodes add the translated condition
  merge        weak join: keep the constraints of either side (and of the
               candidate pool given by the rule) that the other side entails
  loops        iterate to a fixpoint (the weak join makes the chain finite)

This is the classic relational numeric domain; it quantifies over all values
and all paths, never enumerates paths, never runs the code.
"""
import ast
import os

from .core import AnalysisError, unparse
from .dataflow import Flow, chain, call_name, _walk_no_scopes, order_splits
from .poly import Poly, Con, le, lt, feasible, entails, _tighten


class CurFlow(Flow):
    """sym() in 'current value' mode: variables are atoms named after
    themselves; composite atoms record which variables they depend on."""

    def __init__(self, fn, inline_props=None, inline_methods=None, **kw):
        self.atom_vars = {}
        kw["inline_props"] = inline_props
        kw["inline_methods"] = inline_methods
        a = fn.args
        self._params = set(x.arg for x in a.posonlyargs + a.args +
                           a.kwonlyargs)
        super(CurFlow, self).__init__(fn, **kw)

    def symvar(self, var, node, depth=0):
        if var in self.inline_props and depth < 30:
            return self.sym(self.inline_props[var], node, depth + 1)
        if self.consts is not None and var.split(".")[0] not in self.allvars \
                and var.split(".")[0] not in self._params:
            c = self.consts(var)
            if isinstance(c, int) and not isinstance(c, bool):
                return Poly.const(c)
        self.atom_vars.setdefault(var, set()).add(var)
        return Poly.atom(var)

    def _atom(self, name, locs, info=None):
        self.atom_vars.setdefault(name, set())
        if info is not None:
            self.atom_info[name] = info
        return Poly.atom(name)

    def _composite(self, name, parts, info):
        deps = self.atom_vars.setdefault(name, set())
        for p in parts:
            if isinstance(p, Poly):
                for a in p.atoms():
                    deps |= self.atom_vars.get(a, {a})
        if info is not None and info[0] in ("ite", "cond"):
            test = info[1]
            for sub in ast.walk(test):
                c = chain(sub)
                if c is not None:
                    if c in self.inline_props:
                        for s2 in ast.walk(self.inline_props[c]):
                            c2 = chain(s2)
                            if c2:
                                deps.add(c2)
                    deps.add(c)
        if info is not None:
            self.atom_info[name] = info
        return Poly.atom(name)

    def _available(self, *a):
        return True

    # -- None-ness as a 0/1 atom --------------------------------------------
    def isnone(self, var):
        name = "isnone(%s)" % var
        self.atom_vars.setdefault(name, set()).add(var)
        return Poly.atom(name)

    def cond_constraints(self, cond, polarity, at):
        if isinstance(cond, ast.Compare) and len(cond.ops) == 1 and \
                isinstance(cond.ops[0], (ast.Is, ast.IsNot)) and \
                isinstance(cond.comparators[0], ast.Constant) and \
                cond.comparators[0].value is None:
            c = chain(cond.left)
            if c is not None:
                c = self._alias_of(c)
                is_none = polarity == isinstance(cond.ops[0], ast.Is)
                a = self.isnone(c)
                v = 1 if is_none else 0
                return [le(a, v), le(v, a)]
        return super(CurFlow, self).cond_constraints(cond, polarity, at)

    def _alias_of(self, c):
        return c


def _depends(flow, atom, var):
    """Does atom's value depend on variable ``var`` (or a sub-attribute)?"""
    for v in flow.atom_vars.get(atom, {atom}):
        if v == var or v.startswith(var + ".") or \
                (var == "self.*" and v.startswith("self.")):
            return True
        # assigning x.y changes what "x.y" denotes only; but a *mutation*
        # of container x invalidates len(x), x[i] - those atoms list x.
    return False


def eliminate(cons, atoms, limit=400):
    """Project the given atoms (monomial variables containing them) out."""
    rows = [(dict(c.p.t), c.strict, c.why) for c in cons]
    for atom in atoms:
        mons = set()
        for r, _, _ in rows:
            for m in r:
                if atom in m:
                    mons.add(m)
        for v in mons:
            pos = [x for x in rows if x[0].get(v, 0) > 0]
            neg = [x for x in rows if x[0].get(v, 0) < 0]
            rest = [x for x in rows if x[0].get(v, 0) == 0]
            new = list(rest)
            if len(pos) * len(neg) > limit:
                rows = rest
                continue
            for rp, sp, wp in pos:
                for rn, sn, wn in neg:
                    a = rp[v]
                    b = -rn[v]
                    row = {}
                    for m, c in rp.items():
                        if m != v:
                            row[m] = row.get(m, 0) + c * b
                    for m, c in rn.items():
                        if m != v:
                            row[m] = row.get(m, 0) + c * a
                    row = {m: c for m, c in row.items() if c != 0}
                    if not any(m != () for m in row):
                        continue
                    new.append((row, sp or sn, wp or wn))
            seen = set()
            rows = []
            for r, s, w in new:
                k = (tuple(sorted(r.items())), s)
                if k not in seen:
                    seen.add(k)
                    rows.append((r, s, w))
    return [Con(Poly(r), s, w) for r, s, w in rows]


def _norm(con):
    """Scale to integer, gcd-reduced coefficients (for de-duplication)."""
    from math import gcd
    t = con.p.t
    if not t:
        return con
    den = 1
    for c in t.values():
        den = den * c.denominator // gcd(den, c.denominator)
    g = 0
    for m, c in t.items():
        g = gcd(g, abs(int(c * den)))
    if g == 0:
        return con
    k = den
    return Con(Poly({m: c * k / g for m, c in t.items()}), con.strict,
               con.why)


def dedupe(cons):
    seen = set()
    out = []
    for c in cons:
        k = c.row(True)
        if k not in seen:
            seen.add(k)
            out.append(c)
    return out


def prune(cons, integer=True, cap=60):
    """Drop constraints entailed by the others when the set grows large."""
    cons = dedupe(cons)
    if len(cons) <= cap:
        return cons
    out = list(cons)
    i = 0
    while i < len(out) and len(out) > cap // 2:
        c = out[i]
        others = out[:i] + out[i + 1:]
        if entails(others, c, integer):
            out = others
        else:
            i += 1
    return out


def _pair_sums(cons, limit=40):
    """Sums of two constraints over at most two atoms each that cancel an
    atom: candidates for a join, each still checked against both sides."""
    out = []
    two = [c for c in cons if 1 <= len(c.p.atoms()) <= 2]
    for i, c1 in enumerate(two):
        a1 = set(c1.p.atoms())
        for c2 in two[i + 1:]:
            a2 = set(c2.p.atoms())
            if not (a1 & a2):
                continue
            s_ = c1.p + c2.p
            n_ = len(s_.atoms())
            if n_ < len(a1 | a2) and 1 <= n_ <= 2:
                out.append(Con(s_, c1.strict or c2.strict))
                if len(out) >= limit:
                    return out
    return out


class Interp(object):
    def __init__(self, fn, entry_cons=(), candidates=(), inline_props=None,
                 pure_self_methods=(), pure_calls=(), integer=True,
                 nonneg=(), assume_asserts=True, ghost_params=True,
                 call_effects=None, max_rounds=12, consts=None,
                 hypotheses=(), inline_methods=None):
        self.fn = fn
        self._no_ifexp_split = bool(os.environ.get("RIGVERIF_NO_IFEXP_SPLIT"))
        # [(condition text, truth value)]: analyse only the executions on
        # which these conditions have these values (trace partition chosen by
        # the rule); contradicting branch edges are unreachable
        self.hypotheses = dict(hypotheses)
        self.flow = CurFlow(fn, inline_props=inline_props,
                            inline_methods=inline_methods,
                            pure_self_methods=pure_self_methods,
                            pure_calls=pure_calls, consts=consts)
        self.cfg = self.flow.cfg
        self.integer = integer
        self.nonneg = set(nonneg)
        self.candidates = list(candidates)
        self.call_effects = call_effects or {}
        self.assume_asserts = assume_asserts
        self.max_rounds = max_rounds
        self.state_in = {}
        entry = []
        if ghost_params:
            a = fn.args
            for arg in a.posonlyargs + a.args + a.kwonlyargs:
                v = Poly.atom(arg.arg)
                g = Poly.atom(arg.arg + "@0")
                entry += [le(v, g, "entry"), le(g, v, "entry")]
        for v in self.nonneg:
            entry.append(le(0, Poly.atom(v), "assumed %s >= 0" % v))
        entry += list(entry_cons)
        self.entry_state = entry
        # make len(x) atoms known up front (truthiness facts need them)
        for sub in ast.walk(fn):
            if isinstance(sub, ast.Call) and isinstance(sub.func, ast.Name) \
                    and sub.func.id == "len" and len(sub.args) == 1 and \
                    chain(sub.args[0]) is not None:
                try:
                    self.flow.sym(sub, self.cfg.entry)
                except AnalysisError:
                    pass
            # ... and the None-ness atoms of everything tested against None,
            # so that assignments carry None-ness from the first pass on
            if isinstance(sub, ast.Compare) and len(sub.ops) == 1 and \
                    isinstance(sub.ops[0], (ast.Is, ast.IsNot)) and \
                    isinstance(sub.comparators[0], ast.Constant) and \
                    sub.comparators[0].value is None and \
                    chain(sub.left) is not None:
                self.flow.isnone(chain(sub.left))
        self._run()

    # -- helpers ---------------------------------------------------------------
    def sym(self, expr, node=None):
        if isinstance(expr, str):
            expr = ast.parse(expr, mode="eval").body
            for n in ast.walk(expr):
                for c in ast.iter_child_nodes(n):
                    c._parent = n
        return self.flow.sym(expr, node or self.cfg.entry)

    def _elim(self, cons, atoms, pool=()):
        """Project atoms out, after materialising the axioms of the composite
        ones (so that e.g. b = min(a, r) still leaves b <= r behind when
        min(a, r) itself is eliminated)."""
        atoms = sorted(atoms)
        comp = [a for a in atoms if a in self.flow.atom_info]
        if comp:
            ax, splits = self.flow.axioms([Poly.atom(a) for a in comp],
                                          self.nonneg)
            cons = self._absorb(cons + ax, splits, pool)
        return eliminate(cons, atoms)

    def _absorb(self, cons, splits, pool=()):
        """Add what every feasible alternative of each case split agrees on
        (a weak join of the alternatives)."""
        for alts in splits:
            feas = [alt for alt in alts if self._feasible(cons + alt)]
            if len(feas) == 1:
                cons = cons + feas[0]
            elif feas:
                cand = dedupe([c for alt in feas for c in alt] + list(pool))
                keep = [c for c in cand
                        if all(self.entails_state(cons + alt, c)
                               for alt in feas)]
                cons = cons + keep
        return cons

    def _kill(self, cons, var, pool=()):
        atoms = set()
        for c in cons:
            for a in c.p.atoms():
                if _depends(self.flow, a, var):
                    atoms.add(a)
        if not atoms:
            return cons
        return self._elim(cons, atoms, pool)

    def _assign(self, cons, var, poly):
        """cons after  var := poly  (poly evaluated in the pre-state)."""
        if poly is None:
            return self._kill(cons, var)
        V = Poly.atom(var)
        dep_atoms = [a for a in poly.atoms() if _depends(self.flow, a, var)]
        if not dep_atoms:
            # candidate invariants about the new value, stated over what is
            # assigned: tested (with the case splits of the composites that
            # are about to be forgotten) before the old value is dropped
            pool = [Con(c.p.subst({var: poly}), c.strict, c.why)
                    for c in self.candidates if var in c.p.atoms()]
            pool = [c for c in pool if not any(
                _depends(self.flow, a, var) for a in c.p.atoms())]
            cons = self._kill(cons, var, pool)
            return cons + [le(V, poly, "%s = ..." % var),
                           le(poly, V, "%s = ..." % var)]
        # invertible linear update  var = a*var + rest
        coef = poly.t.get((var,), 0)
        rest = poly - Poly({(var,): coef})
        if coef != 0 and not any(_depends(self.flow, a, var)
                                 for a in rest.atoms()):
            # kill composites depending on var (but not var itself)
            comp = set()
            for c in cons:
                for a in c.p.atoms():
                    if a != var and _depends(self.flow, a, var):
                        comp.add(a)
            if comp:
                cons = self._elim(cons, comp)
            old = (V - rest) * (1 / coef)
            return [Con(c.p.subst({var: old}), c.strict, c.why)
                    for c in cons]
        # general: introduce via a temporary
        tmp = "%s'" % var
        T = Poly.atom(tmp)
        self.flow.atom_vars[tmp] = {tmp}
        cons = cons + [le(T, poly), le(poly, T)]
        # candidate invariants about the new value, stated over the temporary
        pool = [Con(c.p.subst({var: T}), c.strict, c.why)
                for c in self.candidates if var in c.p.atoms()]
        cons = self._kill(cons, var, pool)
        cons = [Con(c.p.subst({tmp: V}), c.strict, c.why) for c in cons]
        return cons

    def _transfer(self, n, cons):
        """State after node n given state before (None = unreachable)."""
        if cons is None:
            return None
        flow = self.flow
        if n.kind == "assume":
            if n.label == "assert" and not self.assume_asserts:
                return cons
            txt = unparse(n.ast)
            if txt in self.hypotheses and \
                    self.hypotheses[txt] != n.polarity:
                return None
            new = flow.cond_constraints(n.ast, n.polarity, n)
            if not new and not n.polarity:
                # the false edge of a conjunction (a <= b <= c, a and b):
                # not expressible as a conjunction of constraints, but
                # infeasible when the state entails every conjunct
                try:
                    whole = flow.cond_constraints(n.ast, True, n)
                except AnalysisError:
                    whole = []
                _ORD = (ast.Lt, ast.LtE, ast.Gt, ast.GtE, ast.Eq)

                def _all_ord(c_):
                    return isinstance(c_, ast.Compare) and all(
                        isinstance(o_, _ORD) for o_ in c_.ops) and not any(
                        isinstance(x_, ast.Constant) and not isinstance(
                            x_.value, (int, float))
                        for x_ in [c_.left] + c_.comparators)
                conj = (_all_ord(n.ast) and len(n.ast.ops) > 1) or (
                    isinstance(n.ast, ast.BoolOp) and
                    isinstance(n.ast.op, ast.And) and all(
                        _all_ord(v) for v in n.ast.values))
                if conj and whole and self.entails_state(cons, whole):
                    return None
            if not new:
                new = self._disequality(cons, n)
            c = chain(n.ast)
            if c is not None and ("len(%s)" % c) in flow.atom_vars:
                # truthiness of a sized object: non-empty / empty
                L = Poly.atom("len(%s)" % c)
                new = list(new) + ([le(1, L)] if n.polarity else
                                   [le(L, 0)])
            if new:
                cons = cons + new
                if not self._feasible(cons):
                    return None
            return cons
        if n.kind == "join" and n.label == "forbody":
            return cons + self._range_facts(n.ast, n)
        # the index of ``for i, x in enumerate(seq)`` counts the iterations
        enum = None
        if n.kind == "stmt" and n.label == "foriter":
            enum = self._enum_index(n.ast._parent)
            if enum is not None:
                cons = self._assign(cons, enum[0], enum[1](n) - 1)
        if n.kind == "join" and n.label == "forelse":
            enum = self._enum_index(n.ast)
            if enum is not None:
                return self._kill(cons, enum[0])
        if n.kind == "iter":
            enum = self._enum_index(n.ast)
        defs = [d for d in flow.node_defs.get(n.id, [])
                if d.mode != "param"]
        if n.kind == "iter" and enum is not None:
            cons = self._assign(cons, enum[0], Poly.atom(enum[0]) + 1)
            defs = [d for d in defs if d.var != enum[0]]
        if not defs:
            return cons
        # ``x = a if c else b``: the two cases separately, then joined (the
        # composite ite(c, a, b) alone forgets which case gave which value)
        if len(defs) == 1 and defs[0].mode == "assign" and isinstance(
                defs[0].value, ast.IfExp) and not self._no_ifexp_split:
            d = defs[0]
            try:
                sides = []
                for pol_, e in ((True, d.value.body), (False,
                                                       d.value.orelse)):
                    extra = flow.cond_constraints(d.value.test, pol_, n)
                    c_ = cons + list(extra)
                    if extra and not self._feasible(c_):
                        sides.append(None)
                        continue
                    v_ = flow.sym(e, n)
                    if not self._numeric(v_):
                        raise AnalysisError("not numeric")
                    sides.append(self._assign(c_, d.var, v_))
                if sides[0] is None and sides[1] is None:
                    return None
                return self._join(sides[0], sides[1])
            except AnalysisError:
                pass
        # evaluate right-hand sides in the pre-state
        values = []
        for d in defs:
            poly = None
            try:
                if d.mode == "assign" and d.value is not None:
                    poly = flow.sym(d.value, n)
                    if not self._numeric(poly):
                        poly = None
                elif d.mode == "aug":
                    s = d.value
                    fake = ast.BinOp(left=s.target, op=s.op, right=s.value)
                    ast.copy_location(fake, s)
                    fake._parent = s
                    poly = flow.sym(fake, n)
                    if not self._numeric(poly):
                        poly = None
                elif d.mode == "mut":
                    eff = self._mut_effect(d, n)
                    if eff is not None:
                        values.append((d, eff))
                        continue
            except AnalysisError:
                poly = None
            values.append((d, poly))
        multi = len([d for d, _ in values if d.mode != "mut"]) > 1
        for d, poly in values:
            if isinstance(poly, tuple) and poly and poly[0] == "len+":
                # container mutated with a known effect on its length
                _, lenatom, delta_lo, delta_hi = poly
                cons = self._mutate_len(cons, d.var, lenatom, delta_lo,
                                        delta_hi)
                continue
            if multi and poly is not None and any(
                    any(_depends(flow, a, d2.var) for a in poly.atoms())
                    for d2, _ in values if d2 is not d):
                poly = None if not self._safe_parallel(d, poly, values) \
                    else poly
            nul = None
            if d.mode == "assign" and d.value is not None:
                nul = self._nullness(d.value, n)
            if d.mode == "assign" and poly is not None and \
                    ("len(%s)" % d.var) in flow.atom_vars:
                cons = self._assign_with_len(cons, d.var, poly)
            else:
                cons = self._assign(cons, d.var, poly)
            if nul is not None and ("isnone(%s)" % d.var) in flow.atom_vars:
                a = flow.isnone(d.var)
                cons = cons + [le(a, nul), le(nul, a)]
        return prune(cons, self.integer)

    def _disequality(self, cons, n):
        """``a != b`` is not convex; but when the state already orders the
        two sides (a <= b or b <= a) it sharpens to a strict inequality."""
        e, pol = n.ast, n.polarity
        while isinstance(e, ast.UnaryOp) and isinstance(e.op, ast.Not):
            e, pol = e.operand, not pol
        if not (isinstance(e, ast.Compare) and len(e.ops) == 1):
            return []
        want = ast.NotEq if pol else ast.Eq
        if not isinstance(e.ops[0], want):
            return []
        l, r = e.left, e.comparators[0]
        if any(isinstance(x, ast.Constant) and (
                isinstance(x.value, bool) or
                not isinstance(x.value, int)) for x in (l, r)):
            return []
        try:
            a = self.flow.sym(l, n)
            b = self.flow.sym(r, n)
        except AnalysisError:
            return []
        if not (self._numeric(a) and self._numeric(b)):
            return []
        if self.entails_state(cons, le(a, b)):
            return [lt(a, b, "disequality")]
        if self.entails_state(cons, le(b, a)):
            return [lt(b, a, "disequality")]
        return []

    def _assign_with_len(self, cons, var, poly):
        """var := <sequence-valued poly>: carry what is known about the
        length of the new value over to len(var)."""
        flow = self.flow
        newlen = flow._composite("len(%r)" % (poly,), [poly], ("len", poly))
        ax, splits = flow.axioms([newlen] + [c.p for c in cons], self.nonneg)
        tmp = "len(%s)'" % var
        flow.atom_vars[tmp] = set()
        T = Poly.atom(tmp)
        cons = self._absorb(cons + ax, splits,
                            pool=[le(1, newlen), le(0, newlen)])
        cons = cons + [le(T, newlen), le(newlen, T)]
        cons = self._assign(cons, var, poly if self._numeric(poly) and not
                            any(_depends(flow, a, var)
                                for a in poly.atoms()) else None)
        L = Poly.atom("len(%s)" % var)
        return [Con(c.p.subst({tmp: L}), c.strict, c.why) for c in cons]

    def _safe_parallel(self, d, poly, values):
        return False

    def _nullness(self, value, n):
        """isnone() of the value assigned, as a Poly (0, 1 or the isnone atom
        of the source variable), or None when unknown.  Evaluated in the
        pre-state (the caller adds the constraint after the kill)."""
        if isinstance(value, ast.Constant):
            return Poly.const(1 if value.value is None else 0)
        c = chain(value)
        if c is not None:
            if c in self.flow.inline_props:
                return Poly.const(0)
            return self.flow.isnone(c + "'pre") if False else \
                self._pre_isnone(c)
        if isinstance(value, (ast.BinOp, ast.UnaryOp, ast.Call, ast.Tuple,
                              ast.List, ast.Dict, ast.Set, ast.Compare)):
            return Poly.const(0)
        return None

    def _pre_isnone(self, c):
        return self.flow.isnone(c)

    def _numeric(self, poly):
        for a in poly.atoms():
            if a.startswith(("tuple(", "const:", "cond(")):
                return False
        return True

    def _mut_effect(self, d, n):
        """Known effect of a container mutation on len(container)."""
        hook = self.call_effects.get("mut")
        if hook:
            return hook(self, d, n)
        return None

    def _mutate_len(self, cons, var, lenatom, lo, hi):
        # every atom depending on var is killed, except len(var) which moves
        # by a delta in [lo, hi]
        L = Poly.atom(lenatom)
        tmp = lenatom + "'"
        self.flow.atom_vars[tmp] = set()
        T = Poly.atom(tmp)
        cons = cons + [le(L + lo, T), le(T, L + hi)]
        cons = self._kill(cons, var)
        return [Con(c.p.subst({tmp: L}), c.strict, c.why) for c in cons]

    def _enum_index(self, forstmt):
        """(index variable, start(node) -> Poly) when ``forstmt`` iterates
        enumerate(...) into ``i, x`` and nothing else binds i in the loop."""
        if not isinstance(forstmt, ast.For):
            return None
        it, tgt = forstmt.iter, forstmt.target
        if not (isinstance(it, ast.Call) and isinstance(it.func, ast.Name)
                and it.func.id == "enumerate" and it.args and
                isinstance(tgt, ast.Tuple) and len(tgt.elts) == 2 and
                isinstance(tgt.elts[0], ast.Name)):
            return None
        var = tgt.elts[0].id
        head = self.cfg.loop_head[id(forstmt)]
        for d in self.flow.defs:
            if d.var == var and d.node is not head and \
                    d.node.ast is not None and _within(d.node.ast, forstmt):
                return None
        start = None
        if len(it.args) > 1:
            start = it.args[1]
        for k in it.keywords:
            if k.arg == "start":
                start = k.value

        def start_of(node):
            return Poly.const(0) if start is None else \
                self.flow.sym(start, node)
        return var, start_of

    def _range_facts(self, forstmt, n):
        out = []
        it = forstmt.iter
        tgt = forstmt.target
        if isinstance(it, ast.Call) and isinstance(it.func, ast.Name):
            if it.func.id == "range" and isinstance(tgt, ast.Name) and \
                    1 <= len(it.args) <= 2:
                v = Poly.atom(tgt.id)
                if len(it.args) == 1:
                    lo, hi = Poly.const(0), self.flow.sym(it.args[0], n)
                else:
                    lo = self.flow.sym(it.args[0], n)
                    hi = self.flow.sym(it.args[1], n)
                out += [le(lo, v, "range"), lt(v, hi, "range")]
            if it.func.id == "enumerate" and isinstance(tgt, ast.Tuple) and \
                    isinstance(tgt.elts[0], ast.Name) and it.args:
                v = Poly.atom(tgt.elts[0].id)
                start = Poly.const(0)
                if len(it.args) > 1:
                    start = self.flow.sym(it.args[1], n)
                for k in it.keywords:
                    if k.arg == "start":
                        start = self.flow.sym(k.value, n)
                seq = self.flow.sym(it.args[0], n)
                L = self.flow._composite("len(%r)" % (seq,), [seq],
                                         ("len", seq))
                out += [le(start, v), lt(v, start + L)]
        return out

    def _closure(self, polys):
        atoms = set()
        for p_ in polys:
            atoms |= p_.atoms()
        key = frozenset(atoms)
        cache = self.__dict__.setdefault("_closure_cache", {})
        if key in cache:
            ax, splits = cache[key]
            return list(ax), [list(s_) for s_ in splits]
        res = self._closure_compute(polys)
        cache[key] = (list(res[0]), [list(s_) for s_ in res[1]])
        return res

    def _closure_compute(self, polys):
        ax, splits = self.flow.axioms(polys, self.nonneg)
        for _ in range(2):
            ax2, splits2 = self.flow.axioms(
                [c.p for c in ax] + [c.p for alts in splits for alt in alts
                                     for c in alt], self.nonneg)
            ax = dedupe(ax + ax2)
            for s in splits2:
                if not any(_same_split(s, t) for t in splits):
                    splits.append(s)
        return ax, splits

    def _feasible(self, cons):
        """Is some case of the (axiom-closed) constraint set satisfiable?"""
        ax, splits = self._closure([c.p for c in cons])
        integer = self.integer

        def rec(i, acc):
            if not feasible(acc, integer):
                return False
            if i == len(splits) or i >= 10:
                return True
            return any(rec(i + 1, acc + alt) for alt in splits[i])
        return rec(0, list(cons) + ax)

    def entails_state(self, cons, goals):
        """cons |- goals, using the axioms / case splits of the atoms."""
        goals = list(goals) if isinstance(goals, (list, tuple)) else [goals]
        if cons is None:
            return True
        ax, splits = self._closure([c.p for c in cons] +
                                   [g.p for g in goals])
        prem = list(cons) + ax
        integer = self.integer
        splits = order_splits(prem, splits, goals)

        def rec(i, acc):
            if not feasible(acc, integer):
                return True
            if entails(acc, goals, integer):
                return True
            if i == len(splits) or i >= 14:
                return False
            for alt in splits[i]:
                if not rec(i + 1, acc + alt):
                    return False
            return True
        return rec(0, prem)

    def _join(self, a, b):
        if a is None:
            return b
        if b is None:
            return a
        out = []
        pool = dedupe(list(a) + list(b) + list(self.candidates))
        ka = set(c.row(self.integer) for c in a)
        kb = set(c.row(self.integer) for c in b)
        # a variable given different values on the two sides (x = p on one,
        # x = q on the other): its sign survives the join when both sides
        # entail it, though neither states it
        va = set(x for c in a if c.row(self.integer) not in kb
                 for x in c.p.atoms())
        vb = set(x for c in b if c.row(self.integer) not in ka
                 for x in c.p.atoms())
        for x in sorted(va & vb):
            if "(" in x:
                continue
            pool.append(le(1, Poly.atom(x)))
            pool.append(le(0, Poly.atom(x)))
        # one step of transitivity on each side (x <= t on one path through
        # a temporary, x <= t directly on the other: neither side *states*
        # the bound the two share)
        for c in pool:
            r = c.row(self.integer)
            if (r in ka or self.entails_state(a, c)) and \
                    (r in kb or self.entails_state(b, c)):
                out.append(c)
        out = dedupe(out)
        # (only what the constraints kept so far do not already say: a
        # weaker copy of a kept bound would be a new constraint on every
        # round of the fixpoint)
        seen = set(c.row(self.integer) for c in out)
        for c in dedupe(_pair_sums(a) + _pair_sums(b)):
            c = _tighten(c, self.integer)
            r = c.row(self.integer)
            if r in seen or self.entails_state(out, c):
                continue
            if self.entails_state(a, c) and self.entails_state(b, c):
                out.append(c)
                seen.add(r)
        return out

    def _same(self, a, b):
        if a is None or b is None:
            return a is b
        ka = set(c.row(True) for c in a)
        kb = set(c.row(True) for c in b)
        return ka == kb

    def _run(self):
        cfg = self.cfg
        nodes = cfg.live_nodes()
        state_in = {n.id: None for n in cfg.nodes}
        state_out = {n.id: None for n in cfg.nodes}
        visits = {n.id: 0 for n in cfg.nodes}
        state_in[cfg.entry.id] = list(self.entry_state)
        work = [cfg.entry]
        order = {n.id: i for i, n in enumerate(cfg.nodes)}
        while work:
            work.sort(key=lambda n: order[n.id])
            n = work.pop(0)
            if n is not cfg.entry:
                acc = None
                first = True
                preds = [p for p in n.pred]
                sts = [state_out[p.id] for p in preds
                       if state_out[p.id] is not None]
                if not sts:
                    acc = None
                else:
                    acc = sts[0]
                    for s in sts[1:]:
                        acc = self._join(acc, s)
                if len(preds) > 1 and visits[n.id] >= self.max_rounds and \
                        state_in[n.id] is not None and acc is not None:
                    # widening: only keep what was there before
                    acc = [c for c in state_in[n.id]
                           if self.entails_state(acc, c)]
                state_in[n.id] = acc
            visits[n.id] += 1
            out = self._transfer(n, state_in[n.id])
            if visits[n.id] == 1 or not self._same(out, state_out[n.id]):
                state_out[n.id] = out
                for s in n.succ:
                    if s not in work:
                        work.append(s)
            if sum(visits.values()) > 40 * len(cfg.nodes) + 400:
                raise AnalysisError("LININV did not converge on %s" %
                                    self.fn.name)
        self.state_in = state_in
        self.state_out = state_out

    # -- queries -----------------------------------------------------------------
    def holds_at(self, node, goals, after=False):
        st = (self.state_out if after else self.state_in)[node.id]
        ok = self.entails_state(st, goals)
        if not ok and st is not None and \
                not os.environ.get("RIGVERIF_NO_OPAQUE_GATE"):
            op = self.opaque_in(st, goals)
            if op:
                raise AnalysisError(
                    "%s: the obligation mentions %s, a value the "
                    "interpreter knows nothing about (no bound, no link to "
                    "an argument or a length): not shown is not refuted" % (
                        self.fn.name, ", ".join(sorted(op))))
        return ok

    def opaque_in(self, st, goals):
        """Atoms of the goals whose value the state says nothing about:
        following the equalities of the state from the atom, one never
        reaches an entry value (``x@0``), a length, or an atom that occurs
        in any inequality or next to a constant.  Such an atom stands for
        an expression the interpreter could not read (an attribute of an
        object fetched from a table, the result of a call): failing to
        prove a bound on it is not evidence that the bound fails."""
        goals = list(goals) if isinstance(goals, (list, tuple)) else [goals]
        rows = {}
        for c in st:
            rows.setdefault(c.p.key(), c)
        eqs = {}            # atom -> set of atoms it is equated with
        bounded = set()     # atoms that occur in a non-equality / w. const
        for c in st:
            neg = (-c.p).key()
            at = c.p.atoms()
            is_eq = neg in rows and not c.strict
            has_const = bool(c.p.t.get((), 0))
            if is_eq and len(at) == 2 and not has_const:
                a, b = sorted(at)
                eqs.setdefault(a, set()).add(b)
                eqs.setdefault(b, set()).add(a)
            elif is_eq and len(at) == 1 and not has_const:
                bounded |= set(at)      # x == 0
            else:
                bounded |= set(at)
        info_of = getattr(self.flow, "atom_info", {})

        def polys_in(x):
            if isinstance(x, Poly):
                yield x
            elif isinstance(x, (list, tuple)):
                for y in x:
                    for z in polys_in(y):
                        yield z

        memo = {}

        def known(a, stack=()):
            if a in memo:
                return memo[a]
            if a in stack:
                return False
            if a.endswith("@0") or a in bounded or a.startswith("len("):
                memo[a] = True
                return True
            r = None
            if a.startswith("call:"):
                r = False
            else:
                info = info_of.get(a)
                if info is not None:
                    kind = info[0]
                    if kind in ("attr", "sub", "call"):
                        # an attribute / item / pure function of known
                        # things is as good as an argument
                        parts = [x for p_ in polys_in(info[1:])
                                 for x in p_.atoms()]
                        r = bool(parts) and all(
                            known(x, stack + (a,)) for x in parts)
                    else:
                        r = True        # an operation the engine has
                        #                 axioms for (min, max, //, %, ...)
            if not r:
                r = any(known(b, stack + (a,)) for b in eqs.get(a, ()))
            if not stack:
                memo[a] = r
            return r
        out = set()
        for g in goals:
            for a0 in g.p.atoms():
                if not known(a0):
                    # name the uninterpreted thing the atom leads to
                    seen, todo, cul = set(), [a0], []
                    while todo:
                        a = todo.pop()
                        if a in seen:
                            continue
                        seen.add(a)
                        if a.startswith("call:") or "." in a or (
                                info_of.get(a) or ("",))[0] in (
                                    "attr", "sub", "call"):
                            cul.append(a)
                        todo.extend(eqs.get(a, ()))
                    # (a plain name the state says nothing about - a loop
                    # variable, a name of an enclosing function - is not
                    # flagged: only values the engine failed to read are)
                    out |= set(cul[:2])
        return out

    def reachable(self, node):
        return self.state_in[node.id] is not None

    def describe(self, node, after=False):
        st = (self.state_out if after else self.state_in)[node.id]
        if st is None:
            return "unreachable"
        return "; ".join(repr(c) for c in st[:30])


def _within(node, anc):
    p = node
    while p is not None:
        if p is anc:
            return True
        p = getattr(p, "_parent", None)
    return False


def _same_split(s, t):
    def k(split):
        return sorted(sorted((c.p.key(), c.strict) for c in alt)
                      for alt in split)
    return k(s) == k(t)
