"""ROLES engine: a units-of-measure style check specific to this repository.

Values carry roles (X, Y, P, APP_ID, CABINET, FRAME, BOARD, LINK, ...).
Roles originate from formal-parameter names (a frozen table, confirmed by
reading the signatures), flow through assignments, and are checked at every
resolved call: an actual bound to a role-carrying formal must have the same
role, be an allow-listed constant, or be of unknown role (silent, counted).
A role that is in scope in the caller must be forwarded explicitly.
"""
import ast

from .core import AnalysisError, unparse
from .dataflow import Flow, chain, call_name
from .util import bind, formals, defaults

# formal / variable name -> role
ROLE_OF_NAME = {
    "x": "X", "y": "Y", "p": "P", "processor": "P", "core": "P",
    "app_id": "APP_ID", "cabinet": "CABINET", "frame": "FRAME",
    "board": "BOARD", "link": "LINK",
    "dest_x": "X", "dest_y": "Y", "dest_cpu": "P",
}


def name_role(name):
    return ROLE_OF_NAME.get(name)


class RoleFlow(object):
    def __init__(self, fn):
        self.fn = fn
        self.fl = Flow(fn)
        a = fn.args
        self.params = [x.arg for x in a.posonlyargs + a.args + a.kwonlyargs]
        self.scope_roles = {}
        for p in self.params:
            r = name_role(p)
            if r:
                self.scope_roles[r] = p

    def role(self, expr, node, depth=0):
        """("role", R) | ("const", v) | None."""
        if isinstance(expr, ast.Constant):
            return ("const", expr.value)
        if isinstance(expr, ast.Call) and call_name(expr)[0] == "int" and \
                len(expr.args) == 1:
            return self.role(expr.args[0], node, depth + 1)
        c = chain(expr)
        if c is None:
            return None
        if "." in c:
            # attribute access args.x / self._x : role by the attribute name
            r = name_role(c.rsplit(".", 1)[1].lstrip("_"))
            return ("role", r) if r else None
        ds = self.fl.reaching(c, node)
        if not ds:
            return None
        roles = set()
        for d in ds:
            if d.mode == "param":
                r = name_role(d.var)
                roles.add(("role", r) if r else None)
            elif d.mode == "assign" and d.value is not None and depth < 8:
                roles.add(self.role(d.value, d.node, depth + 1))
            elif d.mode in ("iter", "iterunpack", "unpack", "with"):
                # destructured from a container: the name is all we have
                r = name_role(d.var)
                roles.add(("role", r) if r else None)
            else:
                roles.add(None)
        if len(roles) == 1:
            return roles.pop()
        return None


def check_call(rep, rule, inst, rf, call, callee, allowed_consts=None,
               exempt_omit=(), skip_self=None, accept=()):
    """Check one resolved call.  Returns number of role-carrying formals
    examined."""
    allowed_consts = allowed_consts or {}
    node = rf.fl.cfg.node_containing(call)
    b = bind(call, callee, skip_self)
    names = formals(callee)
    if skip_self is None:
        skip = bool(names) and names[0] in ("self", "cls") and \
            isinstance(call.func, ast.Attribute)
    else:
        skip = skip_self
    if skip:
        names = names[1:]
    names = names + [a.arg for a in callee.args.kwonlyargs]
    dflt = defaults(callee)
    n = 0
    cname = getattr(callee, "_qualname", callee.name)
    for f in names:
        want = name_role(f)
        if not want:
            continue
        if "*" in b or "**" in b:
            if f not in b:
                continue     # forwarded through *args/**kwargs: not judged
        n += 1
        if f not in b:
            # omitted: falls back to the callee's default / context
            if want in rf.scope_roles and (cname, f) not in exempt_omit:
                rep.bad(rule, inst, "%s(...) omits %s" % (cname, f),
                        "%s is called without '%s' although the caller has "
                        "its own '%s': the callee falls back to the context "
                        "or its default and the command is re-targeted" % (
                            cname, f, rf.scope_roles[want]), call)
            else:
                rep.ok(rule, inst, "%s(...): %s left to the callee's "
                       "default/context (caller has no %s of its own)" % (
                           cname, f, want), call)
            continue
        got = rf.role(b[f], node)
        txt = "%s(... %s=%s ...)" % (cname, f, unparse(b[f]))
        if got is None:
            rep.ok(rule, inst, "%s: actual of unknown role (not judged)" %
                   txt, call)
        elif got[0] == "role":
            rep.check(got[1] == want or (f, got[1]) in accept, rule, inst,
                      "%s: the %s formal receives the caller's %s value" % (
                          txt, want, got[1]),
                      construct="%s gets %s" % (txt, got[1]), node=call,
                      fail="%s passes a %s value where %s is expected "
                           "(arguments swapped?)" % (txt, got[1], want))
        else:
            ok_consts = allowed_consts.get((cname, f), allowed_consts.get(
                f, ()))
            in_scope = want in rf.scope_roles
            if got[1] in ok_consts and (not in_scope or (cname, f) in
                                        exempt_omit):
                rep.ok(rule, inst, "%s: allow-listed constant" % txt, call)
            elif got[1] in ok_consts and in_scope:
                rep.bad(rule, inst, "%s hard-codes %s" % (txt, f),
                        "%s passes the constant %r for '%s' although the "
                        "caller was given its own '%s': the command goes to "
                        "a fixed target" % (txt, got[1], f,
                                            rf.scope_roles[want]), call)
            else:
                rep.bad(rule, inst, "%s constant" % txt,
                        "%s passes the constant %r for '%s', which is not an "
                        "allow-listed value for that role" % (txt, got[1],
                                                               f), call)
    return n
