"""LINK engine: does every standard-library name the code refers to exist in
the interpreter the suite runs under?

For ``import m`` / ``from m import n`` of a standard-library module and every
attribute access ``m.attr`` (also ``m.sub.attr``) through such an import, the
checker imports *that stdlib module* (never rig) and tests ``hasattr`` - the
moral equivalent of a type checker's "module has no attribute" diagnostic
from typeshed.  Plus typed API-misuse lints confirmed against this
interpreter (today: ``Random.sample`` of a set).
"""
import ast
import importlib
import sys

from .dataflow import chain, call_name

STDLIB = set(getattr(sys, "stdlib_module_names", ())) | {"six"}
NOT_STDLIB = {"six"}      # third party but attribute-checkable; skipped


def _stdlib(name):
    root = name.split(".")[0]
    return root in STDLIB and root not in NOT_STDLIB


def check_module(mod):
    """Yield (node, description) for every stdlib reference of ``mod`` that
    does not exist in this interpreter."""
    imported = {}     # local name -> stdlib dotted module
    for n in ast.walk(mod.tree):
        if isinstance(n, ast.Import):
            for a in n.names:
                if _stdlib(a.name):
                    try:
                        importlib.import_module(a.name)
                    except Exception:
                        yield n, "module %s cannot be imported" % a.name
                        continue
                    imported[a.asname or a.name.split(".")[0]] = \
                        a.name if a.asname else a.name.split(".")[0]
        elif isinstance(n, ast.ImportFrom) and n.level == 0 and n.module \
                and _stdlib(n.module):
            try:
                m = importlib.import_module(n.module)
            except Exception:
                yield n, "module %s cannot be imported" % n.module
                continue
            for a in n.names:
                if a.name != "*" and not hasattr(m, a.name):
                    try:
                        importlib.import_module(n.module + "." + a.name)
                    except Exception:
                        yield n, "%s has no attribute %s" % (n.module,
                                                             a.name)
    n_refs = 0
    for n in ast.walk(mod.tree):
        if not isinstance(n, ast.Attribute):
            continue
        par = getattr(n, "_parent", None)
        if isinstance(par, ast.Attribute) and par.value is n:
            continue            # judge the longest chain only
        c = chain(n)
        if c is None:
            continue
        parts = c.split(".")
        if parts[0] not in imported or _shadowed(n, parts[0]):
            continue
        obj = None
        try:
            obj = importlib.import_module(imported[parts[0]])
        except Exception:
            continue
        ok = True
        path = imported[parts[0]]
        for attr in parts[1:]:
            if hasattr(obj, attr):
                obj = getattr(obj, attr)
                path += "." + attr
                if not isinstance(obj, type(sys)) and \
                        not isinstance(obj, type):
                    break       # do not look inside instances/functions
            else:
                # a submodule not yet imported?
                try:
                    obj = importlib.import_module(path + "." + attr)
                    path += "." + attr
                except Exception:
                    ok = False
                    yield n, "%s has no attribute %s (Python %d.%d)" % (
                        path, attr, sys.version_info[0],
                        sys.version_info[1])
                    break
        n_refs += 1
    mod._link_refs = n_refs


def _shadowed(node, name):
    """Is ``name`` a local variable/parameter of an enclosing function?"""
    n = getattr(node, "_parent", None)
    while n is not None:
        if isinstance(n, (ast.FunctionDef, ast.Lambda)):
            a = n.args
            for arg in a.posonlyargs + a.args + a.kwonlyargs:
                if arg.arg == name:
                    return True
            if a.vararg and a.vararg.arg == name:
                return True
            if a.kwarg and a.kwarg.arg == name:
                return True
            if isinstance(n, ast.FunctionDef):
                for s in ast.walk(n):
                    if isinstance(s, ast.Name) and s.id == name and \
                            isinstance(s.ctx, ast.Store):
                        return True
        n = getattr(n, "_parent", None)
    return False


def sample_of_set(fn, flow):
    """random.sample(population, k) with a population that is evidently a set
    (TypeError since Python 3.11)."""
    out = []
    for c in ast.walk(fn):
        if isinstance(c, ast.Call) and call_name(c)[0] == "sample" and c.args:
            a = c.args[0]
            e = a
            if chain(a) is not None:
                try:
                    node = flow.cfg.node_containing(c)
                except Exception:
                    continue
                ds = [d for d in flow.reaching(chain(a), node)
                      if d.mode != "mut"]      # add/remove keep the type
                if ds and all(d.mode == "assign" and d.value is not None
                              for d in ds):
                    if all(_is_set(d.value) for d in ds):
                        out.append(c)
                continue
            if _is_set(e):
                out.append(c)
    return out


def _is_set(e):
    if isinstance(e, (ast.Set, ast.SetComp)):
        return True
    return isinstance(e, ast.Call) and isinstance(e.func, ast.Name) and \
        e.func.id in ("set", "frozenset")


_MUTABLE_CTORS = ("list", "dict", "set", "bytearray", "defaultdict",
                  "OrderedDict", "deque", "Counter")
_ITEM_MUTATORS = ("append", "extend", "insert", "remove", "pop", "clear",
                  "add", "discard", "update", "setdefault", "sort",
                  "reverse", "popitem", "appendleft")


def _mutable_expr(e):
    if isinstance(e, (ast.List, ast.Dict, ast.Set, ast.ListComp,
                      ast.DictComp, ast.SetComp)):
        return True
    return isinstance(e, ast.Call) and isinstance(e.func, ast.Name) and \
        e.func.id in _MUTABLE_CTORS


def shared_mutable_values(scope):
    """Containers filled with ONE mutable object under every key / at every
    position - ``dict.fromkeys(keys, [])``, ``[[]] * n`` - whose entries are
    then changed in place somewhere in ``scope`` (a function or class):
    a change made through one entry shows through all of them.  Yields
    (creating expression, name the container is bound to, mutating call)."""
    for st in ast.walk(scope):
        if not (isinstance(st, ast.Assign) and len(st.targets) == 1):
            continue
        name = chain(st.targets[0])
        v = st.value
        if name is None:
            continue
        shared = False
        if isinstance(v, ast.Call) and isinstance(v.func, ast.Attribute) and \
                v.func.attr == "fromkeys" and len(v.args) == 2 and \
                _mutable_expr(v.args[1]):
            shared = True
        if isinstance(v, ast.BinOp) and isinstance(v.op, ast.Mult):
            for a, b in ((v.left, v.right), (v.right, v.left)):
                if isinstance(a, ast.List) and len(a.elts) >= 1 and any(
                        _mutable_expr(x) for x in a.elts) and not (
                        isinstance(b, ast.Constant) and b.value in (0, 1)):
                    shared = True
        if not shared:
            continue
        for c in ast.walk(scope):
            # <name>[k].append(...) / <name>[k][j] = ... / <name>[k] += ...
            if isinstance(c, ast.Call) and isinstance(c.func, ast.Attribute) \
                    and c.func.attr in _ITEM_MUTATORS and \
                    isinstance(c.func.value, ast.Subscript) and \
                    chain(c.func.value.value) == name:
                yield v, name, c
                break
            if isinstance(c, (ast.Assign, ast.AugAssign)):
                tg = c.targets[0] if isinstance(c, ast.Assign) else c.target
                if isinstance(tg, ast.Subscript) and isinstance(
                        tg.value, ast.Subscript) and \
                        chain(tg.value.value) == name:
                    yield v, name, c
                    break
