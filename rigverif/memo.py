"""MEMO: is a write to module-level state a sound memo?

A function that stores ``G[key] = value`` in a module-level dictionary and
answers later calls from it remembers earlier calls.  That is harmless when
the stored value is a function of the key alone (then whichever call filled
the entry, the entry is what this call would have computed), and wrong when
the value depends on an argument the key does not determine: the second of
two calls that agree on the key gets the first one's answer.

``memo_verdict(fn, gname, domains)`` reads the stores off the value terms of
``fn``:

  "ok"       every store into G has a value that, once the key's own
             sub-terms are taken out, mentions no parameter (or only
             parameters that are components of the key);
  "stale"    a stored value depends on a parameter p that is not a component
             of the key, and either the key does not mention p at all, or
             folding key and value over the finite ``domains`` of the
             parameters exhibits two argument tuples with equal keys and
             different values (the witness is returned);
  "unknown"  anything else: other kinds of mutation (append, update, del),
             computed keys whose injectivity cannot be decided, values built
             from other state.
"""
import itertools

from .core import AnalysisError
from .terms import Terms, stores, subterms, plain, subst_params, \
    method_calls, eval_closed


def _params(t):
    return set(st[1] for st in subterms(t) if st[0] == "param" and
               len(st) == 2)


def _components(k):
    """The direct components of a key: itself, or the members of a tuple
    (nested tuples flattened)."""
    if k[0] == "tuple":
        out = []
        for x in k[1:]:
            out.extend(_components(x))
        return out
    return [k]


def _replace(t, old, new):
    if t == old:
        return new
    if not isinstance(t, tuple) or not t or t[0] == "const":
        return t
    return tuple(_replace(x, old, new) if isinstance(x, tuple) else x
                 for x in t)


def _reads_of(t, G):
    """Sub-terms that read the global G (G itself, G[k], G.get(k))."""
    return [st for st in subterms(t) if st == G]


def memo_verdict(fn, gname, domains=None):
    """-> (verdict, text).  ``gname``: name of the module-level object;
    ``domains``: {parameter: iterable of values} for folding, or None."""
    T = Terms(fn)
    G = ("global", gname)
    found = []
    for n, st, base, key, val in stores(T):
        if plain(base) == G:
            found.append((st, plain(key), plain(val)))
    for n, c, recv, args in method_calls(T, ["setdefault"]):
        if plain(recv) == G and len(args) == 2:
            found.append((c, plain(args[0]), plain(args[1])))
    others = [c for n, c, recv, args in method_calls(
        T, ["append", "extend", "update", "add", "insert", "pop", "clear",
            "remove", "discard", "popitem", "appendleft", "sort", "reverse"])
        if plain(recv) == G]
    if others or not found:
        return "unknown", "%s is modified other than by storing entries " \
            "under a key" % gname
    verdict, text = "ok", "every entry stored in %s is a function of its " \
        "key" % gname
    for st, K, V in found:
        if any(x[0] in ("mu", "phi", "opaque", "rec") for x in subterms(K)):
            return "unknown", "the key stored under is not a single value " \
                "term"
        comps = _components(K)
        direct = set(c[1] for c in comps if c[0] == "param" and len(c) == 2)
        # the value with the key's own (computed) components taken out;
        # merged definitions are followed (every definition that can reach
        # the store is a value the entry can take)
        order = sorted(comps, key=lambda x: -len(repr(x)))

        def strip(t):
            for i, c in enumerate(order):
                if c[0] != "const":
                    t = _replace(t, c, ("keypart", i))
            return t
        todo, seen_mu, extra, merged = [V], set(), set(), False
        while todo:
            t = strip(todo.pop())
            if _reads_of(t, G):
                return "unknown", "the value stored is built from %s " \
                    "itself" % gname
            extra |= _params(t)
            for st_ in subterms(t):
                if st_[0] == "mu" and st_[1] not in seen_mu:
                    seen_mu.add(st_[1])
                    merged = True
                    for i in st_[1].ids:
                        todo.append(plain(st_[1].T._bind_term(
                            st_[1].T.binds[i])))
                elif st_[0] in ("opaque", "rec"):
                    merged = True
        extra -= direct
        if not extra:
            continue
        hidden = sorted(p for p in extra if p not in _params(K))
        if hidden:
            return "stale", "the value stored in %s depends on the " \
                "argument%s %s, which the key does not contain: of two " \
                "calls that agree on the key the second is answered with " \
                "the first one's value" % (
                    gname, "s" if len(hidden) > 1 else "", ", ".join(hidden))
        # the key is computed from the arguments the value depends on: does
        # it determine them?  Decide by folding over the finite domains.
        names = sorted(_params(K) | (set() if merged else _params(V)))
        if not domains or any(p not in domains for p in names):
            verdict, text = "unknown", "the key of %s is computed from %s; " \
                "whether it determines them is not decided" % (
                    gname, ", ".join(sorted(extra)))
            continue
        seen = {}
        ok = True
        for vals in itertools.product(*[list(domains[p]) for p in names]):
            sub = dict((p, ("const", v)) for p, v in zip(names, vals))
            try:
                k = eval_closed(subst_params(K, sub))
                # exact when the value folds; else the arguments the value
                # is computed from (beyond the key's own parts)
                v = tuple(sub[p][1] for p in sorted(extra)) if merged \
                    else eval_closed(subst_params(V, sub))
            except AnalysisError:
                ok = False
                break
            if k in seen and seen[k][1] != v:
                a0 = seen[k][0]
                if merged:
                    return "stale", "the key of %s does not determine %s, " \
                        "which the value stored is computed from: (%s) = " \
                        "%s and %s share the key %r; whichever is asked " \
                        "for second gets the other's value" % (
                            gname, ", ".join(sorted(extra)),
                            ", ".join(names), a0, vals, k)
                return "stale", "the key of %s does not determine the " \
                    "value stored: (%s) = %s and %s share the key %r but " \
                    "the values are %r and %r; whichever is asked for " \
                    "second gets the other's" % (
                        gname, ", ".join(names), a0, vals, k, seen[k][1], v)
            seen.setdefault(k, (vals, v))
        if not ok:
            verdict, text = "unknown", "key / value of %s do not fold over " \
                "the argument domains" % gname
    return verdict, text


_IMMUTABLE_CALLS = ("int", "str", "bytes", "len", "tuple", "frozenset",
                    "float", "bool", "min", "max", "abs", "sum", "round")


def _mutability(t, seen=None):
    """True: the value is certainly a mutable object (a container / object
    created here); False: certainly immutable; None: unknown."""
    seen = seen or set()
    k = t[0]
    if k in ("const", "binop", "unop", "cmp", "not", "and", "or"):
        return False
    if k == "tuple":
        rs = [_mutability(x, seen) for x in t[1:]]
        return True if True in rs else (None if None in rs else False)
    if k == "new":
        return True
    if k in ("call", "callv") and t[1][0] == "global" and \
            t[1][1] in _IMMUTABLE_CALLS:
        return False
    if k in ("call", "callv") and t[1][0] == "global" and \
            t[1][1] in ("dict", "list", "set", "bytearray", "defaultdict",
                        "OrderedDict", "deque"):
        return True
    if k == "mu":
        if t[1] in seen:
            return False
        seen = seen | {t[1]}
        rs = [_mutability(t[1].T._bind_term(t[1].T.binds[i]), seen)
              for i in t[1].ids]
        return True if True in rs else (None if None in rs else False)
    if k in ("phi", "ite"):
        rs = [_mutability(x, seen) for x in (t[1:] if k == "phi" else t[2:])]
        return True if True in rs else (None if None in rs else False)
    return None


def memo_values_mutable(fn, gname):
    """Are the values a memo in ``gname`` hands out mutable objects (so that
    what one caller does to them is seen by the next)?  True / False / None
    (unknown)."""
    T = Terms(fn)
    G = ("global", gname)
    rs = []
    for n, st, base, key, val in stores(T):
        if plain(base) == G:
            rs.append(_mutability(val))
    for n, c, recv, args in method_calls(T, ["setdefault"]):
        if plain(recv) == G and len(args) == 2:
            rs.append(_mutability(args[1]))
    if not rs:
        return None
    return True if True in rs else (None if None in rs else False)


def memo_stores_generator(fn, gname):
    """Does the memo keep the result of calling a generator function of the
    same module (a one-shot iterator: the second caller gets what the first
    left of it)?  Returns the function's name or None."""
    T = Terms(fn)
    G = ("global", gname)
    mod = getattr(fn, "_module", None)
    vals = []
    for n, st, base, key, val in stores(T):
        if plain(base) == G:
            vals.append(plain(val))
    for n, c, recv, args in method_calls(T, ["setdefault"]):
        if plain(recv) == G and len(args) == 2:
            vals.append(plain(args[1]))
    import ast as _ast
    for v in vals:
        if v[0] in ("call", "callv") and v[1][0] == "global" and \
                mod is not None:
            d = mod.defs.get(v[1][1])
            if isinstance(d, _ast.FunctionDef) and any(
                    isinstance(x, (_ast.Yield, _ast.YieldFrom))
                    for x in _ast.walk(d)):
                return v[1][1]
    return None
