"""Per-property manifest texts (what each check claims / does not decide)."""

ENGINES = [
    dict(name="rigverif", path="/verif/rigverif",
         serves_properties=["C%02d" % i for i in range(1, 21)],
         kind_free_text="custom static analysers over CPython ast: program "
                        "loader + anchors (helpers added since the reference "
                        "tree are read as nested functions of their callers), "
                        "statement CFG with assume nodes and dominators, "
                        "reaching definitions + symbolic polynomial values, "
                        "canonical value terms (TERMS: temporaries, renames, "
                        "unpacking, equivalent spellings, nested helpers and "
                        "hypotheses resolved; facts by cases; idioms such as "
                        "dictionary layering, filtered scans, chunking), "
                        "path-sensitive state exploration with helper "
                        "summaries (PATHS), relational abstract interpreter "
                        "(linear constraints, weak join, own "
                        "Fourier-Motzkin), constant folding of module data, "
                        "bit-layout provenance, order-type evaluation, "
                        "effect/mutation analysis, role (dimension) "
                        "inference, name-based argument linking (NAMELINK), "
                        "truth-test defaults against a parameter's known "
                        "domain (FALSY), loop-local variables read on a "
                        "pass that did not set them (STALE), language-level "
                        "slips (SLIPS: undefined names, missing attributes, "
                        "call signatures, exhausted iterators, containers "
                        "changed under iteration, late-bound closures, "
                        "true division into integer uses, shadowed loop "
                        "variables, catch-alls, unbound locals, cached "
                        "mutable results, stale snapshots). Source normal "
                        "forms are applied before any rule reads the code "
                        "(hoisted assignment expressions, dictionary "
                        "displays with unpacking, parallel assignments, "
                        "struct.Struct objects, bound-method aliases, slice "
                        "objects, numeric constants given a name, boolean "
                        "flags tested with 'is True'); functions are read "
                        "with parameters added since the reference tree at "
                        "their defaults. A rule that cannot read a construct has "
                        "no verdict (UNDECIDED) instead of raising an alarm"),
]

NOT_APPLICABLE = {}

CHECKS = {
    "C13": dict(
        technique="abstract interpretation (linear-constraint domain with "
                  "Fourier-Motzkin entailment) + dominance/decorator analysis "
                  "over SlicedMemoryIO/MemoryIO",
        text="Proves for all operation sequences and argument values, from "
             "the class invariant start<=end: every controller read/write "
             "issued by a view lies inside [start,end) with a positive count "
             "(R1); slices nest in and are exactly the clipped sub-range of "
             "their parent for every sign case (R2); seek computes the "
             "file-model position per whence and rejects other values (R3); "
             "the position advances by exactly the bytes handed to the "
             "controller (R4); every operation incl. slicing is guarded by "
             "the closed/freed test whose wrapper really tests both flags "
             "(R5); TruncationWarning is tied to the branch that cuts the "
             "transfer to the bytes available (R6). Tests sample a few "
             "offsets; this covers all.",
        note="Not decided: that reads return the bytes last written (needs a "
             "memory model; follows from C07 + R1-R4 if the controller is "
             "right). Assumes distinct "
             "local names are not aliases; Python slice-length semantics as "
             "axiomatised in the checker. Known finding K1 (seek whence 2 "
             "uses length-n) is listed in known_findings.json."),
    "C15": dict(
        technique="bit-provenance analysis of struct.pack/unpack expressions "
                  "against a documented layout table + linear-constraint "
                  "abstract interpretation of the SCP argument decoder",
        text="For every field value: derives which bits of which packet "
             "field each packed header byte carries and compares with the "
             "documented SDP header (R1); derives the decoder's slot->field "
             "map and bit extractions and requires the exact inverse, payload "
             "offset = format size (R2); SCP encoder order cmd_rc, seq, "
             "present args, payload; decoder reads arg k at offset 4(k-1) "
             "iff n_args >= k and the body holds 4k bytes, never beyond the "
             "data (R3); cross-module constants agree (R4). The suite pins a "
             "few byte strings (all ports 7, cpu 15); this covers every "
             "field value and length.",
        note="Not decided: values wider than a field are the caller's "
             "responsibility. Trusted: the SDP_LAYOUT table transcribed in "
             "rules/C15.py; struct standard-size semantics."),
    "C19": dict(
        technique="constant folding of module tables from the AST, validated "
                  "exhaustively against an independent tile description; "
                  "symbolic normal forms of the indexing functions",
        text="Folds SPINN5_ETH_OFFSET (144 cells) and SPINN5_FPGA_LINKS (48 "
             "entries) and checks every cell/entry against an independent "
             "description of the 48-chip SpiNN-5 tile and the three-board "
             "12x12 tiling (exhaustive). Checks by normal form that the "
             "functions index [ (y-root_y)%12 ][ (x-root_x)%12 ], wrap "
             "results modulo the machine size, negate the offset for the "
             "on-board coordinate, iterate the table's own Ethernet triple "
             "over range(0, size, 12) cells with the out-of-machine filter, "
             "key the FPGA table by the on-board coordinate, and scale "
             "triads by 12 behind the %3 guard.",
        note="Not decided: standard_system_dimensions' squarest-factor "
             "search. Trusted: the tile description at the top of "
             "rules/C19.py."),
    "C17": dict(
        technique="effect / mutation analysis: origin-tracking dataflow "
                  "(parameter depth, fresh, module-level) with callee "
                  "summaries, flag partitioning and allow-lists",
        text="For all 719 parameters of public functions/methods of the "
             "whole rig package (64 modules): no in-place mutation of an argument down to two "
             "levels inside it, directly or via resolved callees (R1); "
             "module-level mutables written only by the one allow-listed "
             "memo (R2); no mutable default mutated or retained (R3); RNG "
             "draws only on the caller's generator (R4); no evidently-"
             "container argument retained by reference, also through "
             "constructors (R5). Tests compare a few before/after values; "
             "this covers every path.",
        note="Not decided: order-dependence through hashing/iteration order "
             "of user objects; aliasing through objects of non-rig classes. "
             "Assumes rig functions return objects that do not alias their "
             "arguments except as modelled (copies, elements, iterators). "
             "Allow-lists (11 symbols) carry a written reason each."),
    "C20": dict(
        technique="effect analysis (no leaking options) + CFG dominance / "
                  "must-pass-through for the datagram order + Fourier-"
                  "Motzkin proof of the announced block count + constant "
                  "folding of offsets and formats",
        text="Options of one boot() call cannot leak: no function of "
             "boot.py/struct_file.py mutates an argument, the shared "
             "default or module state (R1). Start precedes all blocks, end "
             "follows on every path; announced count proved = "
             "ceil(len/1024) with the constant the loop slices by; blocks "
             "numbered 0,1,.. in bits 7:0 under the asserted bound (R2). "
             "The splice writes exactly buf[384:512] from packed[:128] "
             "taken after both default updates, and the updated structs are "
             "returned (R3). Header '!H4I' order and the <I -> !I word swap "
             "(R4). The suite never runs the real boot().",
        note="Not decided: timing, boot ROM acceptance; that the loop's "
             "iteration count equals the announced count is argued from the "
             "head/tail slice structure, not by a machine-checked "
             "invariant. Assumes assert statements are enabled."),
    "C06": dict(
        technique="typestate / dominance analysis over the burst loop's CFG "
                  "with fact invalidation by re-definition or mutation, "
                  "symbolic values, constant folding of the return-code "
                  "tables",
        text="For every schedule of losses/duplicates/reordering the "
             "structural necessary conditions hold on all paths: the "
             "outstanding table grows at one site dominated by a still-valid "
             "len(table) < window test (R1) and a still-valid 'seq not in "
             "table' test for the very key inserted, from the once-created "
             "16-bit per-connection counter (R2); callbacks run only on "
             "pairs taken from the completion queue, which is fed only where "
             "the matching entry was just popped, with that datagram's bytes; "
             "the loop cannot end with work pending (R3); retransmission "
             "only after the deadline and below the try limit, followed by "
             "try-count +1 and deadline = now + timeout; TimeoutError only "
             "when expired and exhausted (R4); {ok}/retryable/fatal "
             "partition the enum whose wire values equal SC&MP's (R5); reply "
             "offset 10 (R6).",
        note="Not decided: real-time behaviour, 16-bit wrap with a command "
             "outstanding beyond the skip loop (XXX in source), malformed "
             "datagrams, termination beyond the bounded try counter. "
             "Trusted: SC&MP return-code table transcribed in rules/C06.py."),
    "C07": dict(
        technique="abstract interpretation (linear constraints + "
                  "Fourier-Motzkin, slice-length and floor-division axioms) "
                  "for chunk tiling; symbolic per-iteration cursor advance; "
                  "constant folding of the access-type table; role inference "
                  "for argument forwarding",
        text="For every address/length/buffer size: in SCPConnection.read/"
             "write and MachineController.read/write_across_link each "
             "command's chunk satisfies 1 <= chunk <= remaining (and <= "
             "buffer), every cursor advances by exactly the chunk, nothing "
             "remains at loop exit: commands tile the request without gap or "
             "overlap; each read callback owns the result slice of its "
             "command (R1). address_length_dtype folded and equal to the "
             "alignment rule on all 16 residues; the key is (A%4, N%4) of "
             "the A, N actually sent (R2). Payload offset 14 (R3). Struct "
             "and per-core field address formulas; fill alignment branch "
             "(R4). x/y/p/address/length forwarded role-preservingly to the "
             "connection (R5). Link commands' address and length stay "
             "multiples of 4 through the loop (must-analysis, R1).",
        note="Not decided: faults beyond C06; the machine's side. Assumes advertised buffer size >= 1 (>= 4 for links) "
             "and non-negative lengths."),
    "C05": dict(
        technique="order-type abstract evaluation of slices_overlap (75 weak "
                  "orderings), Fourier-Motzkin proof of align, dominance / "
                  "must-pass-through analysis of the allocator's retry loop",
        text="slices_overlap equals half-open intersection on every ordering "
             "of its endpoints and align returns the least multiple >= value "
             "(R1). In allocate, for all inputs: the stored range is the "
             "last proposal = slice(s, s+requirement) with s = "
             "align(pointer, alignment) of the same resource; the retry loop "
             "exits only with the overlap flag false, the flag is raised on "
             "every path where slices_overlap(proposal, r) holds for both "
             "the global list of the resource and the local list of this "
             "chip+resource and is never overwritten; every path from the "
             "flag reset to the loop test passes the bound test against "
             "machine[xy][resource] (R2); accepted ranges bump the pointer, "
             "pointers are re-created per chip (R3); only "
             "InsufficientResourceError is raised (R4).",
        note="Not decided: the 'always succeeds on a feasible placement' "
             "clause; termination of the retry loop with interleaved "
             "reservations. Assumes alignments >= 1."),
    "C08": dict(
        technique="symbolic range analysis of the first-fit scan, "
                  "linear-constraint abstract interpretation under a chosen "
                  "hypothesis, order-type evaluation of the overlap "
                  "predicate, normal-form comparison of mask formulas, "
                  "must-pass-through",
        text="The first-fit scan's last tried position plus the length "
             "equals the bit-field length the acceptance test allows (R1). "
             "With start_at given, the field is recorded only if 0 <= "
             "start_at and start_at + (length or 1) <= length of the bit "
             "field; the overlap test over potential_fields equals "
             "half-open intersection on all endpoint orderings (R2). Mask, "
             "occupancy and field-bit expressions are one formula "
             "((1<<L)-1)<<S, values shift by the same S, out-of-range "
             "values rejected (R3). Occupancy accumulates over "
             "potential_fields and over each placement's result, which "
             "always includes the new field's bits; lengths pass before "
             "positions, children before parents (R4). max_value follows "
             "accepted values (R5). Tags reach every required ancestor, no "
             "early exit (R6).",
        note="Not decided: non-overlap for every hierarchy shape (contents "
             "of the field tree); that distinct complete assignments never "
             "match each other; exactness of the log2-based automatic "
             "length above 2**48. Assumes field lengths >= 1."),
    "C12": dict(
        technique="bit-provenance analysis of the region word (sibling "
                  "agreement), constant folding over the four hierarchy "
                  "levels, symbolic normal forms of the index formula, "
                  "dominance facts on the collapse logic",
        text="Both producers of region words use x block<<24 | y block<<16 | "
             "level<<16 | select bits; per level the mask clears exactly the "
             "bits below the block size and scale/4 == 1<<shift (R1). "
             "add_core and get_region_for_chip share one sub-block index "
             "normal form, and a child's base inverts it (R2). A node "
             "collapses exactly at 0xffff and never at the root, clears "
             "itself, the parent sets that child's bit iff it reported "
             "full, selected sub-blocks are not re-entered, sub-trees are "
             "only created never discarded, the traversal's child indices "
             "fold to all of 0..15 (R3). Result sorted by (region, mask); "
             "core range 0..17 matches the 18-entry array (R4).",
        note="Not decided: exactness of the cover for every subset (an "
             "induction over the tree); the rules are its per-step necessary "
             "conditions. Trusted: the region word layout as documented."),
    "C16": dict(
        technique="order-type evaluation of the clamp expression, constant "
                  "folding of the bound formulas over the finite format "
                  "table (widths 1..64 x signedness), representability "
                  "check of the folded clip bounds, normal forms of scales",
        text="float_to_fp returns clamp(int(scale*x), min, max) - "
             "truncation first, clamp in exact integers - on all orderings; "
             "its bounds fold to the format's extremes for all 128 formats "
             "(R1). NumpyFloatToFixConverter folds to the same bounds for "
             "its 8 admitted formats, same scale, complete dtype table "
             "(R2). Each folded integer clip bound must not round outwards "
             "as a double, since np.clip compares in floating point (R3). "
             "Inverse scales 2^-n_frac (multiply) / 2^n_frac (divide); "
             "fix_to_float's sign-bit test and 2^n adjustment (R4).",
        note="Not decided: monotonicity, one-LSB accuracy and exact round "
             "trip over the float line (floating-point semantics). Known "
             "findings K3: both 64-bit formats' upper clip bound rounds up "
             "(large positive -> most negative / 0), listed in "
             "known_findings.json."),
    "C11": dict(
        technique="constant folding of the link tables (exhaustive), "
                  "linear-constraint abstract interpretation of from_vector, "
                  "order-type abstract evaluation of the unrolled comparison "
                  "code (13 / 13 / 4683 weak orderings), normal-form "
                  "comparison of the torus candidates",
        text="Link vectors, their inverse table, opposites and the Routes "
             "numbering are mutually consistent and equal the documented six "
             "directions; from_vector folds every wrapped component into "
             "{-1,0,1} with the sign flipped (R1). The walk steps by "
             "(s,0)/(0,s)/(-s,-s) per dimension and labels each step with "
             "from_vector of the step actually added; ring directions are "
             "the six links in rotation order (R2). shortest_mesh_path_"
             "length = max-min, minimise_xyz subtracts the median, "
             "shortest_torus_path_length = min(max(x,y), w-x+y, x+h-y, "
             "max(w-x,h-y)) on every weak ordering of the operands; the "
             "vector function pairs those same four lengths with the "
             "matching vectors; spiral bounds are truncated quotients (R3).",
        note="Not decided: that those closed forms equal graph distance in "
             "the hexagonal mesh/torus (a mathematical fact needing a "
             "distance oracle); hop count after the random spiral "
             "adjustment; exactly-once coverage of concentric_hexagons. "
             "Trusted: the six link vectors transcribed in rules/C11.py."),
    "C04": dict(
        technique="bit-parallel truth-table extraction of the key/mask "
                  "algebra, CFG dominance / must-pass-through for the "
                  "default-route predicate and covering ranges, effect "
                  "analysis for alias dictionaries, linear-constraint "
                  "abstract interpretation of the insertion-point search",
        text="intersect, the merged key/mask, X-bit and settable-bit "
             "expressions equal their specification on every bit pattern "
             "(R1). An entry is dropped only under all of: one source, one "
             "route, source known, both links, straight through, and alias "
             "check disabled-or-clean; the alias scan compares the entry's "
             "key/mask with every lower entry's; the check is skipped only "
             "under the equal-masks/distinct-keys test and by no call site "
             "constant (R2). Up-check range table[i+1:insertion_index], "
             "down-check table[insertion_index:] through aliases, insertion "
             "exactly at that index, 'changed' never reset, down/up/down "
             "order (R3). Removed entries' aliases recorded; dictionaries "
             "copied not shared (R4). Failure/target contracts of all "
             "minimisers (R5). Every routing_table[...] index in the "
             "insertion search proved within range, empty table included "
             "(R6).",
        note="Not decided: sufficiency of the up-/down-check refinement for "
             "functional equivalence on every table (an induction over merge "
             "sequences); which members _refine_downcheck chooses to drop."),
    "C10": dict(
        technique="dominance / must-pass-through analysis of table "
                  "generation and loading, struct-format slot comparison "
                  "between writer and reader, bit-provenance of the route "
                  "and command words, constant folding of the Routes enum",
        text="routing_tree_to_tables builds RoutingTableEntry(outs, key, "
             "mask, ins), raises MultisourceRouteError exactly on same "
             "key/mask with different outs, always adds the arrival "
             "direction (None included) on the merge path; traverse never "
             "leaves the child loop early, adds every non-None direction and "
             "enqueues every sub-tree (R1). Loading: allocate -> raise on "
             "zero base before any write -> write staging buffer -> router "
             "load, all addressed to the caller's chip (R2). 16-byte record "
             "(index, 0, route, key, mask) at i*16; reader slots coincide; "
             "route word = OR of 1<<r; reader tests bit r of the unmodified "
             "word for all 24 Routes; command words count<<16|app_id<<8|op "
             "(R3). Read-back of 1024 records cut with the same size (R4).",
        note="Not decided: SC&MP's behaviour; that count/app_id fit their "
             "documented field widths."),
    "C14": dict(
        technique="bit-provenance analysis of the reply decoders against "
                  "the documented layout, symbolic normal forms of table "
                  "addresses, constant folding of enums, structural "
                  "comparison of the derived-set generators and reservation "
                  "filters, parsing of sark.struct",
        text="Chip-information decode: cores 4:0, links bit 8+link, router "
             "block 24:14, Ethernet bit 25, '<18BHI' payload, fields to "
             "their namesakes (R1). P2P table: dims split, column address = "
             "base + 128*col, one word consumed per 8 rows, entry k at bits "
             "3k+2:3k, every 3-bit value an enum member; every routed chip "
             "probed (R2). Dead chips/links and membership tests of "
             "SystemInfo and Machine, iteration filtered by membership (R3). "
             "Machine model: exception iff any quantity differs from the "
             "very default used, all three listed (R4). Global and per-chip "
             "reservation filters test exactly bit <core> of one mask and "
             "so partition the busy cores; range merging (R5). vcpu fields "
             "used exist in sark.struct and the final key set equals "
             "ProcessorStatus; iobuf chain and router counter reads (R6).",
        note="Not decided: that the machine's replies mean what the "
             "documentation says. Trusted: the cmd_info arg1 layout table "
             "in rules/C14.py. Several R3/R6 instances compare normalised "
             "statement text of small generators (listed in DESIGN.md as "
             "the weakest rules)."),
    "C18": dict(
        technique="CFG dominance / must-pass-through over the decorator "
                  "wrapper and Context.__exit__, role (dimension) inference "
                  "over every internal call of both controllers down to the "
                  "packet constructor, stdlib-API existence check (LINK)",
        text="Decorator: defaults (missing = Required) < keyword-only "
             "defaults < context values for names present < explicit "
             "keywords, Required scan dominates the call, stack merged "
             "oldest to newest (R1). __exit__ pops on every normal and "
             "exceptional path, outside any assert, after the callbacks "
             "which are entered on every exit (R2). At all 222 role-"
             "carrying bindings of self.* calls in MachineController and "
             "BMPController: an X/Y/P/APP_ID/CABINET/FRAME/BOARD value "
             "reaches the formal of the same role, a role the caller holds "
             "is never dropped or replaced by a constant (9 reasoned "
             "exemptions), constants only 255/255/0; record and packet "
             "fields follow (R3). Keyword pops declared to the decorator "
             "(R4). Connection choice and the geometry index formula (R5). "
             "All 182 stdlib references exist on this interpreter (R6).",
        note="Not decided: timing of the stop signal; arguments user code "
             "passes through *args. Trusted: role/exemption tables in "
             "roles.py and rules/C18.py."),
    "C09": dict(
        technique="CFG must-pass-through for the fill protocol, "
                  "Fourier-Motzkin proof of the announced block count "
                  "(symbolic divisor), linear-constraint abstract "
                  "interpretation + symbolic cursor advance for the data "
                  "loop and the id counter, bit provenance of the command "
                  "words, dominance facts on the retry loop, LINK",
        text="Every binary's fill passes start -> core selects (sorted "
             "region list of that binary's targets) -> data -> end inside "
             "the per-binary loop, with one fresh id and one forward/retry "
             "word (R1). Announced count = ceil(len/scp_data_length) for "
             "the divisor _send_ffd slices with; blocks 1..buffer bytes, "
             "numbered from 0 by +1, cursor and address advance by the "
             "block size, loop ends at the end of the binary (R2). Id in "
             "1..126 sent doubled; id/count/block/size/app id/flags at "
             "their documented bits (R3). Retry loop bounded; re-fills only "
             "`unloaded` under the caller's app id with wait=True; "
             "still-missing sets re-created per chip / binary / attempt; "
             "error iff something remains; start iff not wait, after "
             "success (R4). Stdlib names on the path exist (R5).",
        note="Not decided: that count == requested really means THESE cores "
             "loaded (it does not when cores of the same app id already "
             "wait - an observation, not a code shape); reassembly on the "
             "machine; block count < 256. Assumes buffer size >= 4."),
    "C02": dict(
        technique="CFG dominance / must-pass-through with def-use identity "
                  "over the placers, resource-role typing of add/subtract "
                  "operands, sibling agreement between the constraint loops "
                  "and between the C kernel's index loops, explicit-raise "
                  "inventory, LINK",
        text="In sequential, random and annealing placers every commit of a "
             "movable vertex is dominated by a failed overallocated(machine"
             "[loc] - vertices_resources[v]) test for that loc and v and "
             "followed by the machine update; location constraints check "
             "the chip, subtract, then check capacity (R1). A swap needs "
             "destination present, a displaced set found and the fit test; "
             "the revert mirrors it; fixed vertices never displaced; chip "
             "resources are always the first operand of add/subtract; the C "
             "kernel indexes resources by one enumeration (R2). All three "
             "constraint loops dispatch location and reservation "
             "constraints identically; wrappers forward their own arguments "
             "(R3). apply/finalise_same_chip_constraints paired on every "
             "non-empty return; the vertex-order rewrite can never remove "
             "a missing element (R4). Reservation arithmetic (R5). Only the "
             "two documented errors are raised explicitly (R6). Stdlib "
             "names exist; no Random.sample of a set (R7).",
        note="Not decided: that the search succeeds whenever a placement "
             "exists; termination of annealing; the C kernel's internals; "
             "implicit exceptions other than the list.remove discipline."),
    "C03": dict(
        technique="CFG dominance / must-pass-through and def-use identity "
                  "over the router, symbolic normal forms of the neighbour "
                  "arithmetic",
        text="Leaves hang on lookup[placements[sink]] of the lookup bound "
             "together with the returned root, with endpoint / per-core / "
             "None routes (R1). The repair runs whenever some tree hop is "
             "not in the machine (R2). A* extends only over a link present "
             "at the neighbour's end, to unvisited chips, recording (link, "
             "node); the disconnecting copy attaches a child iff its own "
             "direction is among links_between(parent, child), else records "
             "the broken pair; dead chips dropped (R3). neighbour = (node + "
             "opposite-link vector) mod (width, height) (R4). Reconnection "
             "targets exclude the orphan's chips recomputed from the live "
             "tree per orphan; a node the detour crosses is detached from "
             "its old parent, searched among all tree nodes, before being "
             "re-attached (R5). Path truncated after its last point on the "
             "tree; fresh registered nodes (R6). Only "
             "MachineHasDisconnectedSubregion is raised (R7).",
        note="Not decided: global acyclicity/connectivity after several "
             "repairs interact; completeness; optimality. Assumes every "
             "non-root node has one parent and is registered in the "
             "lookup."),
    "C01": dict(
        technique="reaching-definition (def-use) identity over both "
                  "place-and-route wrappers, sibling cross-checks between "
                  "router/loader core ranges and between the two "
                  "default-route predicates, plus the delegated dominance "
                  "rules of C03, C04 and C10",
        text="Wiring, for every call: place()'s result is the placement "
             "given to allocate, route and build_application_map; "
             "allocate()'s result is the allocation given to route and the "
             "application map; route()'s trees and the caller's net_keys "
             "feed the table generator, whose tables are minimised against "
             "target lengths built from the same system_info, and the "
             "minimised tables are returned; one machine and one augmented "
             "constraint list reach all three stages (R1, R2). Router and "
             "loader iterate the same [start, stop) of the same allocation "
             "slice (R3). Removing an entry as default-routable and "
             "accepting a missing entry as default-routed use the same five "
             "conditions (R4). The delivery-critical component rules "
             "C10-R1, C04-R2/R3, C03-R3/R4/R5 are re-checked (R6).",
        note="Not decided: that the composed pipeline delivers every packet "
             "exactly once on every machine and fault map (quantifies over "
             "runtime graph contents); cross-chip interactions of minimised "
             "tables with upstream default routing. This check decides "
             "necessary conditions only."),
}


# what the rewrites on value terms / path exploration added to each check's
# deciding method (appended to the technique strings above)
_ADDED = {
    "C01": "canonical value terms for the per-net core range and the "
           "default-route predicates; repair condition and tree-per-net rules shared with C03",
    "C02": "canonical value terms by cases for the capacity test, the C "
           "kernel's inputs and the fixed-vertex merge",
    "C03": "canonical value terms and facts (through helpers) for A*, the "
           "disconnecting copy, leaf routes and tree-node look-ups; facts between tree generation and repair; object identity of per-net trees",
    "C04": "canonical value terms: list-building abstraction of "
           "_Merge.apply (cursor / append / segment forms), refine order by "
           "cases, per-round rescan, unit propagation over path facts, "
           "operands of the up-check's intersection test (followed through "
           "helpers)",
    "C05": "roles read off the allocator's data flow as value terms; "
           "path-sensitive state exploration (PATHS) of the retry loop with "
           "helper summaries: on every path to the commit the proposal was "
           "scanned completely against both reservation sources with no "
           "overlap and bounded by the chip's own capacity; constant folding of the busy-state table (shared with C14)",
    "C06": "canonical value terms with nested-helper views for the burst's "
           "table, queue, keys and deadlines",
    "C07": "canonical value terms for block sizes, addresses and the link "
           "windows; residues by mask in the must-analysis 'multiple of 4'; C06's once-per-reply rule",
    "C08": "canonical value terms by cases (fixed / floating position), "
           "path-sensitive exploration (PATHS) of the children scans, "
           "allocation-site analysis of the per-child requirement dict, "
           "acceptance bound start + length <= length by cases (path facts "
           "or range() scan element); must-pass-through of the occupancy scan; sibling agreement of the two tree walks",
    "C09": "canonical value terms for the wait flag, writers and the "
           "verification walk",
    "C10": "canonical value terms for table records, arrival directions and "
           "the loader's words (attributes stored on some paths keep their "
           "entry value on the others); constructor forwarding of RoutingTableEntry; record keys on terms",
    "C11": "walk evaluated by cases on value terms (recorded position per "
           "dimension, sign and wrap case); polynomial normal form of the "
           "signed torus offsets; MEMO; Fourier-Motzkin feasibility of candidate orderings",
    "C12": "canonical value terms per hierarchy level; unguarded insertion "
           "of every target; grouping test on path facts",
    "C13": "proofs on the two halves of the input space (position inside / "
           "before the view); polynomial identity end - start = size of the allocated view",
    "C14": "canonical value terms for decoders, derived sets, range merging "
           "by cases, running maxima, version text; constant folding of the Perl pack-code table against a trusted reference; busy-state table",
    "C15": "canonical value terms by cases (8 argument-presence cases) with "
           "literal-loop unrolling and list/join part extraction",
    "C16": "canonical value terms for the clamp and the array pipeline "
           "(clip or minimum/maximum forms); MEMO with folding over the 128 formats",
    "C17": "value-class query methods checked for instance writes; MEMO (sound / stale / mutable / generator); instances adopting module-level mutables",
    "C18": "dictionary layering (ordered overlay of defaults / context / "
           "explicit arguments whatever the spelling), context ownership of "
           "its arguments, probe-over-new-connection ordering; candidate-key loops; C15's header layout rules re-run; command words and records on terms",
    "C19": "canonical value terms for the factor search and the Ethernet "
           "coordinates; round-up spellings proved equal (mod/floor-div identity); width/height maxima on terms",
    "C20": "canonical value terms for option application, size limit, "
           "splice and byte swap (word-wise or bulk); must-pass-through of "
           "the per-field store in Struct.pack; object identity of the returned struct table; keyword forwarding of MachineController.boot",
}
for _k, _v in _ADDED.items():
    if _k in CHECKS and _v not in CHECKS[_k]["technique"]:
        CHECKS[_k]["technique"] += "; " + _v
    if _k in CHECKS and "UNDECIDED" not in CHECKS[_k].get("note", ""):
        CHECKS[_k]["note"] = (CHECKS[_k].get("note", "") + " A rule that "
                              "meets a construct it cannot read prints "
                              "UNDECIDED (no verdict from that rule, exit "
                              "code unaffected) instead of a violation.")


# Clauses added after round 6 (DESIGN.md 9.12): (property, text it follows,
# replacement)
_AMEND = [
    ("C02", "Only the two documented errors are raised explicitly (R6). "
            "Stdlib names exist; no Random.sample of a set (R7).",
     "Only the two documented errors are raised explicitly, and a random "
     "draw from a population the function itself shrinks is made under a "
     "non-emptiness test still in force (R6). Stdlib names exist; no "
     "Random.sample of a set; no container filled with one shared mutable "
     "object (dict.fromkeys(keys, []), [[]]*n) whose entries are changed in "
     "place (R7)."),
    ("C05", "only InsufficientResourceError is raised (R4).",
     "only InsufficientResourceError is raised, and Machine.__setitem__ "
     "records a chip's resources on every normal path so that machine[xy], "
     "the bound, is what was last assigned (R4)."),
    ("C07", "(must-analysis, R1).",
     "(must-analysis, R1). The SDP header bytes carry the destination chip "
     "and core at their full field width (C15-R1, re-run here)."),
    ("C08", "Tags reach every required ancestor, no early exit (R6).",
     "Tags reach every required ancestor, no early exit (R6). The derived "
     "bit field made by __call__ is given the length and field tree of the "
     "one it is derived from (R2)."),
    ("C11", "spiral bounds are truncated quotients (R3).",
     "spiral bounds are truncated quotients (R3). Every call of a geometry "
     "function anywhere in rig passes axis-named variables (width/height, "
     "x/y, root_x/root_y) to the parameter of the same axis (R5)."),
    ("C14", "every routed chip probed (R2).",
     "every routed chip probed, and every exception class the transport "
     "raises for an unanswered command derives from the class the probe's "
     "handler catches (R2)."),
    ("C14", "iobuf chain and router counter reads (R6).",
     "iobuf chain and router counter reads; each status field decoded with "
     "its own format at its own offset (R6)."),
    ("C15", "compares with the documented SDP header (R1);",
     "compares with the documented SDP header, by absolute byte offset "
     "(constant zero padding + format); a range test in the constructor "
     "refuses a field only above the top of its header field (R1);"),
    ("C18", "Connection choice and the geometry index formula (R5).",
     "Connection choice and the geometry index formula (R5). A new context "
     "holds exactly the keyword arguments it was created with (R2)."),
    ("C20", "and the updated structs are returned (R3).",
     "the updated structs are returned, and the image and struct files read "
     "are the caller's unless that very argument is None (R3)."),
    ("C01", "of the same allocation slice (R3).",
     "of the same allocation slice and each core route names the loop's own "
     "element (R3)."),
    ("C04", "down-check table[insertion_index:] through aliases,",
     "down-check table[insertion_index:] through aliases with no entry left "
     "out by another test,"),
    ("C19", "wrap results modulo the machine size,",
     "wrap results modulo the machine size (a wrap written with tests must "
     "move each coordinate by its own dimension),"),
]
# clauses added after round 7 (DESIGN.md 9.13)
_NAMELINK = (" Calls of package functions in the property's packages pass "
             "every argument that shares a parameter's name to that "
             "parameter, and forward the optional parameters they hold "
             "under the same name (NAMELINK).")
for _k in ("C01", "C02", "C03", "C04", "C05", "C06", "C07", "C09", "C10",
           "C12", "C14", "C17", "C18", "C20"):
    CHECKS[_k]["text"] += _NAMELINK
CHECKS["C01"]["text"] += (" The placement helpers change none of their "
                          "arguments in place (C17-R1, re-run); the table "
                          "stored for a chip is the minimiser's result "
                          "(C04-R5).")
CHECKS["C02"]["text"] += (" A caller-supplied chip order is filtered to the "
                          "machine's chips (R1); the placement helpers "
                          "change none of their arguments in place "
                          "(C17-R1).")
CHECKS["C09"]["text"] += (" The per-core read-back address is computed per "
                          "call from the chip and core asked about "
                          "(C07-R4, re-run).")
CHECKS["C14"]["text"] += (" Per-core field addresses use nothing kept on "
                          "the controller between calls (C07-R4, re-run).")
CHECKS["C13"]["text"] += " __exit__ closes the view on every path (R5)."
CHECKS["C15"]["text"] += (" A length guard in front of a decoder refuses "
                          "only datagrams shorter than the header (R2).")
CHECKS["C17"]["text"] += (" No function draws from a generator object kept "
                          "at module level (R4).")
CHECKS["C18"]["text"] += (" Every public command with contextual parameter "
                          "names is wrapped by the decorator (R4); the "
                          "context overlay does not depend on the value "
                          "currently held (R1).")
CHECKS["C19"]["text"] += (" spinn5_eth_coords leaves none of its loops "
                          "early (R2).")
CHECKS["C20"]["text"] += (" The struct file's field-code table keeps width "
                          "and signedness (C14-R6, re-run).")
CHECKS["C12"]["text"] += (" Every target core reaches add_core (R4).")
# round 8
_GENERIC8 = (" In the same packages: no default chosen by a truth test "
             "replaces a falsy value the parameter is known to take (FALSY), "
             "no loop reads a variable of its own that the current pass may "
             "not have set (STALE), no container holds one mutable object "
             "under every key and is then changed through one entry.")
for _k in ("C01", "C02", "C03", "C04", "C05", "C06", "C07", "C09", "C10",
           "C12", "C14", "C17", "C18", "C20"):
    CHECKS[_k]["text"] += _GENERIC8
CHECKS["C01"]["text"] += (" The up-check examines every member of a merge "
                          "(C04-R3, re-run); reserve_monitor adds a global "
                          "reservation of core 0 unless one is already there "
                          "(R2); the wrappers change none of their "
                          "arguments in place (C17-R1).")
CHECKS["C02"]["text"] += (" The annealer makes at least one swap attempt "
                          "per temperature and the kernel's lookups have an "
                          "entry for every vertex and chip (R2).")
CHECKS["C03"]["text"] += (" The table of endpoint routes is only read while "
                          "the nets are handled (R1); the vector walked from "
                          "a chip is the shortest path from that chip on "
                          "every pass (C11-R5, re-run).")
CHECKS["C04"]["text"] += (" The up-check's member loop is left early only "
                          "once the merge is given up (R3).")
CHECKS["C05"]["text"] += (" The monitor reservation made by wrapper() is "
                          "global (C01-R2, re-run).")
CHECKS["C08"]["text"] += (" A field search below a node goes on to the next "
                          "enabled child (R3).")
CHECKS["C09"]["text"] += (" After every fill the map of unloaded cores is "
                          "established anew before it is read again (R4); "
                          "SCP argument words that are zero are written "
                          "(C15-R3, re-run).")
CHECKS["C11"]["text"] += (" The vector a router walks from a chip is the "
                          "shortest path computed from that chip (R5).")
CHECKS["C12"]["text"] += (" No selection of a node is left out by its "
                          "position in the sorted selections (R4).")
CHECKS["C13"]["text"] += (" The root's transfer functions are refused only "
                          "once the allocation is freed (R5).")
CHECKS["C14"]["text"] += (" In the enumerated form of the P2P decode, word "
                          "k of a column of height h yields min(8, h - 8k) "
                          "entries for every h in 1..255 (R2); "
                          "place_and_route_wrapper does not leave the "
                          "reservations of one probe in the caller's list "
                          "(C17-R1, re-run).")
CHECKS["C15"]["text"] += (" A packet constructed with a field value of 0 "
                          "keeps that 0 (FALSY with the header-field "
                          "domains, R1).")
CHECKS["C16"]["text"] += (" The signed flag is read the same way (truth "
                          "value / equality, not identity with True) by "
                          "every statement of a constructor (R2).")
CHECKS["C17"]["text"] += (" No loop draws from the caller's generator once "
                          "per element of a set (R4); x += f() with f "
                          "returning a list it made is an in-place change "
                          "(R1).")
CHECKS["C18"]["text"] += (" A BMP command for several boards goes to the "
                          "first board the caller named (R5).")
CHECKS["C19"]["text"] += (" spinn5_eth_coords lists no chip apart from its "
                          "walk without comparing it with the bounds, and "
                          "the controller's root chip is unknown until the "
                          "machine reports it (R2).")
CHECKS["C20"]["text"] += (" Numbers of a struct file are read in base 16 "
                          "when written 0x..., else base 10 (R3).")
# rounds 9 and 10
_GENERIC9 = (" In the same packages (SLIPS, each with a positive example "
             "that must match on every run): every name read is bound "
             "somewhere, every self attribute is stored somewhere in the "
             "package, every call of a package function resolved to one "
             "definition fits its parameter list, no one-shot iterator is "
             "measured, indexed or traversed twice, no container changes "
             "size under its own for loop, no stored closure reads a loop "
             "variable, no true division feeds an integer-only use, no inner "
             "loop clobbers an outer loop's variable that is read "
             "afterwards, no catch-all hides errors, no local is read on a "
             "path that passes none of its bindings, no lru_cache hands out "
             "a mutable object its function made, no value computed from a "
             "container before a loop is read in the loop while the loop "
             "adds to the container, no collection worked out from an "
             "object before a loop is gone through in the loop after the "
             "loop re-bound the object, no clean-up is written twice in "
             "place of finally; the values a package function returns "
             "as (.. y .., .. x ..) are not unpacked under names that say "
             "(x, y).")
for _k in sorted(CHECKS):
    CHECKS[_k]["text"] += _GENERIC9
    CHECKS[_k]["technique"] += (
        "; language-level slip analyses over the property's packages "
        "(symtable scoping, resolved call signatures, CFG reachability of "
        "bindings and iterator traversals)")
    CHECKS[_k]["note"] += (
        " A finding that only says an expected construct was not found or "
        "a bound was not shown is withheld (UNDECIDED) when the function "
        "delegates to helpers / methods the reference tree did not have, is "
        "rewritten beyond 12 statements of the reference function, or when "
        "the value concerned is one the engines could not interpret; "
        "findings derived from what the code does are never withheld. A "
        "parameter added since the reference tree (constant default, not "
        "passed by any call in the package) is read at its default: whether "
        "the property holds when the new option is used is not decided "
        "(printed as UNDECIDED rules=new-options).")
for _k in ("C08", "C11", "C13", "C15", "C16", "C19"):
    CHECKS[_k]["text"] += (" Calls of package functions in the property's "
                           "modules pass every argument that shares a "
                           "parameter's name to that parameter (NAMELINK); "
                           "no truth-test default replaces a known falsy "
                           "value (FALSY); no loop reads a variable its "
                           "current pass may not have set (STALE); no "
                           "statement computes a value only to drop it.")
CHECKS["C01"]["text"] += (" Neither ordered_covering nor _Merge.apply "
                          "changes the aliases dictionary it is given or a "
                          "set kept in it (C04-R4, re-run).")
CHECKS["C04"]["text"] += (" A set popped from a shallow copy of the "
                          "caller's aliases is not enlarged in place (R4).")
CHECKS["C17"]["text"] += (" The minimiser's aliases argument and the sets in "
                          "it are not changed in place (C04-R4, re-run); a "
                          "context keeps a copy of the dictionary it is "
                          "created with (C18-R1, re-run).")
CHECKS["C02"]["text"] += (" The Hilbert placer's level count is "
                          "ceil(log2(max(width, height))) (R9).")
CHECKS["C12"]["text"] += (" No method stores None into (or deletes) an "
                          "entry of a node's sub-trees (R3).")
CHECKS["C05"]["text"] += (" The reservation tables are only read while "
                          "ranges are handed out (R2); slices_overlap is "
                          "half-open intersection on all 75 orderings of "
                          "four integer endpoints, also when written with "
                          "stop - 1 (R1).")
CHECKS["C16"]["text"] += (" The array converter compares / clips the scaled "
                          "values, never the caller's unscaled array, with "
                          "the integer bounds (R2).")
CHECKS["C20"]["text"] += (" No option value is passed over or replaced on a "
                          "truth test, in update_default_values or in "
                          "boot() (R3).")
for _k, _old, _new in _AMEND:
    assert _old in CHECKS[_k]["text"], (_k, _old)
    CHECKS[_k]["text"] = CHECKS[_k]["text"].replace(_old, _new, 1)
# round 14 (supporting code: tables, data files, helpers, defaults)
CHECKS["C01"]["text"] += (" _refine_upcheck never returns a merge that "
                          "lost members with its changed flag false "
                          "(C04-R3 changed flag, a path analysis).")
CHECKS["C03"]["text"] += (" The walk wraps x by the width and y by the "
                          "height and the search rings are the six link "
                          "directions in order (C11-R2, re-run).")
CHECKS["C04"]["text"] += (" Nothing is removed from the union of the "
                          "members' sources (R1); the up-check never "
                          "returns a smaller merge with changed false "
                          "(R3).")
CHECKS["C06"]["text"] += (" Every value seqs() yields is 0 or ends in "
                          "& mask, mask 0xffff by default (R2).")
for _k in ("C07", "C09", "C10"):
    CHECKS[_k]["text"] += (" Sequence numbers fit and use the 16-bit wire "
                           "field (C06-R2, re-run).")
CHECKS["C08"]["text"] += (" enabled_fields / potential_fields hand their "
                          "children the field values they were given "
                          "(R3).")
CHECKS["C09"]["text"] += (" AppState has a member with SARK's number for "
                          "every state a core reports (R4); the region "
                          "tree releases no sub-tree (C12-R3, re-run).")
CHECKS["C11"]["text"] += (" A coordinate is wrapped only by the size of its "
                          "own axis, in the modulo and in the conditional "
                          "form (R2).")
CHECKS["C14"]["text"] += (" Every vcpu field of sark.struct lies at the "
                          "offset and has the width SARK gives it, the "
                          "struct is 128 bytes (R6); AppState and the SCP "
                          "return-code tables carry SARK's / SC&MP's "
                          "numbers and cover all of them (C09-R4, C06-R5, "
                          "re-run).")
CHECKS["C16"]["text"] += (" validate_fp_params, folded for every admitted "
                          "format, returns the format's lowest and highest "
                          "value (R2).")
for _k in sorted(CHECKS):
    CHECKS[_k]["text"] += (" No integer key packs two values at the same "
                           "bit position (PACKKEY); no text already "
                           "formatted is handed to a callee that formats "
                           "it again (REFORMAT).")
# round 15 (exceptional and boundary situations)
for _k in ("C07", "C14", "C20"):
    CHECKS[_k]["text"] += (" No field of a struct of sark.struct runs into "
                           "the next one or past the end of its struct "
                           "(C14-R6 struct overlap).")
for _k in sorted(CHECKS):
    CHECKS[_k]["text"] += (" No parameter whose default is a mutable object "
                           "made at definition time is handed back or "
                           "stored on a path that has not re-bound it "
                           "(DEFAULTLEAK).")
    CHECKS[_k]["technique"] += (
        "; relational interval proofs join with the one-step transitive "
        "consequences of each side as candidates")
