"""Per-property manifest texts (what each check claims / does not decide)."""

ENGINES = [
    dict(name="rigverif", path="/verif/rigverif",
         serves_properties=["C%02d" % i for i in range(1, 21)],
         kind_free_text="custom static analysers over CPython ast: program "
                        "loader + anchors, statement CFG with assume nodes and "
                        "dominators, reaching definitions + symbolic "
                        "polynomial values, relational abstract interpreter "
                        "(linear constraints, weak join, own Fourier-Motzkin), "
                        "constant folding of module data, bit-layout "
                        "provenance, order-type evaluation, effect/mutation "
                        "analysis, role (dimension) inference"),
]

NOT_APPLICABLE = {}

CHECKS = {
    "C13": dict(
        technique="abstract interpretation (linear-constraint domain with "
                  "Fourier-Motzkin entailment) + dominance/decorator analysis "
                  "over SlicedMemoryIO/MemoryIO",
        text="Proves for all operation sequences and argument values, from "
             "the class invariant start<=end: every controller read/write "
             "issued by a view lies inside [start,end) with a positive count "
             "(R1); slices nest in and are exactly the clipped sub-range of "
             "their parent for every sign case (R2); seek computes the "
             "file-model position per whence and rejects other values (R3); "
             "the position advances by exactly the bytes handed to the "
             "controller (R4); every operation incl. slicing is guarded by "
             "the closed/freed test whose wrapper really tests both flags "
             "(R5). Tests sample a few offsets; this covers all.",
        note="Not decided: that reads return the bytes last written (needs a "
             "memory model; follows from C07 + R1-R4 if the controller is "
             "right); when TruncationWarning is emitted. Assumes distinct "
             "local names are not aliases; Python slice-length semantics as "
             "axiomatised in the checker. Known finding K1 (seek whence 2 "
             "uses length-n) is listed in known_findings.json."),
}
