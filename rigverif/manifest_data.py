"""Per-property manifest texts (what each check claims / does not decide)."""

ENGINES = [
    dict(name="rigverif", path="/verif/rigverif",
         serves_properties=["C%02d" % i for i in range(1, 21)],
         kind_free_text="custom static analysers over CPython ast: program "
                        "loader + anchors, statement CFG with assume nodes and "
                        "dominators, reaching definitions + symbolic "
                        "polynomial values, relational abstract interpreter "
                        "(linear constraints, weak join, own Fourier-Motzkin), "
                        "constant folding of module data, bit-layout "
                        "provenance, order-type evaluation, effect/mutation "
                        "analysis, role (dimension) inference"),
]

NOT_APPLICABLE = {}

CHECKS = {
    "C13": dict(
        technique="abstract interpretation (linear-constraint domain with "
                  "Fourier-Motzkin entailment) + dominance/decorator analysis "
                  "over SlicedMemoryIO/MemoryIO",
        text="Proves for all operation sequences and argument values, from "
             "the class invariant start<=end: every controller read/write "
             "issued by a view lies inside [start,end) with a positive count "
             "(R1); slices nest in and are exactly the clipped sub-range of "
             "their parent for every sign case (R2); seek computes the "
             "file-model position per whence and rejects other values (R3); "
             "the position advances by exactly the bytes handed to the "
             "controller (R4); every operation incl. slicing is guarded by "
             "the closed/freed test whose wrapper really tests both flags "
             "(R5). Tests sample a few offsets; this covers all.",
        note="Not decided: that reads return the bytes last written (needs a "
             "memory model; follows from C07 + R1-R4 if the controller is "
             "right); when TruncationWarning is emitted. Assumes distinct "
             "local names are not aliases; Python slice-length semantics as "
             "axiomatised in the checker. Known finding K1 (seek whence 2 "
             "uses length-n) is listed in known_findings.json."),
    "C15": dict(
        technique="bit-provenance analysis of struct.pack/unpack expressions "
                  "against a documented layout table + linear-constraint "
                  "abstract interpretation of the SCP argument decoder",
        text="For every field value: derives which bits of which packet "
             "field each packed header byte carries and compares with the "
             "documented SDP header (R1); derives the decoder's slot->field "
             "map and bit extractions and requires the exact inverse, payload "
             "offset = format size (R2); SCP encoder order cmd_rc, seq, "
             "present args, payload; decoder reads arg k at offset 4(k-1) "
             "iff n_args >= k and the body holds 4k bytes, never beyond the "
             "data (R3); cross-module constants agree (R4). The suite pins a "
             "few byte strings (all ports 7, cpu 15); this covers every "
             "field value and length.",
        note="Not decided: values wider than a field are the caller's "
             "responsibility. Trusted: the SDP_LAYOUT table transcribed in "
             "rules/C15.py; struct standard-size semantics."),
    "C19": dict(
        technique="constant folding of module tables from the AST, validated "
                  "exhaustively against an independent tile description; "
                  "symbolic normal forms of the indexing functions",
        text="Folds SPINN5_ETH_OFFSET (144 cells) and SPINN5_FPGA_LINKS (48 "
             "entries) and checks every cell/entry against an independent "
             "description of the 48-chip SpiNN-5 tile and the three-board "
             "12x12 tiling (exhaustive). Checks by normal form that the "
             "functions index [ (y-root_y)%12 ][ (x-root_x)%12 ], wrap "
             "results modulo the machine size, negate the offset for the "
             "on-board coordinate, iterate the table's own Ethernet triple "
             "over range(0, size, 12) cells with the out-of-machine filter, "
             "key the FPGA table by the on-board coordinate, and scale "
             "triads by 12 behind the %3 guard.",
        note="Not decided: standard_system_dimensions' squarest-factor "
             "search. Trusted: the tile description at the top of "
             "rules/C19.py."),
}
