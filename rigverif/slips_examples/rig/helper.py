def gen(n):
    for i in range(n):
        yield i


def two(a, b, c=3):
    return a + b + c


class Base(object):
    def __init__(self, x):
        self.x = x

    def meth(self, a, b=1):
        return self.x + a + b
