import math
from .helper import gen, two, Base
from . import helper


class Child(Base):
    def __init__(self, x, y):
        Base.__init__(self, x)
        self.y = y

    def good(self):
        return self.x + self.y + self.meth(1, b=2)

    def bad_attr(self):
        return self.z

    def bad_call(self):
        return self.meth(1, 2, 3)

    def bad_kw(self):
        return self.meth(1, c=2)


def undef_name(a):
    if a > 3:
        return a
    raise ValueError(mesage)


def bad_two():
    helper.two(1)
    two(1, 2, 3, 4)
    two(1, 2, d=4)
    two(1, a=2, b=3)
    Child(1)
    return two(1, 2)


def exhaust1(xs):
    g = (x * 2 for x in xs)
    total = sum(g)
    return total, max(g)


def exhaust2(xs):
    g = gen(4)
    n = len(g)
    if g:
        pass
    return g[0], n


def exhaust3(xs):
    pairs = zip(xs, xs)
    out = []
    for x in xs:
        for a, b in pairs:
            out.append(a + b + x)
    return out


def exhaust_ok(xs, flag):
    g = (x for x in xs)
    if flag:
        return list(g)
    else:
        return sorted(g)


def exhaust_ok2(xs):
    out = []
    for x in xs:
        g = (y for y in x)
        out.append(list(g))
    return out


def exhaust_ok3(xs, need):
    cursor = iter(xs)
    got = []
    while len(got) < need:
        for x in cursor:
            if x > 0:
                break
        else:
            return None
        got.append(x)
    return got


def itermut1(d):
    for k, v in d.items():
        if v is None:
            del d[k]
    s = set(d)
    for k in s:
        if k > 3:
            s.discard(k)
    l = list(d)
    for k in l:
        if k < 0:
            l.remove(k)
    return d


def itermut_ok(d):
    for k in list(d):
        del d[k]
    for k, v in d.items():
        if v:
            del d[k]
            break
    for k in d:
        if k:
            d.pop(k)
            return d


def latebind1(xs):
    cbs = []
    d = {}
    for x in xs:
        y = x + 1
        cbs.append(lambda: x)
        d[x] = lambda v: v + y
        z = sorted(xs, key=lambda v: v + y)
        cbs.append(lambda x=x: x)
    return cbs


def latebind2(xs):
    for x in xs:
        def cb(v):
            return v + x
        yield helper.two(1, cb)


def intdiv1(n, data):
    h = n / 2
    k = (n + 1) / 2 + 1
    for i in range(h):
        pass
    return data[:k], 1 << (n / 4), data[n // 2:], range(int(n / 2))


def shadow1(rows):
    t = 0
    for i in rows:
        for i in range(3):
            t += i
        t += i
    for i in rows:
        for i in range(3):
            t += 1
    return t


def swallow1(f):
    try:
        f()
    except Exception:
        pass
    try:
        f()
    except Exception as e:
        print(e)
    try:
        f()
    except:
        raise
    try:
        f()
    except ValueError:
        pass


def unbound1(a, b):
    if a:
        x = 1
    elif b:
        x = 2
    return x


def unbound_ok(a, b, xs):
    if a:
        x = 1
    if a:
        print(x)
    for i in xs:
        y = i
    print(y, i)
    if b == 1:
        z = 1
    elif b == 2:
        z = 2
    try:
        w = int(a)
    except ValueError:
        return None
    return z, w


def unbound2(a):
    try:
        v = int(a)
    except ValueError:
        print("bad")
    return v


import functools


@functools.lru_cache(maxsize=None)
def cachedmut1(name):
    table = {}
    table[name] = 1
    return table


def snapshot1(lookup, links):
    chips = set(lookup)
    for a, b in links:
        if a in chips:
            continue
        assert a not in lookup
        lookup[a] = b
    return lookup


def snapshot_ok(machine, vertices):
    locations = list(machine)
    for v in vertices:
        machine[locations[0]] = v
    return machine


def finallylost1(stack, fns):
    try:
        for f in fns:
            f()
    except Exception:
        stack.pop()
        raise
    removed = stack.pop()
    return removed


def finallylost_ok(stack, fns):
    try:
        for f in fns:
            f()
    finally:
        stack.pop()


def staledep1(merge, aliases, make):
    below = []
    for entry in merge.table[merge.index:]:
        below.append(entry)
    while True:
        covered = [e for e in below if e in aliases]
        if not covered:
            return merge
        merge = make(merge, covered)


def staledep_ok(merge, aliases, make):
    while True:
        below = [e for e in merge.table[merge.index:]]
        covered = [e for e in below if e in aliases]
        if not covered:
            return merge
        merge = make(merge, covered)


def memokey1(x, y, w, h, cache):
    key = (x, y)
    if key in cache:
        return cache[key]
    value = (x % w, y % h)
    cache[key] = value
    return value


def memokey_ok(x, y, w, h, cache):
    key = (x, y, w, h)
    if key in cache:
        return cache[key]
    value = (x % w, y % h)
    cache[key] = value
    return value


import copy


class Record(object):
    def __init__(self, name):
        self.name = name
        self.fields = {}


_records = {}


def shallowcache1(name):
    try:
        rec = _records[name]
    except KeyError:
        rec = Record(name)
        _records[name] = rec
    return copy.copy(rec)


def shallowcache_ok(name):
    try:
        rec = _records[name]
    except KeyError:
        rec = Record(name)
        _records[name] = rec
    return copy.deepcopy(rec)


def axisorder1(chips):
    width = max(x for x, _ in chips) + 1
    height = max(y for y, _ in chips) + 1
    return width, height


def axisorder_ok(chips):
    width = max(x for x, _ in chips) + 1
    height = max(y for _, y in chips) + 1
    return width, height


def packkey1(x, y, level, cache):
    key = x + (y << 8) + (level << 8)
    if key in cache:
        return cache[key]
    v = cache[key] = (x, y, level)
    return v


def packkey_ok(x, y, level, cache, data, i):
    key = x | (y << 8) | (level << 16)
    if key not in cache:
        cache[key] = (x, y, level)
    return cache[key], data[i + (x << 2)]


class TemplateError(Exception):
    def __init__(self, message="", *fields):
        super(TemplateError, self).__init__(message.format(*fields))


def reformat1(resource, xy):
    raise TemplateError("{} over-allocated on {}".format(resource, xy))


def reformat_ok(resource, xy):
    raise TemplateError("{} over-allocated on {}", resource, xy)


def defaultleak1(table, aliases=dict()):
    if not table:
        return table, aliases
    aliases = dict(aliases)
    aliases[table[0]] = 1
    return table, aliases


def defaultleak_ok(table, aliases=dict(), seen=None):
    aliases = dict(aliases)
    if not table:
        return table, aliases
    aliases[table[0]] = 1
    return table, aliases
