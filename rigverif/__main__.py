"""Command line: python -m rigverif <Cxx> [--tier quick|thorough]
                 python -m rigverif --selfcheck-fast
Exit 0 = all obligations discharged (known findings printed), 1 = VIOLATION,
2 = ANALYSIS-ERROR (anchor vanished / floor not met / checker crash).
"""
import importlib
import os
import sys
import traceback

from .core import AnalysisError, Program, Report

PROPS = ["C%02d" % i for i in range(1, 21)]


def run(prop, tier):
    mod = importlib.import_module("rigverif.rules." + prop)
    program = Program()
    report = Report(prop, tier)
    return mod.check(program, report)


def main(argv):
    args = [a for a in argv if not a.startswith("--")]
    tier = os.environ.get("VERIF_TIER", "quick")
    if "--tier" in argv:
        tier = argv[argv.index("--tier") + 1]
        args = [a for a in args if a != tier]
    if "--selfcheck-fast" in argv:
        p = Program()
        print("parsed %d modules of rig under %s" % (len(p.modules), p.repo))
        here = os.path.dirname(os.path.abspath(__file__))
        n = 0
        for prop in PROPS:
            if os.path.exists(os.path.join(here, "rules", prop + ".py")):
                importlib.import_module("rigverif.rules." + prop)
                n += 1
        print("%d rule modules import: ok" % n)
        return 0
    if not args or args[0] not in PROPS:
        print("usage: vcheck Cxx --tier quick|thorough")
        return 2
    prop = args[0]
    try:
        return run(prop, tier)
    except AnalysisError as e:
        print("ANALYSIS-ERROR property=%s %s" % (prop, e))
        return 2
    except Exception:
        print("ANALYSIS-ERROR property=%s checker crashed:" % prop)
        traceback.print_exc(file=sys.stdout)
        return 2


if __name__ == "__main__":
    sys.exit(main(sys.argv[1:]))
