"""Command line: python -m rigverif <Cxx> [--tier quick|thorough]
                 python -m rigverif --selfcheck-fast
Exit 0 = all obligations discharged (known findings printed), 1 = VIOLATION,
2 = ANALYSIS-ERROR (anchor vanished / floor not met / checker crash).
"""
import importlib
import os
import sys
import traceback

from .core import AnalysisError, Program, Report

PROPS = ["C%02d" % i for i in range(1, 21)]


def selftests(prop, mod):
    """Sensitivity self-test (thorough tier): every seeded change recorded
    for this property under /verif/seeded is applied to a scratch copy of
    /repo's CURRENT rig/ (outside /repo and /verif, removed at once) and the
    rules are re-run on it: a property-breaking change must be reported as a
    violation, a behaviour-preserving refactoring must leave the check
    silent.  Shows that 'silent on the real tree' is meaningful on this tree
    and that the rules do not depend on the spelling of the code."""
    import json
    import shutil
    import subprocess
    import tempfile
    from .core import REPO, VERIF
    out = []
    base = os.path.join(VERIF, "seeded")
    if not os.path.isdir(base):
        return out
    jobs = []
    for sid in sorted(os.listdir(base)):
        d = os.path.join(base, sid)
        try:
            meta = json.load(open(os.path.join(d, "meta.json")))
        except Exception:
            continue
        if meta.get("property") != prop:
            continue
        jobs.append((sid, d, meta.get("kind", "breaking"),
                     bool(meta.get("known_miss"))))

    def one(job):
        # one process per change (16 cores): the check is run as it is run
        # on /repo, with RIGVERIF_REPO pointing at the scratch copy
        sid, d, kind, known_miss = job
        tmp = tempfile.mkdtemp(prefix="rv_self_")
        try:
            shutil.copytree(os.path.join(REPO, "rig"),
                            os.path.join(tmp, "rig"),
                            ignore=shutil.ignore_patterns("__pycache__"))
            r = subprocess.run(["git", "apply", "--unsafe-paths",
                                "--directory=" + tmp,
                                os.path.join(d, "patch.diff")], cwd="/",
                               capture_output=True, text=True)
            if r.returncode != 0:
                return (sid + " (patch no longer applies)", None, kind)
            env = dict(os.environ, RIGVERIF_REPO=tmp,
                       RIGVERIF_EVDIR=os.path.join(tmp, "ev"),
                       VERIF_TIER="quick")
            r = subprocess.run([sys.executable, "-W", "ignore", "-m",
                                "rigverif", prop, "--tier", "quick"],
                               cwd=VERIF, env=env, capture_output=True,
                               text=True)
            rc = r.returncode
            rules = sorted(set(
                l.split("rule=")[1].split()[0]
                for l in r.stdout.splitlines() if "rule=" in l))
            name = "%s -> %s" % (sid, ",".join(rules) or "exit %s" % rc)
            if known_miss and kind == "breaking" and rc != 1:
                # a recorded miss (meta.json: known_miss): listed, not
                # counted as a self-test
                return (name + " (recorded miss)", None, kind)
            return (name, rc == 1 if kind == "breaking" else rc == 0, kind)
        finally:
            shutil.rmtree(tmp, ignore_errors=True)
    import concurrent.futures
    with concurrent.futures.ThreadPoolExecutor(
            max_workers=min(14, os.cpu_count() or 4)) as ex:
        out = list(ex.map(one, jobs))
    return out


REWRITES = ["rename+commute+flipcmp+literals+temp",
            "ifswap+noteq+kwswap+range0+whiletrue+inlinetemp",
            "comp2loop+unifexp+chained+elifnest+swapassign+augassign+items"]


def metamorphic(prop, mod):
    """Metamorphic self-test (thorough tier): /repo's CURRENT rig/ is
    rewritten mechanically by compositions of meaning-preserving
    transformations (tools/preserve_fuzz.py: local renames, operand and
    comparison flips, literal spellings, temporaries, if/else forms, loops
    for comprehensions, ...) into a scratch copy that is removed at once,
    and the check is run on the copy: its verdict (exit code and the rules
    reporting) must be the verdict on the tree itself, whatever that is."""
    import shutil
    import subprocess
    import tempfile
    from .core import REPO, VERIF
    out = []
    tool = os.path.join(VERIF, "tools", "preserve_fuzz.py")
    if not os.path.exists(tool):
        return out

    def verdict(repo):
        rep = Report(prop, "thorough", quiet=True)
        try:
            rc = mod.check(Program(repo=repo), rep)
        except AnalysisError:
            rc = 2
        return rc, sorted(set(f.rule for f in getattr(rep, "new_findings",
                                                      [])))
    base = verdict(REPO)
    for kinds in REWRITES:
        tmp = tempfile.mkdtemp(prefix="rv_meta_")
        try:
            env = dict(os.environ, RIGVERIF_REPO=REPO)
            r = subprocess.run([sys.executable, "-W", "ignore", tool, kinds,
                                tmp], env=env, capture_output=True,
                               text=True)
            if r.returncode != 0:
                out.append(("rewrite %s (tool failed)" % kinds, None,
                            "metamorphic"))
                continue
            got = verdict(tmp)
            out.append(("rewrite %s -> exit %s %s" % (
                kinds.split("+")[0] + "+..", got[0], ",".join(got[1])),
                got == base, "metamorphic"))
        finally:
            shutil.rmtree(tmp, ignore_errors=True)
    return out


def run(prop, tier):
    mod = importlib.import_module("rigverif.rules." + prop)
    st = selftests(prop, mod) if tier == "thorough" else []
    if tier == "thorough":
        st += metamorphic(prop, mod)
    program = Program()
    report = Report(prop, tier)
    report.selftests = [(n, f, k) for n, f, k in st if f is not None]
    for n, f, k in st:
        if f is None:
            report.note("self-test skipped: " + n)
    if tier == "thorough" and hasattr(mod, "thorough"):
        mod.thorough(program, report)
    return mod.check(program, report)


def main(argv):
    args = [a for a in argv if not a.startswith("--")]
    tier = os.environ.get("VERIF_TIER", "quick")
    if "--tier" in argv:
        tier = argv[argv.index("--tier") + 1]
        args = [a for a in args if a != tier]
    if "--selfcheck-fast" in argv:
        p = Program()
        print("parsed %d modules of rig under %s" % (len(p.modules), p.repo))
        here = os.path.dirname(os.path.abspath(__file__))
        n = 0
        for prop in PROPS:
            if os.path.exists(os.path.join(here, "rules", prop + ".py")):
                importlib.import_module("rigverif.rules." + prop)
                n += 1
        print("%d rule modules import: ok" % n)
        from . import nf_selftest, slips
        bad = nf_selftest.run()
        if bad:
            print("ANALYSIS-ERROR source normal forms do not apply as "
                  "expected:")
            for b in bad:
                print(b)
            return 2
        print("%d source normal forms: ok" % (len(nf_selftest.CASES) + 1))
        try:
            kinds = slips.selftest()
        except AnalysisError as e:
            print("ANALYSIS-ERROR %s" % e)
            return 2
        print("SLIPS examples: %d reports over %d kinds: ok" % (
            sum(kinds.values()), len(kinds)))
        return 0
    if not args or args[0] not in PROPS:
        print("usage: vcheck Cxx --tier quick|thorough")
        return 2
    prop = args[0]
    try:
        return run(prop, tier)
    except AnalysisError as e:
        print("ANALYSIS-ERROR property=%s %s" % (prop, e))
        return 2
    except Exception:
        print("ANALYSIS-ERROR property=%s checker crashed:" % prop)
        traceback.print_exc(file=sys.stdout)
        return 2


if __name__ == "__main__":
    sys.exit(main(sys.argv[1:]))
