"""TERMS: canonical value terms of expressions, independent of how the code
names or stages intermediate values.

``Terms(fn).term(expr)`` resolves an expression to a nested tuple over the
function's inputs by following *binding* definitions (assignments, loop
targets, unpackings, with-targets) backwards:

    ("param", name)            formal parameter
    ("global", dotted)         free name (module global / builtin)
    ("const", v)
    ("attr", T, name)          attribute read (``ver`` below when the chain is
    ("attrv", T, name, ver)    assigned in this function: the value depends on
                               the program point)
    ("item", T, K)             T[K]            ("get", T, K[, D]) for T.get(K)
    ("elem", T)                an element of iterating T (loop / comprehension)
    ("comp", T, i)             i-th component of an unpacked value
    ("items", T) ("values", T) ("keys", T)   dict views, whichever spelling
    ("call", F, (args), ((kw, T)...))
    ("tuple", ...) ("list", ...) ("set", ...) ("dict", ((K, V)...))
    ("binop", op, A, B)  ("unop", op, A)
    ("cmp", op, A, B)          op in Lt LtE Eq Is In (others are normalised:
                               a > b == b < a, != is not(==) ...)
    ("not", T) ("and", ...) ("or", ...) ("ite", C, A, B)
    ("mu", <defs>)             several definitions reach (branches / loops):
                               named by the set of definitions, expanded on
                               demand by alternatives() - ("rec",) marks a
                               value that depends on itself (loop-carried)
    ("phi", T...)              one of several values (elements of a display)
    ("lambda", n, body)  ("listcomp"|"setcomp"|"genexp"|"dictcomp", elt, gens)
    ("opaque", text)

Temporaries, renamed locals, tuple packing followed by unpacking, augmented
assignments, ``x if c else y`` versus statements on a single path, swapped
comparison operands and ``d.get(k)``/``d[k]``/``iteritems(d)`` spellings all
lead to the same term.  Calls of nested helper functions (and of helpers
handed in through ``helpers``) whose result is a single expression are
replaced by that expression.

Terms denote *values*: a temporary keeps the value it was given even if the
variables it was computed from are re-bound later.  Reads of state that this
function itself updates (attribute chains it assigns, containers it mutates)
carry a version so that reads at different times are not identified.
"""
import ast

from .core import AnalysisError, unparse
from .cfg import cfg_of
from .dataflow import Flow, chain, _walk_no_scopes

_CMP = {"Lt": ("Lt", False, False), "LtE": ("LtE", False, False),
        "Gt": ("Lt", True, False), "GtE": ("LtE", True, False),
        "Eq": ("Eq", False, False), "NotEq": ("Eq", False, True),
        "Is": ("Is", False, False), "IsNot": ("Is", False, True),
        "In": ("In", False, False), "NotIn": ("In", False, True)}
_SYMM = {"Eq", "Is"}
_COMM = {"BitOr", "BitAnd", "BitXor", "Mult"}
# calls whose value depends only on their arguments (builtins, and functions
# of rig confirmed pure by reading them); every other call is tagged with its
# call site so that two evaluations are never identified
PURE = {
    "len", "set", "frozenset", "list", "tuple", "dict", "sorted", "reversed",
    "min", "max", "sum", "any", "all", "abs", "int", "float", "bool", "str",
    "bytes", "range", "xrange", "enumerate", "zip", "isinstance", "issubclass",
    "type", "iter", "divmod", "round", "pow", "ord", "chr", "repr", "hash",
    "getattr", "hasattr", "callable", "map", "filter", "slice", "bin", "hex",
    "id", "format", "calcsize", "pack", "unpack", "unpack_from", "ceil",
    "floor", "log", "sqrt", "exp",
    # rig
    "intersect", "_get_generality", "get_generality", "subtract_resources",
    "add_resources", "overallocated", "resources_after_reservation",
    "_is_defaultable", "to_xyz", "minimise_xyz", "shortest_mesh_path_length",
    "shortest_mesh_path", "shortest_torus_path_length", "get_common_xs",
    "RoutingTableEntry", "InOutPair", "Routes", "Links", "core",
    "get_region_for_chip", "unpack_routing_table_entry", "_identity",
    "ordered_covering", "remove_default_routes", "remove_default_entries",
    "build_routing_table_target_lengths", "_get_insertion_index",
    "links_between", "shortest_torus_path", "concentric_hexagons",
    "longest_dimension_first", "spinn5_eth_coords", "spinn5_local_eth_coord",
    "spinn5_chip_coord", "spinn5_fpga_link",
}
# allocation / call site -> the expression there (most recent analysis)
SITES = {}
_MUTABLE_CTORS = {"set", "list", "dict", "deque", "defaultdict",
                  "OrderedDict", "bytearray", "Counter"}
_ITEMS = {"iteritems": "items", "items": "items", "viewitems": "items",
          "itervalues": "values", "values": "values", "viewvalues": "values",
          "iterkeys": "keys", "keys": "keys", "viewkeys": "keys"}


def _key(t):
    return repr(t)


def _phi(ts):
    """Merge of several possible values (flattened, duplicates removed)."""
    flat = []
    for t in ts:
        flat.extend(t[1:] if t[0] == "phi" else [t])
    uniq = sorted(set(flat), key=_key)
    return uniq[0] if len(uniq) == 1 else ("phi",) + tuple(uniq)


class Mu(object):
    """The merge of several reaching definitions of one variable."""
    __slots__ = ("T", "ids", "var")

    def __init__(self, T, ids, var):
        self.T, self.ids, self.var = T, tuple(ids), var

    def _k(self):
        return (id(self.T.flow), tuple(sorted(self.T.dead)), self.ids)

    def __eq__(self, other):
        return isinstance(other, Mu) and self._k() == other._k()

    def __ne__(self, other):
        return not self.__eq__(other)

    def __hash__(self):
        return hash(self._k())

    def __repr__(self):
        return "<%s:%s>" % (self.var, ",".join(str(i) for i in self.ids))


class _Bind(object):
    __slots__ = ("id", "var", "node", "mode", "value", "path")

    def __init__(self, id, var, node, mode, value, path):
        self.id, self.var, self.node = id, var, node
        self.mode, self.value, self.path = mode, value, path


class Terms(object):
    def __init__(self, fn, helpers=None, flow=None, outer=None, hyps=(),
                 pure=()):
        """helpers: name -> FunctionDef of functions that may be inlined when
        called by that (last-component) name; outer: (Terms, node) of the
        enclosing function when ``fn`` is a nested def (free names resolve
        there)."""
        self.fn = fn
        self.flow = flow or Flow(fn)
        self.cfg = self.flow.cfg
        self.helpers = dict(helpers or {})
        self.pure = set(pure)
        self.outer = outer
        self.binds = []
        self.node_binds = {}
        self.dead = set()
        self.hyps = []
        self._collect()
        self._solve()
        self._cache = {}
        self._busy = set()
        a_ = fn.args
        self._params_ = set(x.arg for x in a_.posonlyargs + a_.args +
                            a_.kwonlyargs)
        self._nested = {}
        for sub in ast.walk(fn):
            if isinstance(sub, ast.FunctionDef) and sub is not fn:
                self._nested.setdefault(sub.name, sub)
        if outer is not None:
            # sibling helpers of a nested function
            for k_, v_ in outer[0]._nested.items():
                if v_ is not fn:
                    self._nested.setdefault(k_, v_)
        # loops / generators that iterate an expression some earlier loop of
        # this function iterates too: their elements are independent values
        # and get a tag (else both would be "an element of X")
        self._dup_iter = {}
        for sub in ast.walk(fn):
            its = []
            if isinstance(sub, ast.For):
                its = [sub.iter]
            elif isinstance(sub, (ast.ListComp, ast.SetComp, ast.DictComp,
                                  ast.GeneratorExp)):
                its = [g.iter for g in sub.generators]
            for j, it in enumerate(its):
                txt = unparse(it)
                k = 0
                # earlier generators of the same comprehension
                if not isinstance(sub, ast.For):
                    k += sum(1 for g in sub.generators[:j]
                             if unparse(g.iter) == txt)
                # enclosing loops / comprehensions (only nested iterations
                # of one iterable are in scope together)
                p_ = getattr(sub, "_parent", None)
                child = sub
                while p_ is not None and p_ is not fn:
                    if isinstance(p_, ast.For) and child is not p_.iter \
                            and unparse(p_.iter) == txt:
                        k += 1
                    elif isinstance(p_, (ast.ListComp, ast.SetComp,
                                         ast.DictComp, ast.GeneratorExp)):
                        k += sum(1 for g in p_.generators
                                 if unparse(g.iter) == txt and
                                 g.iter is not child)
                    child, p_ = p_, getattr(p_, "_parent", None)
                if k:
                    self._dup_iter[id(it)] = "#%d" % k
        if hyps:
            self._assume(hyps)

    def _tag(self, it_ast, t):
        tag = self._dup_iter.get(id(it_ast))
        if tag and t[0] == "elem" and len(t) == 2:
            return t + (tag,)
        if tag and t[0] == "tuple":
            return ("tuple",) + tuple(self._tag(it_ast, x) if x[0] in (
                "elem", "index") else x for x in t[1:])
        if tag and t[0] == "index" and len(t) == 2:
            return t + (tag,)
        return t

    def _flag_scan(self, t, pol):
        """("some"/"none", iterable, conditions) when ``t`` is a boolean flag
        that starts False and is set True inside one for loop under
        conditions on the loop's element, and (t, pol) is a fact."""
        if t[0] != "mu":
            return None
        mu = t[1]
        binds = [mu.T.binds[i] for i in mu.ids]
        vals = [(b_, plain(mu.T._bind_term(b_))) for b_ in binds]
        sets = [b_ for b_, v in vals if v == ("const", True)]
        clears = [b_ for b_, v in vals if v == ("const", False)]
        if len(sets) != 1 or len(clears) != 1 or len(vals) != 2:
            return None
        lp = sets[0].node.ast
        while lp is not None and not isinstance(lp, (ast.For, ast.While)):
            lp = getattr(lp, "_parent", None)
        if not isinstance(lp, ast.For) or id(lp) not in self.cfg.loop_head \
                or _inside_fn(clears[0].node.ast, lp):
            return None
        cfg = self.cfg
        pre = cfg.stmt_node[id(lp)]
        head = cfg.loop_head[id(lp)]
        if not cfg.dominates(clears[0].node, pre):
            return None
        # nothing leaves the scan early before the flag is set
        for n in cfg.nodes:
            if isinstance(n.ast, (ast.Break, ast.Return)) and \
                    _inside_fn(n.ast, lp) and \
                    not cfg.dominates(sets[0].node, n):
                return None
        before = self.all_facts(pre)
        guard = [f for f in self.all_facts(sets[0].node) if f not in before]
        if not guard:
            return None
        it = self.term(lp.iter, head)
        return ("some" if pol else "none", it, guard)

    def under(self, *hyps):
        """The same function analysed only on the executions on which every
        (condition term, truth value) of ``hyps`` holds: branch edges that
        contradict a hypothesis are removed before definitions are resolved,
        conditional expressions on a decided condition reduce to the taken
        branch."""
        return Terms(self.fn, helpers=self.helpers, flow=self.flow,
                     outer=self.outer, hyps=list(self.hyps) + list(hyps),
                     pure=self.pure)

    def _assume(self, hyps):
        hyps = [(t, bool(p)) for t, p in hyps]
        for _ in range(4):
            # (an edge found dead stays dead: the hypotheses do not change,
            # and its condition can no longer be evaluated once its node is
            # unreachable)
            dead = set(self.dead)
            self.hyps = hyps
            for n in self.cfg.nodes:
                if n.kind != "assume":
                    continue
                try:
                    t, pol = self.cond(n.ast, n, n.polarity)
                except AnalysisError:
                    continue
                v = self._decided(t)
                if v is not None and t[0] == "cmp" and \
                        t[2][0] == "const" and t[3][0] == "const" and \
                        self._in_loop(n):
                    # a comparison of two constants inside a loop is an
                    # artefact of pruning edges for every iteration at once
                    # (a loop-carried variable left with its initial value
                    # only): not used to prune further
                    v = None
                if v is not None and v != pol:
                    dead.add(n.id)
            if dead == self.dead:
                break
            self.dead = dead
            self._solve()
            self._cache = {}
            self.__dict__.pop("_arities", None)

    def _in_loop(self, n):
        a = getattr(n, "ast", None)
        while a is not None and a is not self.fn:
            if isinstance(a, (ast.For, ast.While)):
                return True
            a = getattr(a, "_parent", None)
        return False

    def _decided(self, t):
        """Truth value of condition term ``t`` under the hypotheses."""
        if t[0] == "const":
            return bool(t[1])
        if t[0] == "cmp" and t[1] in ("Is", "Eq") and \
                t[2][0] == "const" and t[3][0] == "const":
            # two constants: None is None, 0 == 1 ... (Is only where identity
            # is equality: None, booleans, small ints of the same type)
            a, b = t[2][1], t[3][1]
            if t[1] == "Eq":
                return a == b
            if a is None or b is None or isinstance(a, bool) or \
                    isinstance(b, bool):
                return a is b
        for h, v in self.hyps:
            if h == t:
                return v
            # a < b decided  =>  b <= a is its complement (and vice versa)
            if h[0] == "cmp" and t[0] == "cmp" and \
                    {h[1], t[1]} == {"Lt", "LtE"} and h[2] == t[3] and \
                    h[3] == t[2]:
                return not v
            # x is None decided => truthiness / equality of x with None
            if h[0] == "cmp" and h[1] == "Is" and \
                    ("const", None) in (h[2], h[3]):
                other = h[3] if h[2] == ("const", None) else h[2]
                if v and t == other:
                    return False           # bool(None)
        if t[0] == "and":
            vs = [self._decided(x) for x in t[1:]]
            if any(x is False for x in vs):
                return False
            if all(x is True for x in vs):
                return True
        if t[0] == "or":
            vs = [self._decided(x) for x in t[1:]]
            if any(x is True for x in vs):
                return True
            if all(x is False for x in vs):
                return False
        if t[0] == "not":
            v = self._decided(t[1])
            return None if v is None else not v
        return None

    def inner(self, nested):
        """Terms of a nested function of this one, expressed in this
        function's terms: the nested function's parameters are replaced by
        the arguments of its (single) call site, free names resolve at that
        call.  Returns an object with term()/cond()/all_facts()."""
        views = self.inners(nested)
        if len(views) != 1:
            raise AnalysisError("nested helper %s is called %d times" % (
                nested.name, len(views)))
        return views[0]

    def inners(self, nested):
        """One view (see inner) per call site of the nested function."""
        calls = [c for c in ast.walk(self.fn) if isinstance(c, ast.Call) and
                 isinstance(c.func, ast.Name) and c.func.id == nested.name
                 and not _inside_fn(c, nested)]
        out = []
        for call in calls:
            owner = _enclosing_fn(call)
            hosts = [self] if owner is self.fn else self.inners(owner)
            for host in hosts:
                node = host.cfg.node_containing(call)
                a = nested.args
                names = [x.arg for x in a.posonlyargs + a.args]
                if a.vararg or a.kwarg or len(call.args) > len(names):
                    raise AnalysisError("cannot bind call of %s" %
                                        nested.name)
                sub = {}
                for nm, arg in zip(names, call.args):
                    sub[nm] = host.term(arg, node)
                for k in call.keywords:
                    sub[k.arg] = host.term(k.value, node)
                outer = (host if host is self else host.t, node)
                t = Terms(nested, helpers=self.helpers, outer=outer,
                          pure=self.pure)
                out.append(_Inner(t, sub, call, host))
        return out

    def built_map(self, t):
        """How the mapping ``t`` is populated: a dict comprehension, or a
        fresh dict that a loop stores into.  Returns [(iterable term, key
        term, value term, condition term or None)]; None if not recognisable.
        The condition is the test guarding the insertion (as one term)."""
        inner = t[2] if t[0] == "new" else t
        if inner[0] == "dictcomp" and len(inner[2]) == 1:
            it, conds = inner[2][0]
            cond = None
            if len(conds) == 1:
                cond = conds[0]
            elif len(conds) > 1:
                cond = ("and",) + tuple(conds)
            return [(it, inner[1][1], inner[1][2], cond)]
        if t[0] != "new" or not (
                (inner[0] == "dict" and inner[1] == ()) or
                (inner[0] == "call" and not inner[2] and not inner[3])):
            return None
        out = []
        for n, st, base, key, val in stores(self):
            if base != t:
                continue
            lp = st._parent
            test = None
            while lp is not None and not isinstance(lp, ast.For):
                if isinstance(lp, ast.If) and test is None:
                    test = lp
                lp = lp._parent
            if lp is None:
                return None
            head = self.cfg.loop_head[id(lp)]
            cond = None
            if test is not None and _inside_fn(test, lp):
                try:
                    tn = self.cfg.node_containing(test.test)
                except AnalysisError:
                    tn = n
                in_body = any(_inside_fn(st, b_) or st is b_
                              for b_ in test.body)
                c = self.term(test.test, tn)
                cond = c if in_body else (c[1] if c[0] == "not"
                                          else ("not", c))
            out.append((self.term(lp.iter, head), key, val, cond))
        return out or None

    def search_loop(self):
        """If this function is a search loop -- ``for x in it: if c: return
        True`` followed by ``return False`` (or the dual) -- its value as
        the equivalent any(...) / all(...) term, else None."""
        fn = self.fn
        rets = [n for n in ast.walk(fn) if isinstance(n, ast.Return) and
                _owner(n, fn)]
        loops = [n for n in fn.body if isinstance(n, ast.For)]
        if len(rets) != 2 or len(loops) != 1 or loops[0].orelse:
            return None
        lp = loops[0]
        inner = [r for r in rets if _inside_fn(r, lp)]
        last = fn.body[-1]
        if len(inner) != 1 or last not in rets or last is inner[0] or \
                fn.body.index(lp) != len(fn.body) - 2:
            return None
        vi, vl = inner[0].value, last.value
        if not (isinstance(vi, ast.Constant) and isinstance(vl, ast.Constant)
                and isinstance(vi.value, bool) and
                isinstance(vl.value, bool) and vi.value != vl.value):
            return None
        if any(isinstance(n, (ast.Break, ast.For, ast.While))
               for n in ast.walk(lp) if n is not lp):
            return None
        n = self.cfg.node_of(inner[0])
        head = self.cfg.loop_head[id(lp)]
        it = self.term(lp.iter, head)
        conds = []
        for a in self.cfg.nodes:
            if a.kind == "assume" and a.ast is not None and \
                    _inside_fn(a.ast, lp) and self.cfg.dominates(a, n):
                conds.append(self.cond(a.ast, a, a.polarity))
        if not conds:
            return None
        parts = tuple(c if p_ else ("not", c) for c, p_ in conds)
        body = parts[0] if len(parts) == 1 else ("and",) + parts
        if vi.value:        # found -> True : any(cond)
            return ("call", ("global", "any"),
                    (("genexp", body, ((it, ()),)),), ())
        # found -> False : all(not cond)
        neg = body[1] if body[0] == "not" else ("not", body)
        return ("call", ("global", "all"),
                (("genexp", neg, ((it, ()),)),), ())

    def filtered(self, t):
        """How the collection ``t`` is populated, whichever way it is written:
        a comprehension, or a fresh set/list that loops add to.  Returns a list
        of (iterable term, element term, [(condition term, polarity)...]);
        None when ``t`` is not recognisably built that way."""
        if t[0] == "new":
            inner = t[2]
        else:
            inner = t
        if inner[0] in ("setcomp", "listcomp", "genexp") and \
                len(inner[2]) == 1:
            it, conds = inner[2][0]
            out = []
            for c in conds:
                out.extend(split_cond(c, True))
            return [(it, inner[1], out)]
        if inner[0] == "call" and inner[1][0] == "global" and \
                inner[1][1] in ("set", "list", "frozenset", "sorted") and \
                len(inner[2]) == 1:
            return self.filtered(inner[2][0])
        if t[0] != "new":
            return None
        empty = (inner[0] in ("list", "set") and len(inner) == 1) or (
            inner[0] == "call" and not inner[2] and not inner[3])
        if not empty:
            return None
        out = []
        for c in ast.walk(self.fn):
            if not (isinstance(c, ast.Call) and
                    isinstance(c.func, ast.Attribute) and
                    c.func.attr in ("add", "append") and len(c.args) == 1
                    and _owner(c, self.fn)):
                continue
            n = self.cfg.node_containing(c)
            if self.term(c.func.value, n) != t:
                continue
            lp = c._parent
            while lp is not None and not isinstance(lp, ast.For):
                lp = lp._parent
            if lp is None:
                return None
            head = self.cfg.loop_head[id(lp)]
            it = self.term(lp.iter, head)
            conds = []
            for a in self.cfg.nodes:
                if a.kind == "assume" and a.ast is not None and \
                        _inside_fn(a.ast, lp) and \
                        self.cfg.dominates(a, n):
                    conds.append(self.cond(a.ast, a, a.polarity))
            out.append((it, self.term(c.args[0], n), conds))
        return out or None

    def full_facts(self, node):
        return self.all_facts(node)

    def facts_by_path(self, node, depth=4):
        """Like all_facts, but where ``node`` is a merge point (e.g. after
        ``a or b``) one fact list per incoming path, each including the
        conditions of the branch edges on that path.  Returns
        [(entry node of that path, [(term, polarity)...])]."""
        preds = [p for p in node.pred if p.id in self.reached and
                 not self.cfg.dominates(node, p)]
        if len(preds) <= 1 or depth == 0:
            own = []
            if len(preds) == 1 and preds[0].kind == "assume" and \
                    not self.cfg.dominates(preds[0], node):
                pass
            return [(node, self.all_facts(node))]
        out = []
        for p in preds:
            for ent, facts in self.facts_by_path(p, depth - 1):
                facts = list(facts)
                if p.kind == "assume":
                    c = self.cond(p.ast, p, p.polarity)
                    for x in split_cond(*c):
                        if x not in facts:
                            facts.append(x)
                out.append((p, unit_propagate(facts)))
        return out

    def quantified(self, node, extra=(), facts=None):
        """Facts of the form 'no / some / every element of an iterable
        satisfies a condition' known at ``node``, whichever way the search
        is written: ``any(c for x in it)`` / ``all(...)`` tested by a
        dominating branch, or a ``for x in it`` loop that leaves early when
        the condition holds and reaches ``node`` only when exhausted.
        Returns [(kind, iterable term, [(condition term, polarity)...])] with
        kind in "none", "some", "all", "notall"; conditions are over
        ("elem", iterable term)."""
        out = []
        for t, pol in list(self.all_facts(node) if facts is None
                           else facts) + list(extra):
            if t[0] == "call" and t[1] in (("global", "any"),
                                           ("global", "all")) and \
                    len(t[2]) == 1 and t[2][0][0] in ("genexp", "listcomp") \
                    and len(t[2][0][2]) in (1, 2):
                ge = t[2][0]
                it, conds = ge[2][0]
                if len(ge[2]) == 2:
                    it = ("nest", it, ge[2][1][0])
                    conds = tuple(conds) + tuple(ge[2][1][1])
                cs = []
                for c in (ge[1],) + tuple(conds):
                    p_ = True
                    while c[0] == "not":
                        c, p_ = c[1], not p_
                    cs.append((c, p_))
                if t[1][1] == "any":
                    out.append(("some" if pol else "none", it, cs))
                else:
                    out.append(("all" if pol else "notall", it, cs))
        # a flag set in a scan: ``f = False; for x in it: if c: f = True``
        # tested afterwards says some / no element satisfies c
        for t, pol in list(self.all_facts(node) if facts is None
                           else facts) + list(extra):
            q = self._flag_scan(t, pol)
            if q is not None:
                out.append(q)
        out = [_retarget(q) for q in out]
        cfg = self.cfg
        dom = cfg.dominators()[node.id]
        for lid, head in cfg.loop_head.items():
            if head.kind != "iter":
                continue
            ex = [n for n in head.succ if n.kind == "join" and
                  n.label == "forelse"]
            if not ex or ex[0].id not in dom:
                continue
            # ``node`` is reached only when the loop ran out of elements
            body = [n for n in head.succ if n.kind == "join" and
                    n.label == "forbody"][0]
            lp = head.ast
            inside = [n for n in cfg.nodes if n.kind == "assume" and
                      n.ast is not None and _inside_fn(n.ast, lp) and
                      n.id in self.reached]
            # the conditions under which an iteration comes back to the head
            gates = []
            for a in inside:
                if self.cfg.must_pass(body, lambda n, a=a: n is a,
                                      targets=[head]):
                    gates.append(a)
            it = self.term(lp.iter, head)
            if not gates:
                # an inner loop that every iteration runs to exhaustion?
                for lid2, head2 in cfg.loop_head.items():
                    lp2 = head2.ast
                    if head2.kind != "iter" or lp2 is lp or \
                            not _inside_fn(lp2, lp):
                        continue
                    ex2 = [n for n in head2.succ if n.kind == "join" and
                           n.label == "forelse"]
                    if not ex2 or not self.cfg.must_pass(
                            body, lambda n, e=ex2[0]: n is e,
                            targets=[head]):
                        continue
                    body2 = [n for n in head2.succ if n.kind == "join" and
                             n.label == "forbody"][0]
                    g2 = [a for a in inside if _inside_fn(a.ast, lp2) and
                          self.cfg.must_pass(body2, lambda n, a=a: n is a,
                                             targets=[head2])]
                    if g2:
                        gates = g2
                        it = ("nest", it, self.term(lp2.iter, head2))
                        break
            if not gates:
                continue
            # every other way out of a gate's sibling leaves the loop for
            # good (return / break / raise): then the gates held for every
            # element
            cs = [self.cond(a.ast, a, a.polarity) for a in gates]
            # "none satisfies C" is  "all satisfy not C"
            out.append(_retarget(("none", it, [(c, not p_) for c, p_ in cs])
                                 if len(cs) == 1 else ("allof", it, cs)))
        return out

    def must_pass(self, src, pred, targets=None):
        """cfg.must_pass on the executions allowed by the hypotheses."""
        avoid = [self.cfg.nodes[i] for i in self.dead]
        return self.cfg.must_pass(src, pred, targets=targets, avoid=avoid)

    def live(self, node):
        """Can ``node`` execute under the hypotheses?"""
        return node.id in self.reached

    # -- binding definitions ---------------------------------------------------
    def _add(self, var, node, mode, value, path=()):
        b = _Bind(len(self.binds), var, node, mode, value, path)
        self.binds.append(b)
        self.node_binds.setdefault(node.id, []).append(b)

    def _target(self, t, node, mode, value, path=()):
        if isinstance(t, (ast.Tuple, ast.List)):
            if mode == "assign" and isinstance(value, (ast.Tuple, ast.List)) \
                    and len(value.elts) == len(t.elts) and not any(
                        isinstance(e, ast.Starred)
                        for e in value.elts + t.elts) and not path:
                for te, ve in zip(t.elts, value.elts):
                    self._target(te, node, "assign", ve)
                return
            n = len(t.elts)
            for i, te in enumerate(t.elts):
                if isinstance(te, ast.Starred):
                    self._target(te.value, node, "opaque", None)
                else:
                    self._target(te, node, mode, value, path + ((i, n),))
            return
        c = chain(t)
        if c is not None:
            self._add(c, node, mode, value, path)

    def _collect(self):
        fn = self.fn
        a = fn.args
        entry = self.cfg.entry
        for arg in a.posonlyargs + a.args + a.kwonlyargs:
            self._add(arg.arg, entry, "param", None)
        if a.vararg:
            self._add(a.vararg.arg, entry, "param", None)
        if a.kwarg:
            self._add(a.kwarg.arg, entry, "param", None)
        for n in self.cfg.nodes:
            s = n.ast
            if n.kind == "stmt":
                if isinstance(s, ast.Assign):
                    for t in s.targets:
                        self._target(t, n, "assign", s.value)
                elif isinstance(s, ast.AnnAssign) and s.value is not None:
                    self._target(s.target, n, "assign", s.value)
                elif isinstance(s, ast.AugAssign):
                    c = chain(s.target)
                    if c is not None:
                        self._add(c, n, "aug", s)
                elif isinstance(s, (ast.FunctionDef, ast.AsyncFunctionDef,
                                    ast.ClassDef)):
                    self._add(s.name, n, "def", s)
                elif isinstance(s, ast.Import):
                    for al in s.names:
                        self._add(al.asname or al.name.split(".")[0], n,
                                  "import", None)
                elif isinstance(s, ast.ImportFrom):
                    for al in s.names:
                        self._add(al.asname or al.name, n, "import", None)
                elif isinstance(s, ast.Delete):
                    for t in s.targets:
                        if chain(t):
                            self._add(chain(t), n, "opaque", None)
            elif n.kind == "iter":
                self._target(s.target, n, "iter", s.iter)
            elif n.kind == "with":
                for item in s.items:
                    if item.optional_vars is not None:
                        self._target(item.optional_vars, n, "with",
                                     item.context_expr)
            elif n.kind == "handler":
                if s.name:
                    self._add(s.name, n, "opaque", None)
            if s is not None and n.kind in ("stmt", "test", "iter", "with"):
                roots = [s] if n.kind != "iter" else [s.iter]
                if n.kind == "with":
                    roots = [i.context_expr for i in s.items]
                if n.kind == "stmt" and isinstance(
                        s, (ast.FunctionDef, ast.ClassDef,
                            ast.AsyncFunctionDef)):
                    roots = []
                for r in roots:
                    for sub in _walk_no_scopes(r):
                        if isinstance(sub, ast.NamedExpr):
                            self._target(sub.target, n, "assign", sub.value)

    def _solve(self):
        """Reaching binding definitions; a node whose every predecessor is
        unreachable (or that contradicts a hypothesis) is unreachable and
        contributes nothing."""
        nodes = self.cfg.nodes
        rd_in = {n.id: None for n in nodes}
        rd_out = {n.id: None for n in nodes}
        entry = self.cfg.entry
        work = [entry]
        inwork = {entry.id}
        while work:
            n = work.pop(0)
            inwork.discard(n.id)
            if n is entry:
                merged = {}
            else:
                merged = None
                for p in n.pred:
                    o = rd_out[p.id]
                    if o is None:
                        continue
                    if merged is None:
                        merged = dict(o)
                    else:
                        for v, s in o.items():
                            merged[v] = (merged[v] | s) if v in merged else s
            if merged is None or n.id in self.dead:
                continue
            rd_in[n.id] = merged
            out = dict(merged)
            for b in self.node_binds.get(n.id, []):
                for v in list(out):
                    if v != b.var and v.startswith(b.var + "."):
                        del out[v]
                out[b.var] = frozenset([b.id])
            if out != rd_out[n.id]:
                rd_out[n.id] = out
                for s in n.succ:
                    if s.id not in inwork:
                        inwork.add(s.id)
                        work.append(s)
        self.reached = set(i for i, v in rd_in.items() if v is not None)
        for i in rd_in:
            if rd_in[i] is None:
                rd_in[i] = {}
            if rd_out[i] is None:
                rd_out[i] = {}
        self.rd_in, self.rd_out = rd_in, rd_out
        self.assigned_chains = set(b.var for b in self.binds if "." in b.var)

    # -- public ----------------------------------------------------------------
    def node_of(self, expr):
        return self.cfg.node_containing(expr)

    def term(self, expr, node=None, env=None):
        if isinstance(expr, str):
            expr = ast.parse(expr, mode="eval").body
            node = node or self.cfg.exit
        if node is None:
            node = self.node_of(expr)
        return self._term(expr, node, env or {})

    def cond(self, expr, node=None, polarity=True, env=None):
        """Canonical (term, polarity) of a condition: the term is never a
        ("not", ...)."""
        t = self.term(expr, node, env)
        if self.hyps:
            t = self._bool_simp(t)
        return norm_cond(t, polarity)

    def _bool_simp(self, t):
        """Truth-value simplification of and / or / not under the
        hypotheses (only sound where just the truth of ``t`` matters)."""
        if t[0] == "not":
            v = self._bool_simp(t[1])
            if v[0] == "const":
                return ("const", not v[1])
            return v[1] if v[0] == "not" else ("not", v)
        if t[0] in ("and", "or"):
            kind = t[0]
            kept = []
            for x in t[1:]:
                x = self._bool_simp(x)
                d = self._decided(x[1] if x[0] == "not" else x)
                if d is not None and x[0] == "not":
                    d = not d
                if d is None:
                    kept.append(x)
                elif d != (kind == "and"):
                    return ("const", d)
            if not kept:
                return ("const", kind == "and")
            if len(kept) == 1:
                return kept[0]
            return (kind,) + tuple(kept)
        return t

    def facts(self, node):
        """Canonical dominating facts at ``node``: [(term, polarity)]."""
        out = []
        for c, pol, a in self.flow.facts(node):
            try:
                out.append(self.cond(c, a, pol))
            except AnalysisError:
                pass
        return out

    def doms(self, node):
        """Ids of the nodes dominating ``node`` among the executions allowed
        by the hypotheses (dead branch edges removed)."""
        if not self.dead:
            return self.cfg.dominators()[node.id]
        d = self.__dict__.get("_pruned_dom")
        if d is None:
            from .cfg import _dominators
            live = [n for n in self.cfg.nodes if n.id in self.reached]
            ids = set(n.id for n in live)
            d = _dominators(live, self.cfg.entry,
                            lambda n: [p for p in n.pred if p.id in ids])
            self._pruned_dom = d
        return d.get(node.id, set())

    def all_facts(self, node):
        """Like facts() but without the validity filter of Flow.facts (terms
        are values: a fact about a value stays true).  Dominance is taken on
        the executions the hypotheses allow.  A nested helper called as a
        statement on the way contributes the facts of its normal exit (e.g.
        the negations of the tests that make it raise)."""
        out = []
        dom = self.doms(node)
        valid = None
        for nid in sorted(dom):
            a = self.cfg.nodes[nid]
            if a is node:
                continue
            if a.kind == "stmt" and isinstance(a.ast, ast.Expr) and \
                    isinstance(a.ast.value, ast.Call) and \
                    isinstance(a.ast.value.func, ast.Name) and \
                    a.ast.value.func.id in self._nested:
                for x in self._post(a.ast.value, a):
                    if x not in out:
                        out.append(x)
                continue
            if a.kind != "assume":
                continue
            c = self.cond(a.ast, a, a.polarity)
            if any(st[0] in ("phi", "mu", "rec", "attrv", "opaque", "new")
                   for st in subterms(c[0])):
                # a merged / loop-carried / updated value: the same term at
                # two program points need not be the same value; keep the
                # fact only if nothing it mentions is re-defined in between
                # (dominance was taken under the hypotheses above; the
                # validity test is the flow's own, node by node)
                if not self.flow.fact_valid(a, node):
                    continue
            for x in split_cond(*c):
                if x not in out:
                    out.append(x)
        # the far side of a test with several operands: where every way in
        # is the false edge of an operand of one ``a and b`` (the true edge
        # of an operand of one ``a or b``), the whole test is known false
        # (true) - no single operand's edge dominates, the disjunction does
        for nid in sorted(dom):
            J = self.cfg.nodes[nid]
            if J is node and J.kind == "assume":
                continue
            ps_ = [p_ for p_ in J.pred if p_.id in self.reached] \
                if self.dead else list(J.pred)
            if len(ps_) < 2 or not all(
                    p_.kind == "assume" and p_.ast is not None
                    for p_ in ps_):
                continue
            B = getattr(ps_[0].ast, "_parent", None)
            if not isinstance(B, ast.BoolOp) or not all(
                    getattr(p_.ast, "_parent", None) is B for p_ in ps_):
                continue
            want_pol = not isinstance(B.op, ast.And)
            if not all(p_.polarity == want_pol for p_ in ps_) or \
                    sorted(id(p_.ast) for p_ in ps_) != sorted(
                        id(v_) for v_ in B.values):
                continue
            first = min(ps_, key=lambda p_: p_.id)
            try:
                c = self.cond(B, first, want_pol)
            except AnalysisError:
                continue
            if any(st[0] in ("phi", "mu", "rec", "attrv", "opaque", "new")
                   for st in subterms(c[0])) and not all(
                    self.flow.fact_valid(p_, node, origin=J)
                    for p_ in ps_):
                continue
            for x in split_cond(*c):
                if x not in out:
                    out.append(x)
        # inside a loop over a filtered collection ([x for x in it if c(x)])
        # the filter holds for the element in hand
        st_ = getattr(node, "ast", None)
        child = st_
        p_ = getattr(st_, "_parent", None) if st_ is not None else None
        while p_ is not None and p_ is not self.fn:
            if isinstance(p_, ast.For) and any(child is b for b in p_.body) \
                    and id(p_) in self.cfg.loop_head:
                try:
                    it = self.term(p_.iter, self.cfg.loop_head[id(p_)])
                    inner = it[2] if it[0] == "new" else it
                    if inner[0] in ("listcomp", "setcomp", "genexp") and \
                            len(inner[2]) == 1:
                        # (the loop variable is f(<element of the source>):
                        # the filter holds for that source element)
                        for c_ in inner[2][0][1]:
                            for x in split_cond(c_, True):
                                if x not in out:
                                    out.append(x)
                    elif it[0] == "new" and inner in (("list",), ("set",)):
                        # ... or filled by one loop that appends the
                        # elements passing its tests
                        b_ = self.filtered(it)
                        if b_ and len(b_) == 1 and \
                                b_[0][1] == self._elem(b_[0][0]):
                            for c_, p_ in b_[0][2]:
                                for x in split_cond(c_, p_):
                                    if x not in out:
                                        out.append(x)
                except AnalysisError:
                    pass
            child, p_ = p_, getattr(p_, "_parent", None)
        return unit_propagate(out)

    def _post(self, call, node):
        """Facts that hold when the nested helper called by ``call`` returns
        normally, in this function's terms (only facts about values: nothing
        that mentions state the helper or later code can change)."""
        helper = self._nested.get(call.func.id)
        key = ("post", id(call))
        if helper is None or key in self._busy:
            return []
        self._busy.add(key)
        try:
            a = helper.args
            names = [x.arg for x in a.posonlyargs + a.args]
            if a.vararg or a.kwarg or len(call.args) > len(names):
                return []
            sub = {}
            for nm, arg in zip(names, call.args):
                sub[nm] = self.term(arg, node)
            for k in call.keywords:
                if k.arg:
                    sub[k.arg] = self.term(k.value, node)
            ht = Terms(helper, helpers=self.helpers, outer=(self, node),
                       pure=self.pure)
            if self.hyps:
                ht = _HypInner(ht, dict(sub), None, self.hyps)
            facts = ht.all_facts(ht.cfg.exit)
            out = []
            for t, p in facts:
                t = subst_params(expand(t, 3), sub)
                if any(st[0] in ("phi", "mu", "rec", "attrv", "opaque",
                                 "new", "callv") for st in subterms(t)):
                    continue
                out.append(norm_cond(t, p))
            return out
        except AnalysisError:
            return []
        finally:
            self._busy.discard(key)

    # -- variables -------------------------------------------------------------
    # -- variables -------------------------------------------------------------
    def _var(self, c, node, env, after=False):
        if c in env:
            return env[c]
        rd = (self.rd_out if after else self.rd_in)[node.id]
        if c not in rd:
            if "." in c:
                base, attr = c.rsplit(".", 1)
                bt = self._var(base, node, env, after)
                return self._attr(bt, attr, c, node)
            if self.outer is not None:
                ot, onode = self.outer
                return ot._var(c, onode, {})
            return ("global", c)
        ids = sorted(rd[c])
        if "." in c and c.split(".")[0] in self._params_:
            # an attribute of an argument stored on some paths only: on the
            # others it still has the value it had when the function was
            # entered
            nodes = [self.binds[i].node for i in ids]
            covered = (after and node in nodes) or self.cfg.must_pass(
                self.cfg.entry, lambda n: n in nodes, targets=[node])
            if not covered:
                base, attr = c.rsplit(".", 1)
                init = ("attrv", self._var(base, node, env, after), attr,
                        ("entry",))
                rest = self._bind_term(self.binds[ids[0]]) \
                    if len(ids) == 1 else ("mu", Mu(self, ids, c))
                return _phi((init, rest))
        if len(ids) == 1:
            return self._bind_term(self.binds[ids[0]])
        return ("mu", Mu(self, ids, c))

    def _attr(self, bt, attr, c, node):
        # a chain that this function assigns / a self attribute that method
        # calls on self may change: add the reaching-version
        root = c
        versioned = False
        while True:
            if root in self.assigned_chains:
                versioned = True
                break
            if "." not in root:
                break
            root = root.rsplit(".", 1)[0]
        if not versioned:
            return ("attr", bt, attr)
        ds = self.flow.rd_in[node.id].get(c)
        ver = tuple(sorted(ds)) if ds else ()
        return ("attrv", bt, attr, ver)

    def _bind_term(self, b):
        key = ("b", b.id)
        if key in self._cache:
            return self._cache[key]
        if key in self._busy:
            return ("rec",)
        self._busy.add(key)
        try:
            t = self._bind_term0(b)
        finally:
            self._busy.discard(key)
        self._cache[key] = t
        return t

    def _bind_term0(self, b):
        if b.mode == "param":
            return ("param", b.var)
        if b.mode == "def":
            return ("local", b.var)
        if b.mode == "import":
            return ("global", b.var)
        if b.mode in ("opaque",) or (b.value is None):
            return ("opaque", "%s@%d" % (b.var, b.node.id))
        if b.mode == "aug":
            s = b.value
            old = self._var(chain(s.target), b.node, {})
            return self._binop(type(s.op).__name__, old,
                               self._term(s.value, b.node, {}))
        base = self._term(b.value, b.node, {})
        if b.mode == "iter":
            base = self._tag(b.value, self._elem(base))
        elif b.mode == "with":
            base = ("with", base)
        for i, n in b.path:
            base = self._comp(base, i, n)
        return base

    def _elem(self, t):
        if t[0] == "call" and t[1] == ("global", "range") and not t[3] and \
                len(t[2]) == 1 and t[2][0][0] == "call" and \
                t[2][0][1] == ("global", "len") and len(t[2][0][2]) == 1:
            # k over range(len(x)): the position of an element of x
            return ("index", t[2][0][2][0])
        if t[0] == "new" and t[2][0] in ("list", "set") and len(t[2]) > 1:
            t = t[2]
        if t[0] == "new" and (t[2] in (("list",), ("set",)) or (
                t[2][0] == "call" and t[2][1] == ("global", "set") and
                not t[2][2])):
            # an empty collection filled by one loop: its elements are what
            # that loop appends (as for the comprehension it spells out)
            memo = self.__dict__.setdefault("_built_elem", {})
            if t not in memo:
                memo[t] = None          # (guards the recursion)
                try:
                    b_ = self.filtered(t)
                except AnalysisError:
                    b_ = None
                if b_ and len(b_) == 1:
                    memo[t] = b_[0][1]
            if memo[t] is not None:
                return memo[t]
        inner = t[2] if t[0] == "new" else t
        if inner[0] in ("listcomp", "setcomp", "genexp") and \
                len(inner[2]) >= 1:
            # an element of [f(x) for x in it] is f(<each of it>)
            return inner[1]
        if t[0] == "call" and t[1] == ("global", "enumerate") and \
                len(t[2]) >= 1:
            return ("tuple", ("index", t[2][0]), self._elem(t[2][0]))
        if t[0] == "call" and t[1] == ("global", "zip"):
            return ("tuple",) + tuple(self._elem(a) for a in t[2])
        if t[0] in ("call", "callv") and t[1] in (
                ("attr", ("global", "itertools"), "product"),
                ("global", "product"),
                ("global", "itertools.product")) and t[2] and not t[3]:
            # the elements of product(a, b) are what nested loops over a and
            # b visit, in the same order
            return ("tuple",) + tuple(self._elem(a) for a in t[2])
        if t[0] in ("tuple", "list", "set") and len(t) > 1:
            return _phi(t[1:])
        if t[0] == "call" and t[1] in (("global", "sorted"),
                                       ("global", "reversed"),
                                       ("global", "tuple"),
                                       ("global", "iter")) and \
                len(t[2]) == 1 and not t[3]:
            return self._elem(t[2][0])
        return ("elem", t)

    def _comp(self, t, i, n):
        if t[0] == "item" and t[2][0] == "slice" and \
                t[2][2] == ("const", None) and t[2][3] == ("const", None) and \
                t[2][1][0] == "const" and isinstance(t[2][1][1], int) and \
                not isinstance(t[2][1][1], bool) and t[2][1][1] >= 0:
            # x[a:][i] is x[a + i]
            return self._comp(t[1], i + t[2][1][1],
                              n + t[2][1][1] if n >= 0 else n)
        if t[0] == "new" and t[2][0] == "list" and len(t[2]) > 1:
            # (a non-empty list display; an empty one is a list that is
            # filled later: its elements are not the display's)
            t = t[2]
        if t[0] in ("tuple", "list") and (len(t) - 1 == n or (
                n == -1 and i < len(t) - 1)):
            return t[1 + i]
        if t[0] == "call" and t[1] == ("global", "divmod") and \
                len(t[2]) == 2 and not t[3] and i in (0, 1) and n in (2, -1):
            # divmod(a, b) == (a // b, a % b)
            return self._binop("FloorDiv" if i == 0 else "Mod", t[2][0],
                               t[2][1])
        return ("comp", t, i)

    # -- expressions -----------------------------------------------------------
    def _term(self, e, node, env):
        T = self._term
        if isinstance(e, ast.Constant):
            return ("const", e.value)
        c = chain(e)
        if c is not None:
            return self._var(c, node, env)
        if isinstance(e, ast.Attribute):
            b_ = T(e.value, node, env)
            # slice(a, b).start / .stop are a / b
            if e.attr in ("start", "stop") and b_[0] == "call" and \
                    b_[1] == ("global", "slice") and len(b_[2]) == 2 and \
                    not b_[3]:
                return b_[2][0 if e.attr == "start" else 1]
            # struct.Struct(F).size is struct.calcsize(F)
            pb_ = plain(b_)
            if e.attr == "size" and pb_[0] == "call" and pb_[1] == (
                    "attr", ("global", "struct"), "Struct") and \
                    len(pb_[2]) == 1 and not pb_[3]:
                return ("call", ("attr", ("global", "struct"), "calcsize"),
                        (pb_[2][0],), ())
            return ("attr", b_, e.attr)
        if isinstance(e, ast.NamedExpr):
            return T(e.value, node, env)
        if isinstance(e, (ast.Tuple, ast.List, ast.Set)):
            if any(isinstance(x, ast.Starred) for x in e.elts):
                return ("opaque", unparse(e))
            parts = tuple(T(x, node, env) for x in e.elts)
            kind = {ast.Tuple: "tuple", ast.List: "list",
                    ast.Set: "set"}[type(e)]
            # (a, b) rebuilt from the components of one pair is that pair
            if kind == "tuple" and parts and all(
                    p[0] == "comp" and p[2] == i and p[1] == parts[0][1]
                    for i, p in enumerate(parts)) and \
                    self._arity(parts[0][1]) == len(parts):
                return parts[0][1]
            if kind == "set":
                parts = tuple(sorted(parts, key=_key))
            if kind != "tuple":
                return ("new", self._site(e), (kind,) + parts)
            return (kind,) + parts
        if isinstance(e, ast.Dict):
            if any(k is None for k in e.keys):
                # {**a, 'k': v, **b}: a dictionary made on the spot, written
                # in the order listed (later entries win)
                parts = []
                for k, v in zip(e.keys, e.values):
                    if k is None:
                        parts.append(("all", T(v, node, env)))
                    else:
                        parts.append(("set", T(k, node, env),
                                      T(v, node, env)))
                return ("new", self._site(e), ("dictmerge", tuple(parts)))
            return ("new", self._site(e), (
                "dict", tuple((T(k, node, env), T(v, node, env))
                              for k, v in zip(e.keys, e.values))))
        if isinstance(e, ast.Subscript):
            base = T(e.value, node, env)
            idx = self._index(e.slice, node, env)
            if idx[0] == "const" and isinstance(idx[1], int) and \
                    not isinstance(idx[1], bool) and idx[1] >= 0:
                # x[0] and the first target of ``a, b = x`` are one value
                n = self._arity(base)
                return self._comp(base, idx[1], n if n is not None else -1)
            if base[0] == "tuple" and idx[0] == "slice" and \
                    idx[3] == ("const", None) and all(
                        x[0] == "const" and (x[1] is None or (
                            isinstance(x[1], int) and x[1] >= 0))
                        for x in idx[1:3]):
                # a constant slice of a tuple display
                return ("tuple",) + tuple(base[1:][idx[1][1]:idx[2][1]])
            if idx == ("index", base):
                # x[k] with k the position of an element of x
                return ("elem", base)
            pb_ = base[2] if base[0] == "new" else base
            if idx[0] == "slice" and idx[2] == ("const", None) and \
                    idx[3] == ("const", None) and pb_[0] == "call" and \
                    pb_[1] == ("global", "list") and len(pb_[2]) == 1 and \
                    not pb_[3] and pb_[2][0][0] == "call" and \
                    pb_[2][0][1] == ("global", "zip") and \
                    not pb_[2][0][3] and _nonneg_size(idx[1]):
                # list(zip(a, b))[k:] pairs up a[k:] with b[k:]
                return ("call", ("global", "list"), ((
                    "call", ("global", "zip"), tuple(
                        ("item", x, idx) for x in pb_[2][0][2]), ()),), ())
            if idx[0] == "slice" and idx[1] == ("const", None) and \
                    idx[3] == ("const", None) and \
                    idx[2] == ("call", ("global", "len"), (base,), ()):
                return base               # x[:len(x)]
            if idx == ("elem", base):
                # d[k] for k iterating d itself: the value of that entry
                return ("comp", ("elem", ("items", base)), 1)
            if idx[0] == "elem" and idx[1][0] == "call" and \
                    idx[1][1] == ("global", "range") and not idx[1][3] and \
                    len(idx[1][2]) in (1, 2):
                # x[k] for k over range(a, b): an element of x[a:b]
                r = idx[1][2]
                lo, hi = (("const", 0), r[0]) if len(r) == 1 else r
                if lo == ("const", 0):
                    lo = ("const", None)
                return ("elem", ("item", base,
                                 ("slice", lo, hi, ("const", None))))
            if base[0] == "tuple" and idx[0] == "const" and \
                    isinstance(idx[1], int) and \
                    -len(base) + 1 <= idx[1] < len(base) - 1:
                # (a, b, c)[1] is b; (no, yes)[True] is yes
                return base[1:][int(idx[1])]
            return ("item", base, idx)
        if isinstance(e, ast.UnaryOp):
            v = T(e.operand, node, env)
            if isinstance(e.op, ast.Not):
                if v[0] in ("and", "or"):
                    # not (a and b)  is  (not a) or (not b), operand by
                    # operand and with the same short cut
                    parts = []
                    for x in v[1:]:
                        nx = x[1] if x[0] == "not" else ("not", x)
                        parts.append(nx)
                    return ("or" if v[0] == "and" else "and",) + tuple(parts)
                return v[1] if v[0] == "not" else ("not", v)
            if isinstance(e.op, ast.USub) and v[0] == "const" and \
                    isinstance(v[1], (int, float)):
                return ("const", -v[1])
            return ("unop", type(e.op).__name__, v)
        if isinstance(e, ast.BinOp):
            return self._binop(type(e.op).__name__, T(e.left, node, env),
                               T(e.right, node, env))
        if isinstance(e, ast.BoolOp):
            kind = "and" if isinstance(e.op, ast.And) else "or"
            parts = []
            for v in e.values:
                t = T(v, node, env)
                if t[0] == kind:
                    parts.extend(t[1:])
                else:
                    parts.append(t)
            if self.hyps:
                # operands decided by the hypotheses (value context: ``a or
                # b`` is a when a is true, b when a is false)
                kept = []
                for i, t in enumerate(parts):
                    d = self._decided(t[1] if t[0] == "not" else t)
                    if d is not None and t[0] == "not":
                        d = not d
                    if d is None:
                        kept.append(t)
                    elif d != (kind == "and"):
                        kept.append(t)
                        break
                    elif i == len(parts) - 1:
                        kept.append(t)
                parts = kept
                if len(parts) == 1:
                    return parts[0]
            return (kind,) + tuple(parts)
        if isinstance(e, ast.Compare):
            items = []
            left = e.left
            for op, right in zip(e.ops, e.comparators):
                items.append(self._cmp(type(op).__name__,
                                       T(left, node, env),
                                       T(right, node, env)))
                left = right
            return items[0] if len(items) == 1 else ("and",) + tuple(items)
        if isinstance(e, ast.IfExp):
            c, pol = self.cond(e.test, node, True, env)
            a, b = T(e.body, node, env), T(e.orelse, node, env)
            if a == b:
                return a
            v = self._decided(c)
            if v is not None:
                return a if v == pol else b
            return ("ite", c, a, b) if pol else ("ite", c, b, a)
        if isinstance(e, ast.Call):
            return self._call(e, node, env)
        if isinstance(e, ast.Lambda):
            names = [a.arg for a in e.args.args]
            env2 = dict(env)
            for i, nm in enumerate(names):
                env2[nm] = ("lparam", i)
            return ("lambda", len(names), T(e.body, node, env2))
        if isinstance(e, (ast.ListComp, ast.SetComp, ast.GeneratorExp,
                          ast.DictComp)):
            env2 = dict(env)
            gens = []
            for g in e.generators:
                it = T(g.iter, node, env2)
                self._bind_target(g.target, self._tag(g.iter, self._elem(it)),
                                  env2)
                conds = tuple(T(c_, node, env2) for c_ in g.ifs)
                gens.append((it, conds))
            if isinstance(e, ast.DictComp):
                elt = ("pair", T(e.key, node, env2), T(e.value, node, env2))
            else:
                elt = T(e.elt, node, env2)
            kind = {ast.ListComp: "listcomp", ast.SetComp: "setcomp",
                    ast.GeneratorExp: "genexp",
                    ast.DictComp: "dictcomp"}[type(e)]
            if len(gens) == 1 and not gens[0][1]:
                # a comprehension over a comprehension: its elements were
                # already substituted, so it ranges over the inner one's
                # generators
                inner0 = gens[0][0]
                inner = inner0[2] if inner0[0] == "new" else inner0
                if inner[0] in ("listcomp", "genexp", "setcomp"):
                    gens = list(inner[2])
                elif inner0[0] == "new" and inner in (("list",), ("set",)):
                    # ... or over a collection filled by one loop: the
                    # loop's iterable and tests
                    try:
                        b_ = self.filtered(inner0)
                    except AnalysisError:
                        b_ = None
                    if b_ and len(b_) == 1:
                        gens = [(b_[0][0], tuple(
                            c_ if p_ else ("not", c_)
                            for c_, p_ in b_[0][2]))]
            return (kind, elt, tuple(gens))
        if isinstance(e, ast.Starred):
            return ("star", T(e.value, node, env))
        if isinstance(e, ast.Slice):
            return self._index(e, node, env)
        return ("opaque", unparse(e))

    def _bind_target(self, t, val, env):
        if isinstance(t, (ast.Tuple, ast.List)):
            n = len(t.elts)
            for i, te in enumerate(t.elts):
                self._bind_target(te, self._comp(val, i, n), env)
        elif isinstance(t, ast.Name):
            env[t.id] = val

    def _arity(self, t):
        """Number of components ``t`` is unpacked into somewhere, if any."""
        ar = self.__dict__.setdefault("_arities", None)
        if ar is None:
            ar = self._arities = {}
            for b in self.binds:
                if b.path and b.value is not None and b.mode != "aug":
                    try:
                        base = self._term(b.value, b.node, {})
                    except AnalysisError:
                        continue
                    if b.mode == "iter":
                        base = self._elem(base)
                    for i, n in b.path:
                        ar[base] = n
                        base = self._comp(base, i, n)
        return ar.get(t)

    def _index(self, s, node, env):
        if isinstance(s, ast.Slice):
            f = lambda x: ("const", None) if x is None else \
                self._term(x, node, env)   # noqa: E731
            lo = f(s.lower)
            if lo == ("const", 0):
                lo = ("const", None)
            return ("slice", lo, f(s.upper), f(s.step))
        return self._term(s, node, env)

    def _binop(self, op, a, b):
        if op == "Add" and a[0] == "tuple" and b[0] == "tuple":
            # (a, b) + (c,) is the tuple (a, b, c)
            return ("tuple",) + tuple(a[1:]) + tuple(b[1:])
        if op in _COMM and _key(b) < _key(a):
            a, b = b, a
        if a[0] == "const" and b[0] == "const" and \
                isinstance(a[1], int) and isinstance(b[1], int) and \
                not isinstance(a[1], bool) and not isinstance(b[1], bool):
            try:
                v = {"Add": lambda: a[1] + b[1], "Sub": lambda: a[1] - b[1],
                     "Mult": lambda: a[1] * b[1],
                     "LShift": lambda: a[1] << b[1] if 0 <= b[1] < 128
                     else None,
                     "BitOr": lambda: a[1] | b[1],
                     "BitAnd": lambda: a[1] & b[1]}.get(op, lambda: None)()
            except Exception:
                v = None
            if v is not None:
                return ("const", v)
        return ("binop", op, a, b)

    def _cmp(self, opn, a, b):
        # x in (c1, .., cn) over a short display of constants is
        # x == c1 or .. or x == cn  (x is None for None)
        disp = b[2] if b[0] == "new" else b
        if opn in ("In", "NotIn") and disp[0] in ("tuple", "list", "set") \
                and 1 <= len(disp) - 1 <= 4 and all(
                    x[0] == "const" and not isinstance(x[1], float)
                    for x in disp[1:]):
            parts = [is_none(a) if x[1] is None else mk_cmp("Eq", a, x)
                     for x in disp[1:]]
            t = parts[0] if len(parts) == 1 else ("or",) + tuple(parts)
            if opn == "In":
                return t
            if t[0] == "or":
                return ("and",) + tuple(("not", x) for x in t[1:])
            return ("not", t)
        return mk_cmp(opn, a, b)

    # -- calls -----------------------------------------------------------------
    def _call(self, e, node, env):
        T = self._term
        f = e.func
        args = []
        for a in e.args:
            args.append(T(a, node, env))
        kws = []
        for k in e.keywords:
            kws.append((k.arg or "**", T(k.value, node, env)))
        kws = tuple(sorted(kws, key=_key))
        args = tuple(args)
        # itertools.islice(x, a, b) ranges over the elements of x[a:b]
        # (x[:n] for islice(x, n))
        if ((isinstance(f, ast.Name) and f.id == "islice") or (
                isinstance(f, ast.Attribute) and f.attr == "islice" and
                chain(f.value) == "itertools")) and not kws and \
                len(args) in (2, 3):
            N_ = ("const", None)
            lo_, hi_ = (N_, args[1]) if len(args) == 2 else (args[1],
                                                             args[2])
            if lo_ == ("const", 0):
                lo_ = N_
            return ("item", args[0], ("slice", lo_, hi_, N_))
        # b"".join((a, b, c)) over a display of two or more parts is
        # a + b + c
        if isinstance(f, ast.Attribute) and f.attr == "join" and \
                isinstance(f.value, ast.Constant) and \
                f.value.value in (b"", "") and len(args) == 1 and not kws:
            disp = args[0][2] if args[0][0] == "new" else args[0]
            if disp[0] in ("tuple", "list") and len(disp) >= 3:
                out = disp[1]
                for x in disp[2:]:
                    out = self._binop("Add", out, x)
                return out
        # math.pow(2.0, n) is 2.0 ** n (a float base: the same C pow)
        if isinstance(f, ast.Attribute) and f.attr == "pow" and \
                chain(f.value) == "math" and len(args) == 2 and not kws and \
                args[0][0] == "const" and isinstance(args[0][1], float):
            return self._binop("Pow", args[0], args[1])
        # dict views / get, whichever spelling
        if isinstance(f, ast.Name) and f.id in _ITEMS and len(args) == 1 \
                and f.id.startswith(("iter", "view")):
            return (_ITEMS[f.id], args[0])
        if isinstance(f, ast.Attribute):
            if f.attr in _ITEMS and not args and not kws:
                return (_ITEMS[f.attr], T(f.value, node, env))
            if f.attr in _ITEMS and len(args) == 1 and chain(f.value) in (
                    "six",):
                return (_ITEMS[f.attr], args[0])
            if f.attr == "get" and len(args) in (1, 2) and not kws:
                if len(args) == 2 and args[1] == ("const", None):
                    args = args[:1]       # None is the default default
                return ("get", T(f.value, node, env)) + args
        if isinstance(f, ast.Name) and f.id == "getattr" and \
                len(args) == 2 and not kws and args[1][0] == "const" and \
                isinstance(args[1][1], str):
            return ("attr", args[0], args[1][1])
        ft = T(f, node, env)
        # a bound method kept in a variable (g = d.get; g(k, 0))
        if not isinstance(f, ast.Attribute) and ft[0] == "attr":
            if ft[2] == "get" and len(args) in (1, 2) and not kws:
                if len(args) == 2 and args[1] == ("const", None):
                    args = args[:1]
                return ("get", ft[1]) + args
            if ft[2] in _ITEMS and not args and not kws:
                return (_ITEMS[ft[2]], ft[1])
        # S.pack(...) etc. on a module-level S = struct.Struct(<format>) reads
        # as struct.pack(<format>, ...)
        if ft[0] == "attr" and ft[1][0] == "global" and ft[2] in (
                "pack", "unpack", "unpack_from", "pack_into", "iter_unpack"):
            fmt = _struct_consts(self.fn).get(ft[1][1])
            if fmt is not None:
                ft = ("attr", ("global", "struct"), ft[2])
                args = (("const", fmt),) + args
        # spellings of the same value: map(f, xs) is (f(x) for x in xs);
        # list(<generator>) / set(<generator>) are the comprehensions;
        # divmod(a, b) is the pair (a // b, a % b)
        if ft == ("global", "map") and len(args) == 2 and not kws and \
                args[0][0] in ("global", "attr", "local") and \
                len(e.args) == 2:
            synth = ast.Call(func=e.args[0],
                             args=[ast.Name(id="__map_elem__",
                                            ctx=ast.Load())], keywords=[])
            ast.copy_location(synth, e)
            ast.copy_location(synth.args[0], e)
            synth._parent = getattr(e, "_parent", None)
            synth.args[0]._parent = synth
            env2 = dict(env)
            env2["__map_elem__"] = self._tag(e.args[1], self._elem(args[1]))
            return ("genexp", self._call(synth, node, env2),
                    ((args[1], ()),))
        # any(f(v) for v in (a, b, c)) over a display is f(a) or f(b) or
        # f(c); all(...) the conjunction
        if ft in (("global", "any"), ("global", "all")) and \
                len(args) == 1 and not kws and args[0][0] == "genexp" and \
                len(args[0][2]) == 1 and not args[0][2][0][1]:
            it_ = args[0][2][0][0]
            disp = it_[2] if it_[0] == "new" else it_
            if disp[0] in ("tuple", "list") and 2 <= len(disp) <= 9:
                el_ = self._elem(it_)
                parts = []
                for x in disp[1:]:
                    parts.append(_subst_term(args[0][1], el_, x))
                if all(el_ not in list(subterms(p_)) for p_ in parts):
                    return ("or" if ft[1] == "any" else "and",) + \
                        tuple(parts)
        if ft in (("global", "list"), ("global", "set")) and \
                len(args) == 1 and not kws and args[0][0] == "genexp":
            return ("listcomp" if ft[1] == "list" else "setcomp",) + \
                tuple(args[0][1:])
        if ft == ("global", "range") and len(args) == 2 and not kws and \
                args[0] == ("const", 0):
            args = args[1:]             # range(0, n) is range(n)
        if ft in (("global", "dict"), ("global", "list")) and not args \
                and not kws:
            # dict() is {} and list() is []
            return ("new", self._site(e),
                    ("dict", ()) if ft[1] == "dict" else ("list",))
        if ft == ("global", "bool") and len(args) == 1 and not kws and \
                self.hyps:
            d = self._decided(args[0])
            if d is not None:
                return ("const", d)
        if ft == ("global", "divmod") and len(args) == 2 and not kws:
            return ("tuple", self._binop("FloorDiv", args[0], args[1]),
                    self._binop("Mod", args[0], args[1]))
        inl = self._inline(e, ft, args, kws, node)
        if inl is not None:
            return inl
        if (ft[0] == "global" and
                ft[1].rsplit(".", 1)[-1] in _MUTABLE_CTORS) or (
                ft[0] == "attr" and ft[1][0] == "global" and
                ft[2] in _MUTABLE_CTORS):
            return ("new", self._site(e), ("call", ft, args, kws))
        last = ft[1].rsplit(".", 1)[-1] if ft[0] in ("global", "local") \
            else (ft[2] if ft[0] == "attr" else None)
        if last in PURE or last in self.pure:
            return ("call", ft, args, kws)
        return ("callv", ft, args, kws, self._site(e))

    def _site(self, e):
        site = "%s:%s" % (getattr(e, "lineno", 0), getattr(e, "col_offset",
                                                           0))
        SITES[site] = e
        return site

    def _inline(self, e, ft, args, kws, node):
        callee = None
        skip_self = False
        if ft[0] == "local" and ft[1] in self._nested:
            callee = self._nested[ft[1]]
        elif ft[0] == "global" and ft[1].rsplit(".", 1)[-1] in self.helpers:
            callee = self.helpers[ft[1].rsplit(".", 1)[-1]]
        elif ft[0] == "attr" and ft[1] == ("param", "self") and \
                ft[2] in self.helpers:
            callee = self.helpers[ft[2]]
            skip_self = True
        if callee is None or callee is self.fn:
            return None
        key = ("inl", id(callee))
        if key in self._busy:
            return None
        a = callee.args
        names = [x.arg for x in a.posonlyargs + a.args]
        if skip_self:
            names = names[1:]
        if a.vararg or a.kwarg or len(args) > len(names) or any(
                t[0] == "star" for t in args) or any(
                    k == "**" for k, _ in kws):
            return None
        sub = {}
        for nm, t in zip(names, args):
            sub[nm] = t
        for k, t in kws:
            if k not in names + [x.arg for x in a.kwonlyargs] or k in sub:
                return None
            sub[k] = t
        dn = len(names) - len(a.defaults)
        self._busy.add(key)
        try:
            outer = None
            if callee.name in self._nested and \
                    self._nested[callee.name] is callee:
                if _inside_fn(callee, self.fn):
                    outer = (self, node)
                elif self.outer is not None:
                    outer = self.outer      # a sibling: same enclosing scope
            ct = Terms(callee, helpers=self.helpers, outer=outer,
                       pure=self.pure)
            if self.hyps:
                # under the caller's hypotheses some of the helper's returns
                # may be unreachable
                partial = dict(sub)
                ct = _HypInner(ct, partial, None, self.hyps)
            for i, nm in enumerate(names):
                if nm not in sub:
                    if i >= dn:
                        sub[nm] = ct._term(a.defaults[i - dn], ct.cfg.entry,
                                           {})
                    else:
                        return None
            rets = [n for n in ast.walk(callee) if isinstance(n, ast.Return)
                    and _owner(n, callee)]
            if any(isinstance(n, (ast.Yield, ast.YieldFrom))
                   for n in ast.walk(callee) if _owner(n, callee)):
                return None
            if self.hyps:
                rets = [r for r in rets if ct.live(ct.cfg.node_of(r))]
            if len(rets) == 2 and not self.hyps:
                rt = ct.search_loop()
                if rt is None:
                    return None
            elif len(rets) != 1 or rets[0].value is None:
                return None
            else:
                rt = ct.term(rets[0].value)
        except AnalysisError:
            return None
        finally:
            self._busy.discard(key)
        if skip_self:
            sub["self"] = ("param", "self")
        # merges inside the helper are written out before its parameters are
        # replaced (a mu names definitions of the helper, not of the caller)
        return subst_params(expand(rt, 3), sub)


class _Inner(object):
    def __init__(self, t, sub, call, host):
        self.t, self.sub, self.call, self.host = t, sub, call, host
        self.cfg = t.cfg

    def _x(self, term):
        term = subst_params(expand(term, 3), self.sub)
        if isinstance(self.host, _Inner):
            term = self.host._x(term)
        return term

    def term(self, expr, node=None, env=None):
        return self._x(self.t.term(expr, node, env))

    def cond(self, expr, node=None, polarity=True, env=None):
        t, pol = self.t.cond(expr, node, polarity, env)
        t = self._x(t)
        while t[0] == "not":
            t, pol = t[1], not pol
        return t, pol

    def all_facts(self, node):
        return [(self._x(t), p) for t, p in self.t.all_facts(node)]

    def full_facts(self, node):
        """Facts holding at ``node`` of the nested function: those that hold
        where it is called (in the enclosing function, provided nothing they
        mention is mutated by the nested function before ``node``) and its
        own."""
        host = self.host
        hn = host.cfg.node_containing(self.call)
        outer = host.full_facts(hn) if isinstance(host, _Inner) else \
            host.all_facts(hn)
        # a fact of the caller about a container the helper mutates is only
        # kept if no such mutation can precede ``node``
        muts = []
        for c in ast.walk(self.t.fn):
            if isinstance(c, ast.Call) and isinstance(c.func, ast.Attribute) \
                    and _owner(c, self.t.fn):
                muts.append((self.t.cfg.node_containing(c),
                             self.term(c.func.value)))
        for n_, st, base, key, val in stores(self.t):
            muts.append((n_, self._x(base)))
        kept = []
        for t, p in outer:
            stale = False
            for mn, recv in muts:
                if mn is not node and self.t.cfg.reaches(mn, node) and any(
                        st == recv for st in subterms(t)):
                    stale = True
            if not stale:
                kept.append((t, p))
        return kept + self.all_facts(node)

    def under(self, *hyps):
        # hypotheses are given in outer terms; they are matched after
        # substitution, so substitute on the fly
        tt = _HypInner(self.t, self.sub, self.host, hyps)
        return _Inner(tt, self.sub, self.call, self.host)

    def must_pass(self, src, pred, targets=None):
        return self.t.must_pass(src, pred, targets)

    def live(self, node):
        return self.t.live(node)

    def node_of(self, expr):
        return self.t.node_of(expr)


def _HypInner(t, sub, host, hyps):
    """Terms of the nested function under hypotheses stated in outer
    terms."""
    class H(Terms):
        def _decided(self, term):
            x = subst_params(term, sub)
            if isinstance(host, _Inner):
                x = host._x(x)
            return Terms._decided(self, x)
    return H(t.fn, helpers=t.helpers, flow=t.flow, outer=t.outer,
             hyps=list(hyps), pure=t.pure)


def _enclosing_fn(n):
    p = getattr(n, "_parent", None)
    while p is not None and not isinstance(
            p, (ast.FunctionDef, ast.AsyncFunctionDef)):
        p = getattr(p, "_parent", None)
    return p


def _inside_fn(n, fn):
    p = getattr(n, "_parent", None)
    while p is not None:
        if p is fn:
            return True
        p = getattr(p, "_parent", None)
    return False


def owner_terms(T, construct):
    """Terms object (T itself or an inner one) for the function that directly
    contains ``construct`` (which lies somewhere inside T.fn)."""
    owner = _enclosing_fn(construct)
    if owner is T.fn:
        return T
    return T.inner(owner)


def truth_paths(T, fn=None):
    """The ways the function can return a true value: one set of canonical
    facts {(term, polarity)} per (return statement, incoming path) whose value
    is not constantly false - the dominating branch conditions plus what the
    returned expression itself requires.  Hypotheses of T are left out."""
    fn = fn or T.fn
    hyp = set((h, bool(v)) for h, v in T.hyps)
    out = []
    for r in ast.walk(fn):
        if not isinstance(r, ast.Return) or not _owner(r, fn) or \
                r.value is None:
            continue
        n = T.cfg.node_of(r)
        if not T.live(n):
            continue
        v, pol = T.cond(r.value, n, True)
        if v in (("const", False), ("const", None)) and pol:
            continue
        if v == ("const", True) and not pol:
            continue
        extra = [] if v[0] == "const" else split_cond(v, pol)
        for ent, facts in T.facts_by_path(n):
            fs = set()
            for t, p in list(facts) + extra:
                for a in split_cond(t, p):
                    if a not in hyp:
                        fs.add(a)
            out.append(frozenset(fs))
    return out


def yields(T, fn=None):
    """[(node, value term, facts)] for every yield directly in the
    function."""
    fn = fn or T.fn
    out = []
    for y in ast.walk(fn):
        if isinstance(y, ast.Yield) and _owner(y, fn) and y.value is not None:
            n = T.cfg.node_containing(y)
            out.append((n, T.term(y.value, n), T.all_facts(n)))
    return out


def stores(T, fn=None):
    """Subscript stores ``base[key] = value`` (and ``base[key] op= v``, whose
    value is the combined term) directly in T.fn:
    [(node, statement, base term, key term, value term)]."""
    out = []
    for n in T.cfg.nodes:
        st = n.ast
        if n.kind != "stmt":
            continue
        if isinstance(st, ast.Assign) and any(
                isinstance(t_, ast.Subscript) for t_ in st.targets):
            for tgt in st.targets:
                if isinstance(tgt, ast.Subscript):
                    out.append((n, st, T.term(tgt.value, n),
                                T._index(tgt.slice, n, {}),
                                T.term(st.value, n)))
        elif isinstance(st, ast.AugAssign) and \
                isinstance(st.target, ast.Subscript):
            tgt = st.target
            base = T.term(tgt.value, n)
            key = T._index(tgt.slice, n, {})
            old = T.term(tgt, n)
            out.append((n, st, base, key, T._binop(
                type(st.op).__name__, old, T.term(st.value, n))))
    return out


def method_calls(T, names):
    """Calls ``recv.<name>(args)`` directly in T.fn (not in nested defs):
    [(node, call, receiver term, [argument terms])]."""
    if isinstance(names, str):
        names = (names,)
    out = []
    for c in ast.walk(T.fn):
        if isinstance(c, ast.Call) and isinstance(c.func, ast.Attribute) \
                and c.func.attr in names and _owner(c, T.fn):
            n = T.cfg.node_containing(c)
            env = {}
            out.append((n, c, T.term(c.func.value, n),
                        [T.term(a, n) for a in c.args]))
    return out


def owner_views(T, construct):
    """Like owner_terms, but one view per call site when the construct lies
    in a nested helper that is called several times."""
    owner = _enclosing_fn(construct)
    if owner is T.fn:
        return [T]
    return T.inners(owner)


def _owner(n, fn):
    p = getattr(n, "_parent", None)
    while p is not None and not isinstance(
            p, (ast.FunctionDef, ast.AsyncFunctionDef, ast.Lambda)):
        p = getattr(p, "_parent", None)
    return p is fn


def _nonneg_size(t):
    """A sum / product of non-negative integer constants and lengths."""
    if t[0] == "const":
        return isinstance(t[1], int) and not isinstance(t[1], bool) and \
            t[1] >= 0
    if t[0] == "call" and t[1] == ("global", "len"):
        return True
    if t[0] == "binop" and t[1] in ("Add", "Mult"):
        return _nonneg_size(t[2]) and _nonneg_size(t[3])
    return False


def _subst_term(t, old, new):
    if t == old:
        return new
    if not isinstance(t, tuple) or not t or t[0] == "const":
        return t
    out = tuple(_subst_term(x, old, new) if isinstance(x, tuple) else x
                for x in t)
    # the operands of a symmetric comparison are kept in canonical order
    if out and out[0] == "cmp" and len(out) == 4 and out[1] in _SYMM and \
            _key(out[3]) < _key(out[2]):
        out = ("cmp", out[1], out[3], out[2])
    return out


def subst_params(t, sub):
    if not isinstance(t, tuple):
        return t
    if t and t[0] == "param" and len(t) == 2 and t[1] in sub:
        return sub[t[1]]
    if t and t[0] == "const":
        return t
    out = tuple(subst_params(x, sub) if isinstance(x, tuple) else x
                for x in t)
    # the operands of a symmetric comparison are kept in canonical order
    if out and out[0] == "cmp" and len(out) == 4 and out[1] in _SYMM and \
            _key(out[3]) < _key(out[2]):
        out = ("cmp", out[1], out[3], out[2])
    # getattr(x, "name") with a now-constant name is an attribute read
    if out and out[0] == "call" and out[1] == ("global", "getattr") and \
            len(out[2]) == 2 and not out[3] and out[2][1][0] == "const" and \
            isinstance(out[2][1][1], str):
        return ("attr", out[2][0], out[2][1][1])
    return out


# -- matching --------------------------------------------------------------------
class V(object):
    """Pattern variable."""

    def __init__(self, name):
        self.name = name

    def __repr__(self):
        return "?" + self.name


ANY = V("_")


def match(pat, t, b=None):
    """Unify pattern (tuples with V instances) against term; returns bindings
    dict or None."""
    b = {} if b is None else b
    if isinstance(pat, V):
        if pat.name == "_":
            return b
        if pat.name in b:
            return b if b[pat.name] == t else None
        b2 = dict(b)
        b2[pat.name] = t
        return b2
    if isinstance(pat, tuple):
        if not isinstance(t, tuple) or len(pat) != len(t):
            return None
        for p_, t_ in zip(pat, t):
            b = match(p_, t_, b)
            if b is None:
                return None
        return b
    return b if pat == t else None


def mk_cmp(opn, a, b):
    """Canonical comparison term (opn: an ast comparison operator name)."""
    op, swap, neg = _CMP[opn]
    if swap:
        a, b = b, a
    if op in _SYMM and _key(b) < _key(a):
        a, b = b, a
    t = ("cmp", op, a, b)
    return ("not", t) if neg else t


def is_none(t):
    return mk_cmp("Is", t, ("const", None))


def plain(t):
    """The term without allocation sites and without the versions of
    attribute reads (structure only)."""
    if not isinstance(t, tuple):
        return t
    if t and t[0] == "new":
        return plain(t[2])
    if t and t[0] == "attrv":
        return ("attr", plain(t[1]), t[2])
    if t and t[0] == "callv":
        return ("call",) + tuple(plain(x) for x in t[1:4])
    if t and t[0] == "const":
        return t
    return tuple(plain(x) for x in t)


def _retarget(q):
    """A quantifier over range(a, b) whose condition only looks at x[k] is a
    quantifier over the elements of x[a:b]."""
    kind, it, conds = q
    if it[0] == "call" and it[1] == ("global", "range") and not it[3] and \
            len(it[2]) in (1, 2):
        r = it[2]
        lo, hi = (("const", 0), r[0]) if len(r) == 1 else r
        if lo == ("const", 0):
            lo = ("const", None)
        sl = ("slice", lo, hi, ("const", None))
        cands = set()
        direct = False
        for c, _ in conds:
            for st in subterms(c):
                if st == ("elem", it):
                    direct = True
                if st[0] == "elem" and st[1][0] == "item" and \
                        st[1][2] == sl:
                    cands.add(st[1])
        if len(cands) == 1 and not direct:
            return kind, list(cands)[0], conds
    return q


def unsite(t):
    """The term without allocation sites (structural comparison of values
    that are built, not shared)."""
    if not isinstance(t, tuple):
        return t
    if t and t[0] == "new":
        return unsite(t[2])
    if t and t[0] == "const":
        return t
    return tuple(unsite(x) for x in t)


def norm_cond(t, pol):
    """(term, polarity) with the term never a negation and order comparisons
    always stated positively (not a < b  is  b <= a)."""
    while t[0] == "not":
        t, pol = t[1], not pol
    if t[0] == "cmp" and t[1] in ("Lt", "LtE") and not pol:
        t = ("cmp", "LtE" if t[1] == "Lt" else "Lt", t[3], t[2])
        pol = True
    return t, pol


def split_cond(t, pol):
    """The atomic facts implied by condition ``t`` having truth value
    ``pol``: conjunctions that hold / disjunctions that fail are split."""
    while t[0] == "not":
        t, pol = t[1], not pol
    if (t[0] == "and" and pol) or (t[0] == "or" and not pol):
        out = []
        for x in t[1:]:
            out.extend(split_cond(x, pol))
        return out
    return [norm_cond(t, pol)]


def split_cases(t, pol, limit=8):
    """The ways condition ``t`` can have truth value ``pol``, as a list of
    conjunctions of atomic facts (disjunctive normal form): ``not (a and
    b)`` holds when a fails or when b fails - two cases; a conjunction that
    holds is one case with all its parts.  None when there would be more
    than ``limit`` cases."""
    while t[0] == "not":
        t, pol = t[1], not pol
    if (t[0] == "and" and pol) or (t[0] == "or" and not pol):
        cases = [[]]
        for x in t[1:]:
            sub = split_cases(x, pol, limit)
            if sub is None:
                return None
            cases = [a + b for a in cases for b in sub]
            if len(cases) > limit:
                return None
        return cases
    if (t[0] == "or" and pol) or (t[0] == "and" and not pol):
        cases = []
        for x in t[1:]:
            sub = split_cases(x, pol, limit)
            if sub is None:
                return None
            cases += sub
            if len(cases) > limit:
                return None
        return cases
    return [[norm_cond(t, pol)]]


def strip_new(t):
    return t[2] if isinstance(t, tuple) and t and t[0] == "new" else t


def lookup(t):
    """(container, key) when ``t`` reads an entry of a mapping (d[k] or
    d.get(k)), else None."""
    if t[0] == "item" and t[2][0] != "slice":
        return t[1], t[2]
    if t[0] == "get" and len(t) == 3:
        return t[1], t[2]
    return None


def presence(t, pol):
    """(container, key, present?) when the condition (t, pol) tests whether a
    key is in a mapping: ``k in d`` or ``d.get(k) is None``; else None."""
    if t[0] == "cmp" and t[1] == "In":
        return t[3], t[2], pol
    if t[0] == "cmp" and t[1] == "Is" and ("const", None) in (t[2], t[3]):
        g = t[3] if t[2] == ("const", None) else t[2]
        if g[0] == "get" and len(g) == 3:
            return g[1], g[2], not pol
    return None


def reify(t):
    """An ast expression for a term (leaves that have no source form become
    names that spell the term): lets the expression-level engines (constant
    folding, bit provenance, linear forms) work on the value with all
    temporaries resolved."""
    k = t[0]
    if k == "const":
        return ast.Constant(value=t[1])
    if k in ("param", "local"):
        return ast.Name(id=t[1], ctx=ast.Load())
    if k == "global":
        parts = t[1].split(".")
        e = ast.Name(id=parts[0], ctx=ast.Load())
        for p_ in parts[1:]:
            e = ast.Attribute(value=e, attr=p_, ctx=ast.Load())
        return e
    if k in ("attr", "attrv"):
        return ast.Attribute(value=reify(t[1]), attr=t[2], ctx=ast.Load())
    if k == "item":
        return ast.Subscript(value=reify(t[1]), slice=reify(t[2]),
                             ctx=ast.Load())
    if k == "comp":
        return ast.Subscript(value=reify(t[1]),
                             slice=ast.Constant(value=t[2]), ctx=ast.Load())
    if k == "slice":
        f = lambda x: None if x == ("const", None) else reify(x)  # noqa
        return ast.Slice(lower=f(t[1]), upper=f(t[2]), step=f(t[3]))
    if k == "binop":
        return ast.BinOp(left=reify(t[2]), op=getattr(ast, t[1])(),
                         right=reify(t[3]))
    if k == "unop":
        return ast.UnaryOp(op=getattr(ast, t[1])(), operand=reify(t[2]))
    if k == "not":
        return ast.UnaryOp(op=ast.Not(), operand=reify(t[1]))
    if k == "cmp":
        return ast.Compare(left=reify(t[2]), ops=[getattr(ast, t[1])()],
                           comparators=[reify(t[3])])
    if k in ("and", "or"):
        return ast.BoolOp(op=ast.And() if k == "and" else ast.Or(),
                          values=[reify(x) for x in t[1:]])
    if k == "ite":
        return ast.IfExp(test=reify(t[1]), body=reify(t[2]),
                         orelse=reify(t[3]))
    if k == "tuple":
        return ast.Tuple(elts=[reify(x) for x in t[1:]], ctx=ast.Load())
    if k == "new":
        return reify(t[2])
    if k == "list":
        return ast.List(elts=[reify(x) for x in t[1:]], ctx=ast.Load())
    if k in ("call", "callv"):
        return ast.Call(func=reify(t[1]), args=[reify(x) for x in t[2]],
                        keywords=[ast.keyword(arg=a, value=reify(b))
                                  for a, b in t[3]])
    if k == "get":
        return ast.Call(func=ast.Attribute(value=reify(t[1]), attr="get",
                                           ctx=ast.Load()),
                        args=[reify(x) for x in t[2:]], keywords=[])
    return ast.Name(id="<%s>" % show(t), ctx=ast.Load())


def bit_test(t):
    """(word, index) when the condition term tests one bit of a word:
    ``(w >> i) & 1`` or ``w & (1 << i)`` (optionally compared with 0/1)."""
    if t[0] == "cmp" and t[1] == "Eq":
        for a, b in ((t[2], t[3]), (t[3], t[2])):
            if b == ("const", 1):
                return bit_test(a)
    if t[0] == "binop" and t[1] == "BitAnd":
        for a, b in ((t[2], t[3]), (t[3], t[2])):
            if b == ("const", 1) and a[0] == "binop" and a[1] == "RShift":
                return a[2], a[3]
            if b[0] == "binop" and b[1] == "LShift" and b[2] == ("const", 1):
                return a, b[3]
    return None


def subterms(t):
    if isinstance(t, tuple) and t and isinstance(t[0], str):
        yield t
    if isinstance(t, tuple):
        for x in t:
            if isinstance(x, tuple):
                for s in subterms(x):
                    yield s


def alternatives(t, _seen=None):
    """The possible values of a term: the definitions merged in a mu (expanded
    recursively; ("rec",) where a value depends on itself), the members of a
    phi, the branches of an ite; else the term itself."""
    seen = _seen or frozenset()
    if t[0] == "mu":
        mu = t[1]
        if mu in seen:
            return [("rec",)]
        out = []
        for i in mu.ids:
            for x in alternatives(mu.T._bind_term(mu.T.binds[i]),
                                  seen | {mu}):
                if x not in out:
                    out.append(x)
        return out
    if t[0] == "phi":
        out = []
        for x in t[1:]:
            for y in alternatives(x, seen):
                if y not in out:
                    out.append(y)
        return out
    if t[0] == "ite":
        out = alternatives(t[2], seen)
        for y in alternatives(t[3], seen):
            if y not in out:
                out.append(y)
        return out
    return [t]


def chunked(rec, DATA, size, const):
    """Does ``rec`` denote the consecutive ``size``-byte pieces of ``DATA``,
    in order?  Two spellings: (a) the head ``x[:size]`` of a remainder that
    starts as DATA and is replaced by its tail ``x[size:]``; (b)
    ``DATA[s:s + size]`` for s over ``range(0, len(DATA), size)``.
    ``const(term)`` folds a term to an int (or None)."""
    if rec[0] != "item" or rec[2][0] != "slice":
        return False
    base, (_, lo, hi, st) = rec[1], rec[2]
    if st != ("const", None):
        return False
    none = ("const", None)
    if lo == none and const(hi) == size:
        alts = one_level(base)
        rest = [x for x in alts if x != DATA]
        if DATA not in alts or len(rest) != 1:
            return False
        r = rest[0]
        # the tail x[size:], or x[len(x[:size]):] (the same bytes: when the
        # head is short, both tails are empty)
        head_len = ("call", ("global", "len"),
                    (("item", base, ("slice", lo, hi, st)),), ())
        return r[0] == "item" and r[2][0] == "slice" and (
            const(r[2][1]) == size or plain(r[2][1]) == plain(head_len)) \
            and r[2][2] == none and r[2][3] == none and r[1] == base
    if base == DATA and lo[0] == "elem":
        m = match(("call", ("global", "range"), (V("a"), V("b"), V("c")), ()),
                  lo[1])
        if m is None:
            return False
        if hi[0] != "binop" or hi[1] != "Add" or lo not in (hi[2], hi[3]):
            return False
        step = hi[3] if hi[2] == lo else hi[2]
        return const(m["a"]) == 0 and const(m["c"]) == size and \
            const(step) == size and \
            plain(m["b"]) == ("call", ("global", "len"), (plain(DATA),), ())
    return False


def chunk_index(t, size, const):
    """The iterable of chunk start offsets when ``t`` is the running number
    of the chunk in spelling (b) of chunked(): ("index", range(0, n, size))."""
    if t[0] == "index":
        it = t[1]
        # the position in a list of chunks made by a comprehension over the
        # start offsets is the position in those offsets
        if it[0] == "new":
            it = it[2]
        if it[0] in ("listcomp", "genexp") and len(it[2]) == 1 and \
                not it[2][0][1]:
            it = it[2][0][0]
        m = match(("call", ("global", "range"), (V("a"), V("b"), V("c")), ()),
                  it)
        if m is not None and const(m["a"]) == 0 and const(m["c"]) == size:
            return m["b"]
    return None


def chunk_offsets(t):
    """The iterable of start offsets behind the running chunk number ``t``
    (see chunk_index)."""
    it = t[1]
    if it[0] == "new":
        it = it[2]
    if it[0] in ("listcomp", "genexp") and len(it[2]) == 1 and \
            not it[2][0][1]:
        it = it[2][0][0]
    return it


def concat_parts(T, t):
    """The element term when ``t`` is the in-order concatenation of one
    element per loop iteration: an accumulator that starts empty and has the
    element appended with ``+``, or ``sep.join(<list or comprehension>)``
    with an empty separator (the list being a comprehension or filled by
    appends in a loop).  Else None."""
    if t[0] == "mu":
        alts = one_level(t)
        empty = [x for x in alts if x[0] == "const" and x[1] in (b"", "")]
        grow = [x for x in alts if x[0] == "binop" and x[1] == "Add" and
                x[2] == t]
        if len(empty) == 1 and len(grow) == 1 and len(alts) == 2:
            return grow[0][3]
        return None
    if t[0] in ("call", "callv") and t[1][0] == "attr" and \
            t[1][2] == "join" and t[1][1][0] == "const" and \
            t[1][1][1] in (b"", "") and len(t[2]) == 1:
        built = T.filtered(t[2][0])
        if built and len(built) == 1 and not built[0][2]:
            return built[0][1]
    return None


def one_level(t):
    """The immediate alternatives of a merge (not flattened further)."""
    if t[0] == "mu":
        mu = t[1]
        return [mu.T._bind_term(mu.T.binds[i]) for i in mu.ids]
    if t[0] == "phi":
        return list(t[1:])
    if t[0] == "ite":
        return [t[2], t[3]]
    return [t]


def expand(t, depth=3):
    """The term with its merges written out as ("phi", ...) of their
    alternatives, ``depth`` levels deep (for structural inspection)."""
    if not isinstance(t, tuple) or not t or t[0] == "const":
        return t
    if t[0] == "mu":
        if depth == 0:
            return ("rec",)
        alts = [expand(x, depth - 1) for x in alternatives(t)]
        return alts[0] if len(alts) == 1 else ("phi",) + tuple(alts)
    return tuple(expand(x, depth) if isinstance(x, tuple) else x for x in t)


def show(t):
    k = t[0] if isinstance(t, tuple) and t else None
    if k == "param" or k == "global" or k == "local":
        return t[1]
    if k == "const":
        return repr(t[1])
    if k in ("attr", "attrv"):
        return "%s.%s" % (show(t[1]), t[2])
    if k == "item":
        return "%s[%s]" % (show(t[1]), show(t[2]))
    if k == "get":
        return "%s.get(%s)" % (show(t[1]), ", ".join(show(x) for x in t[2:]))
    if k == "elem":
        return "<each of %s>" % show(t[1])
    if k == "comp":
        return "%s#%d" % (show(t[1]), t[2])
    if k in ("items", "values", "keys"):
        return "%s.%s()" % (show(t[1]), k)
    if k in ("call", "callv"):
        return "%s(%s)" % (show(t[1]), ", ".join(
            [show(x) for x in t[2]] + ["%s=%s" % (a, show(b))
                                       for a, b in t[3]]))
    if k == "new":
        return show(t[2])
    if k in ("tuple", "list", "set", "and", "or"):
        return "%s(%s)" % (k, ", ".join(show(x) for x in t[1:]))
    if k == "binop":
        return "(%s %s %s)" % (show(t[2]), t[1], show(t[3]))
    if k == "cmp":
        return "(%s %s %s)" % (show(t[2]), t[1], show(t[3]))
    if k == "not":
        return "not %s" % show(t[1])
    if k == "ite":
        return "(%s if %s else %s)" % (show(t[2]), show(t[1]), show(t[3]))
    if k == "phi":
        return "one of {%s}" % ", ".join(sorted(show(x) for x in t[1:]))
    if k == "mu":
        return "%s (merged)" % t[1].var
    if k == "slice":
        return "%s:%s:%s" % tuple(show(x) for x in t[1:])
    return repr(t)


def unit_propagate(facts):
    """A false conjunction all but one of whose members are known to hold
    makes the remaining member false (dually for a true disjunction); the
    derived facts are added."""
    facts = list(facts)
    for _ in range(4):
        new = []
        for t, p in facts:
            kind = "and" if (t[0] == "and" and not p) else \
                "or" if (t[0] == "or" and p) else None
            if kind is None:
                continue
            rest = []
            for m in t[1:]:
                mt, mp = norm_cond(m, True)
                # a member already decided the other way drops out
                settled = (mt, mp) in facts if kind == "and" else \
                    (mt, not mp) in facts
                if not settled:
                    rest.append((mt, mp))
            if len(rest) == 1:
                mt, mp = rest[0]
                f = (mt, not mp) if kind == "and" else (mt, mp)
                for x in split_cond(*f):
                    if x not in facts and x not in new:
                        new.append(x)
        if not new:
            break
        facts += new
    return facts


def layers(T, d):
    """How the dictionary ``d`` (a ("new", site, ...) term created in T.fn) is
    built up, as an ordered overlay: [(layer, node)] with layer one of

      ("all", M)        every entry of mapping M is written (later wins)
      ("present", M)    entries of M whose key is already in the dictionary
      ("set", k, v)     one entry
      ("foreach", it, layer)   the layer, once per element of ``it`` in order

    M is a mapping term or ("zip", K, V).  The spellings recognised are the
    constructor (dict(M), dict(zip(K, V)), {}), d.update(M), and loops that
    store d[k] = v for the entries of M (for k, v in M.items(), optionally
    guarded by ``k in d``; for k in d guarded by ``k in M``; for k, v in
    zip(K, V)).  Anything else that writes ``d`` raises AnalysisError."""
    if d[0] != "new":
        raise AnalysisError("layers: not a dictionary created here")
    site = SITES.get(d[1])
    cfg = T.cfg
    cnode = cfg.node_containing(site)

    def src(x):
        if x[0] == "items":
            return x[1]
        # the pairs listed first: list(zip(a, b)) / tuple(zip(a, b))
        px = x[2] if x[0] == "new" else x
        if px[0] == "call" and px[1] in (("global", "list"),
                                         ("global", "tuple")) and \
                len(px[2]) == 1 and not px[3] and px[2][0][0] == "call" and \
                px[2][0][1] == ("global", "zip"):
            x = px[2][0]
        if x[0] == "call" and x[1] == ("global", "zip") and len(x[2]) == 2 \
                and not x[3]:
            return ("zip",) + tuple(x[2])
        return x

    def loops_of(node_ast):
        out = []
        n = getattr(node_ast, "_parent", None)
        while n is not None and n is not T.fn:
            if isinstance(n, (ast.For, ast.While)):
                out.append(n)
            n = getattr(n, "_parent", None)
        return out
    base_loops = loops_of(site)
    events = []
    inner = d[2]
    if inner == ("dict", ()) or (
            inner[0] == "call" and inner[1] == ("global", "dict") and
            not inner[2] and not inner[3]):
        pass
    elif inner[0] == "call" and inner[1] == ("global", "dict") and \
            len(inner[2]) == 1 and not inner[3] and \
            inner[2][0][0] == "new" and inner[2][0] != d and \
            strip_new(inner[2][0])[0] in ("dict", "call", "dictcomp"):
        # a copy of a dictionary built up in this function: its layers, all
        # of which must have been written before the copy is taken
        sub = layers(T, inner[2][0])
        if any(not (cfg.dominates(n_, cnode) or (
                cfg.reaches(n_, cnode) and not cfg.reaches(cnode, n_)))
               for l_, n_ in sub):
            raise AnalysisError("layers: the dictionary copied is written "
                                "after the copy is taken")
        events.extend(sub)
    elif inner[0] == "call" and inner[1] == ("global", "dict") and \
            len(inner[2]) == 1 and not inner[3]:
        events.append((("all", src(inner[2][0])), cnode))
    elif inner[0] == "dictcomp" and len(inner[2]) == 1 and \
            not inner[2][0][1]:
        it = inner[2][0][0]
        E = ("elem", it)
        if inner[1] == ("pair", ("comp", E, 0), ("comp", E, 1)):
            events.append((("all", src(it)), cnode))
        else:
            raise AnalysisError("layers: dictionary comprehension")
    elif inner[0] == "dictmerge":
        for part in inner[1]:
            if part[0] == "all":
                pm = part[1]
                # a copy made on the spot inside the display ({**dict(m)})
                pi = strip_new(pm)
                if pm[0] == "new" and pi[0] == "call" and \
                        pi[1] == ("global", "dict") and len(pi[2]) == 1 \
                        and not pi[3]:
                    pm = pi[2][0]
                events.append((("all", src(pm)), cnode))
            else:
                events.append((part, cnode))
    else:
        raise AnalysisError("layers: constructor %s" % show(inner)[:60])

    def wrap(layer, node_ast, own_loop):
        for lp in loops_of(node_ast):
            if lp is own_loop or lp in base_loops:
                continue
            if not isinstance(lp, ast.For):
                raise AnalysisError("layers: written in a while loop")
            layer = ("foreach", T.term(lp.iter, cfg.loop_head[id(lp)]),
                     layer)
        return layer
    for c in ast.walk(T.fn):
        if isinstance(c, ast.Call) and isinstance(c.func, ast.Attribute) \
                and _owner(c, T.fn):
            try:
                n = cfg.node_containing(c)
                recv = T.term(c.func.value, n)
            except AnalysisError:
                continue
            if recv != d:
                continue
            if c.func.attr == "update" and len(c.args) == 1 and \
                    not c.keywords:
                at = T.term(c.args[0], n)
                ai = at[2] if at[0] == "new" else at
                layer = None
                # d.update({k: v for k, v in M.items() if k in d}): the
                # entries of M whose key is already present
                if ai[0] == "dictcomp" and len(ai[2]) == 1:
                    it_, conds_ = ai[2][0]
                    E_ = ("elem", it_)
                    if it_[0] == "items" and plain(ai[1]) == (
                            "pair", ("comp", plain(E_), 0),
                            ("comp", plain(E_), 1)):
                        cs_ = [split_cond(c_, True) for c_ in conds_]
                        cs_ = [x for y in cs_ for x in y]
                        if not cs_:
                            layer = ("all", src(it_))
                        elif [(plain(t_), p_) for t_, p_ in cs_] == [
                                (("cmp", "In", ("comp", plain(E_), 0),
                                  plain(d)), True)]:
                            layer = ("present", src(it_))
                if layer is None:
                    layer = ("all", src(at))
                events.append((wrap(layer, c, None), n))
            elif c.func.attr in ("get", "items", "keys", "values", "copy",
                                 "iteritems", "iterkeys", "itervalues",
                                 "__contains__", "__getitem__"):
                continue
            else:
                raise AnalysisError("layers: %s() on the dictionary" %
                                    c.func.attr)
    for n in cfg.nodes:
        if n.kind == "stmt" and isinstance(n.ast, ast.Delete):
            for tg in n.ast.targets:
                if isinstance(tg, ast.Subscript) and \
                        T.term(tg.value, n) == d:
                    raise AnalysisError("layers: entries are deleted")
    for n, st, base, key, val in stores(T):
        if base != d:
            continue
        if isinstance(st, ast.AugAssign):
            raise AnalysisError("layers: entries updated in place")
        lps = [lp for lp in loops_of(st) if lp not in base_loops]
        if not lps:
            events.append((("set", key, val), n))
            continue
        lp = lps[0]
        if not isinstance(lp, ast.For):
            raise AnalysisError("layers: written in a while loop")
        head = cfg.loop_head[id(lp)]
        it = T.term(lp.iter, head)
        E = T._tag(lp.iter, ("elem", it))
        pre = cfg.stmt_node[id(lp)]
        before = T.all_facts(pre)
        guard = [f for f in T.all_facts(n) if f not in before]
        layer = None
        s_ = src(it)
        if key == ("comp", E, 0) and val == ("comp", E, 1) and \
                (it[0] == "items" or s_[0] == "zip"):
            if not guard:
                layer = ("all", s_)
            elif guard == [(("cmp", "In", key, d), True)]:
                layer = ("present", s_)
            elif any(st_ in (("item", d, key), ("get", d, key))
                     for g_, p_ in guard for st_ in subterms(g_)):
                # written depending on the value the dictionary holds for
                # that key at the moment (e.g. only while it is still some
                # default): neither "all" nor "present"
                layer = ("if-current-value", s_,
                         tuple((plain(g_), p_) for g_, p_ in guard))
        elif s_[0] == "zip" and key[:2] == ("elem", s_[1]) and \
                val[:2] == ("elem", s_[2]) and not guard:
            layer = ("all", s_)
        elif key == E and it in (d, ("keys", d)) and len(guard) == 1:
            (g, pol), = guard
            lk = lookup(val)
            if pol and g[0] == "cmp" and g[1] == "In" and g[2] == E and \
                    lk is not None and lk == (g[3], E):
                layer = ("present", g[3])
        elif key == ("comp", E, 0) and it == ("items", d) and \
                len(guard) == 1:
            (g, pol), = guard
            lk = lookup(val)
            if pol and g[0] == "cmp" and g[1] == "In" and g[2] == key and \
                    lk is not None and lk == (g[3], key):
                layer = ("present", g[3])
        if layer is None:
            raise AnalysisError("layers: store at line %d not understood" %
                                st.lineno)
        events.append((wrap(layer, st, lp), n))
    # a total order by dominance
    import functools

    def before(a, b):
        return a is not b and (cfg.dominates(a, b) or (
            cfg.reaches(a, b) and not cfg.reaches(b, a)))
    events.sort(key=functools.cmp_to_key(
        lambda x, y: -1 if before(x[1], y[1]) else
        (1 if before(y[1], x[1]) else 0)))
    for (l1, a), (l2, b) in zip(events, events[1:]):
        if a is b:
            raise AnalysisError("layers: two writes in one statement")
        fwd = cfg.dominates(a, b) or (cfg.reaches(a, b) and
                                      not cfg.reaches(b, a))
        if not fwd:
            raise AnalysisError("layers: writes are not totally ordered")
    return events


def _struct_consts(fn):
    """{name: format} of the module-level ``name = struct.Struct(<constant
    format>)`` assignments of the module ``fn`` lives in."""
    m = getattr(fn, "_module", None)
    n = fn
    while m is None and n is not None:
        n = getattr(n, "_parent", None)
        m = getattr(n, "_module", None)
    if m is None:
        return {}
    cache = getattr(m, "_struct_consts", None)
    if cache is None:
        cache = {}
        for st in m.tree.body:
            if isinstance(st, ast.Assign) and len(st.targets) == 1 and \
                    isinstance(st.targets[0], ast.Name) and \
                    isinstance(st.value, ast.Call) and \
                    unparse(st.value.func) in ("struct.Struct", "Struct") \
                    and len(st.value.args) == 1 and \
                    isinstance(st.value.args[0], ast.Constant) and \
                    isinstance(st.value.args[0].value, (str, bytes)):
                v = st.value.args[0].value
                cache[st.targets[0].id] = v if isinstance(v, str) else \
                    v.decode("ascii")
        # a name assigned twice is not a constant
        seen = {}
        for st in m.tree.body:
            if isinstance(st, ast.Assign):
                for t in st.targets:
                    if isinstance(t, ast.Name):
                        seen[t.id] = seen.get(t.id, 0) + 1
        cache = {k: v for k, v in cache.items() if seen.get(k) == 1}
        m._struct_consts = cache
    return cache


def as_lambda(T, t):
    """A nested single-expression function used as a value, as the lambda it
    is equivalent to (("lambda", n, body)); other terms unchanged."""
    if t[0] != "local" or t[1] not in T._nested:
        return t
    fn = T._nested[t[1]]
    body = [s for s in fn.body if not (
        isinstance(s, ast.Expr) and isinstance(s.value, ast.Constant))]
    a = fn.args
    if len(body) != 1 or not isinstance(body[0], ast.Return) or \
            body[0].value is None or a.vararg or a.kwarg or a.kwonlyargs or \
            a.defaults:
        return t
    names = [x.arg for x in a.posonlyargs + a.args]
    inner = Terms(fn, outer=(T, T.cfg.exit))
    bt = inner.term(body[0].value, inner.cfg.node_of(body[0]))
    sub = dict((nm, ("lparam", i)) for i, nm in enumerate(names))
    return ("lambda", len(names), subst_params(expand(bt, 3), sub))


def all_views(T):
    """T and one view per call site of every nested helper (to any depth):
    the places where statements of this function's computation live."""
    out = [T]
    for name, fn in sorted(T._nested.items()):
        try:
            out.extend(T.inners(fn))
        except AnalysisError:
            continue
    return out


def all_stores(T):
    """stores() of the function and of its nested helpers (terms expressed in
    the function's own terms): [(view, node, statement, base, key, value)]."""
    out = []
    for v in all_views(T):
        if v is T:
            out.extend((T,) + x for x in stores(T))
        else:
            for n, st, base, key, val in stores(v.t):
                out.append((v, n, st, v._x(base), v._x(key), v._x(val)))
    return out


def all_method_calls(T, names):
    """method_calls() of the function and of its nested helpers:
    [(view, node, call, receiver term, [argument terms])]."""
    out = []
    for v in all_views(T):
        if v is T:
            out.extend((T,) + x for x in method_calls(T, names))
        else:
            for n, c, recv, args in method_calls(v.t, names):
                out.append((v, n, c, v._x(recv), [v._x(a) for a in args]))
    return out


def facts_at(view, node):
    """Facts holding at ``node`` of a view from all_views: the view's own and,
    for a nested helper, those holding where it is called."""
    if isinstance(view, _Inner):
        return view.full_facts(node)
    return view.all_facts(node)


def decide_ites(t, facts):
    """``t`` with every conditional expression whose condition is settled by
    ``facts`` ([(term, polarity)]) replaced by the branch taken, and empty
    byte strings dropped from concatenations (helpers inlined after the
    hypotheses were applied leave such conditionals behind)."""
    if not isinstance(t, tuple) or not t:
        return t
    if t[0] == "const":
        return t
    if t[0] == "ite":
        c, pol = norm_cond(t[1], True)
        if (c, pol) in facts:
            return decide_ites(t[2], facts)
        if (c, not pol) in facts:
            return decide_ites(t[3], facts)
    out = tuple(decide_ites(x, facts) if isinstance(x, tuple) else x
                for x in t)
    if out[0] == "binop" and out[1] == "Add":
        if out[2] == ("const", b""):
            return out[3]
        if out[3] == ("const", b""):
            return out[2]
    return out


def eval_closed(t):
    """The Python value of a closed arithmetic / boolean / tuple term (no
    parameter, call result or merge left in it); AnalysisError otherwise."""
    import operator as op_
    BIN = {"Add": op_.add, "Sub": op_.sub, "Mult": op_.mul,
           "FloorDiv": op_.floordiv, "Mod": op_.mod, "LShift": op_.lshift,
           "RShift": op_.rshift, "BitAnd": op_.and_, "BitOr": op_.or_,
           "BitXor": op_.xor, "Pow": op_.pow, "Div": op_.truediv}
    CMP = {"Lt": op_.lt, "LtE": op_.le, "Gt": op_.gt, "GtE": op_.ge,
           "Eq": op_.eq, "NotEq": op_.ne, "Is": op_.is_,
           "IsNot": op_.is_not,
           "In": lambda a, b: a in b, "NotIn": lambda a, b: a not in b}
    FN = {"int": int, "min": min, "max": max, "abs": abs, "bool": bool,
          "len": len, "divmod": divmod, "float": float, "round": round}
    if not isinstance(t, tuple) or not t:
        raise AnalysisError("not a term")
    k = t[0]
    if k == "const":
        return t[1]
    if k == "tuple":
        return tuple(eval_closed(x) for x in t[1:])
    try:
        if k == "binop" and t[1] in BIN:
            a, b = eval_closed(t[2]), eval_closed(t[3])
            if t[1] in ("LShift", "Pow") and isinstance(b, int) and \
                    abs(b) > 4096:
                raise AnalysisError("operand too large to fold")
            return BIN[t[1]](a, b)
        if k == "unop":
            a = eval_closed(t[2])
            return {"USub": op_.neg, "UAdd": op_.pos, "Invert": op_.invert,
                    "Not": op_.not_}[t[1]](a)
        if k == "cmp" and t[1] in CMP:
            return CMP[t[1]](eval_closed(t[2]), eval_closed(t[3]))
        if k == "not":
            return not eval_closed(t[1])
        if k == "and":
            v = True
            for x in t[1:]:
                v = eval_closed(x)
                if not v:
                    return v
            return v
        if k == "or":
            v = False
            for x in t[1:]:
                v = eval_closed(x)
                if v:
                    return v
            return v
        if k == "ite":
            return eval_closed(t[2]) if eval_closed(t[1]) else \
                eval_closed(t[3])
        if k == "call" and t[1][0] == "global" and t[1][1] in FN and \
                not t[3]:
            return FN[t[1][1]](*[eval_closed(x) for x in t[2]])
        if k == "comp":
            return eval_closed(t[1])[t[2]]
        if k == "item":
            return eval_closed(t[1])[eval_closed(t[2])]
    except AnalysisError:
        raise
    except Exception as e:
        raise AnalysisError("folding failed: %s" % e)
    raise AnalysisError("not a closed foldable term: %s" % (k,))


def fold_consts(t, evaluate):
    """``t`` with every closed sub-term (no parameter, loop element, merged
    or call-site dependent part) that ``evaluate(ast expression)`` can turn
    into an int / str / bytes / bool replaced by that constant.  ``evaluate``
    may raise AnalysisError for what it cannot fold."""
    if not isinstance(t, tuple) or not t or t[0] == "const":
        return t
    out = tuple(fold_consts(x, evaluate) if isinstance(x, tuple) else x
                for x in t)
    if out[0] in ("param", "elem", "index", "mu", "phi", "rec", "opaque",
                  "new", "callv", "attrv", "lparam", "local"):
        return out
    if any(st[0] in ("param", "elem", "index", "mu", "phi", "rec", "opaque",
                     "new", "callv", "attrv", "lparam", "local")
           for st in subterms(out)):
        return out
    if out[0] not in ("binop", "unop", "call", "attr", "global", "item"):
        return out
    try:
        e = reify(out)
        for n in ast.walk(e):
            for c in ast.iter_child_nodes(n):
                c._parent = n
        ast.fix_missing_locations(e)
        v = evaluate(e)
    except Exception:
        return out
    if isinstance(v, (int, str, bytes)) or v is None:
        return ("const", v)
    return out
