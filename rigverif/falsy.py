"""FALSY: a default filled in by a truth test replaces more than None.

``self.tag = tag or 0xff`` (or ``tag if tag else 0xff``, or ``if not tag:
tag = 0xff``) is meant as "use the default when the caller gave none", but
the truth test also replaces every *falsy value the caller did give*: the
integer 0, an empty list that the caller goes on to fill, 0.0 seconds.  The
presence test ``default if tag is None else tag`` does not.

The engine lists, in the functions of the given modules, the value-position
truth tests on a parameter that select between the parameter itself and a
default, and reports a site only when there is evidence that a falsy value
other than None belongs to the parameter's domain:

  call      some call of the function in the package passes a falsy constant
            (0, 0.0, "", b"", (), [], {}) for that parameter;
  identity  the default is a fresh mutable container and the result is kept
            (stored in an attribute or returned): an empty container handed in
            by the caller is silently exchanged for a private one, so what
            either side adds later is not seen by the other;
  domain    the calling rule states the domain (a packet header field is an
            unsigned integer: 0 is one of its values).

Sites without such evidence are counted and left alone (for a parameter
that is only ever None or truthy the two spellings are the same function).
The sites the reference tree has itself are listed in ``REFERENCE_OK`` with
the reason each is harmless; they are matched by function and parameter.
"""
import ast

from .core import AnalysisError
from .dataflow import call_name
from .util import formals, bind

# (module:qualname, parameter) -> why the truth test is harmless there
REFERENCE_OK = {
    ("rig.bitfield:BitField.add_field", "length"):
        "a field length is None or >= 1 (0 is refused a few lines above); "
        "the test only sizes the range and overlap checks",
    ("rig.bitfield:BitField._Field.__init__", "tags"):
        "add_field, the only caller, always hands over a set it has just "
        "built: nobody else holds it",
    ("rig.bitfield:BitField._Tree.__init__", "fields"):
        "only ever called without arguments",
    ("rig.bitfield:BitField._Tree.__init__", "children"):
        "only ever called without arguments",
}

_CONTAINERS = ("list", "dict", "set", "OrderedDict", "defaultdict", "deque",
               "bytearray")


def _falsy_const(e):
    if isinstance(e, ast.Constant):
        v = e.value
        return v is not None and v is not False and not v and \
            not isinstance(v, bool)
    if isinstance(e, (ast.List, ast.Tuple, ast.Set)):
        return not e.elts
    if isinstance(e, ast.Dict):
        return not e.keys
    return False


def _default_kind(e):
    """'truthy' (a constant that is true, a function or class name),
    'container' (a fresh mutable container), 'falsy' (a falsy constant:
    replacing a falsy value by it loses nothing but its type) or 'other'."""
    if isinstance(e, ast.Constant):
        if e.value is None or e.value is False:
            return "falsy"
        return "truthy" if e.value else "falsy"
    if isinstance(e, (ast.List, ast.Dict, ast.Set)):
        return "container"
    if isinstance(e, ast.Tuple):
        return "truthy" if e.elts else "falsy"
    if isinstance(e, ast.Call) and not e.args and not e.keywords and \
            call_name(e)[0] in _CONTAINERS:
        return "container"
    if isinstance(e, ast.Lambda):
        return "truthy"
    return "other"


def _same(a, b):
    return ast.dump(a) == ast.dump(b)


def _value_position(n):
    p = getattr(n, "_parent", None)
    if isinstance(p, (ast.If, ast.While, ast.Assert, ast.IfExp)) and \
            p.test is n:
        return False
    if isinstance(p, (ast.BoolOp, ast.comprehension)):
        return False
    if isinstance(p, ast.UnaryOp) and isinstance(p.op, ast.Not):
        return False
    return True


def _own(fn):
    """Nodes of fn's own body (nested functions and classes excluded)."""
    todo = list(fn.body)
    while todo:
        n = todo.pop()
        yield n
        for c in ast.iter_child_nodes(n):
            if isinstance(c, (ast.FunctionDef, ast.AsyncFunctionDef,
                              ast.ClassDef, ast.Lambda)):
                continue
            todo.append(c)


def candidates(fn):
    """[(node, parameter name, default expression)] - the truth tests on a
    parameter of ``fn`` that choose between it and a default."""
    ps = set(formals(fn))
    if fn.args.vararg:
        ps.discard(fn.args.vararg.arg)
    if fn.args.kwarg:
        ps.discard(fn.args.kwarg.arg)
    out = []
    for n in _own(fn):
        if isinstance(n, ast.BoolOp) and isinstance(n.op, ast.Or) and \
                len(n.values) == 2 and isinstance(n.values[0], ast.Name) and \
                n.values[0].id in ps and _value_position(n):
            out.append((n, n.values[0].id, n.values[1]))
        elif isinstance(n, ast.IfExp):
            t = n.test
            if isinstance(t, ast.Name) and t.id in ps and \
                    _same(n.body, t):
                out.append((n, t.id, n.orelse))
            elif isinstance(t, ast.UnaryOp) and isinstance(t.op, ast.Not) \
                    and isinstance(t.operand, ast.Name) and \
                    t.operand.id in ps and _same(n.orelse, t.operand):
                out.append((n, t.operand.id, n.body))
        elif isinstance(n, ast.If) and not n.orelse and len(n.body) == 1 and \
                isinstance(n.body[0], ast.Assign) and \
                len(n.body[0].targets) == 1 and \
                isinstance(n.body[0].targets[0], ast.Name) and \
                isinstance(n.test, ast.UnaryOp) and \
                isinstance(n.test.op, ast.Not) and \
                isinstance(n.test.operand, ast.Name) and \
                n.test.operand.id in ps and \
                n.body[0].targets[0].id == n.test.operand.id:
            out.append((n, n.test.operand.id, n.body[0].value))
        elif isinstance(n, ast.If) and not n.orelse and len(n.body) == 1 and \
                isinstance(n.body[0], ast.Return) and \
                n.body[0].value is not None and \
                isinstance(n.test, ast.UnaryOp) and \
                isinstance(n.test.op, ast.Not) and \
                isinstance(n.test.operand, ast.Name) and \
                n.test.operand.id in ps and not any(
                    isinstance(x, ast.Name) and x.id == n.test.operand.id
                    for x in ast.walk(n.body[0].value)):
            # if not p: return D   (the default is the result)
            out.append((n, n.test.operand.id, n.body[0].value))
    # the parameter must still hold the caller's value at the test
    kept = []
    for n, p, d in out:
        first = min((getattr(x, "lineno", 10 ** 9), getattr(
            x, "col_offset", 0)) for x in _own(fn)
            if isinstance(x, ast.Name) and x.id == p and
            isinstance(x.ctx, ast.Store)) if any(
                isinstance(x, ast.Name) and x.id == p and
                isinstance(x.ctx, ast.Store) for x in _own(fn)) else None
        here = (n.lineno, n.col_offset)
        if first is not None and first < here and not (
                isinstance(n, ast.If)):
            # rebound before the test: only the rebinding by this very
            # statement (p = p or d) is allowed
            par = getattr(n, "_parent", None)
            if not (isinstance(par, ast.Assign) and first == (
                    par.targets[0].lineno, par.targets[0].col_offset)):
                continue
        kept.append((n, p, d))
    return kept


def _kept(n):
    """Is the value selected at ``n`` stored in an attribute / item, or
    returned (directly or through the local it is assigned to)?"""
    p = getattr(n, "_parent", None)
    if isinstance(n, ast.If):
        return True         # the parameter itself is rebound: assume kept
    if isinstance(p, ast.Return):
        return True
    if isinstance(p, ast.Assign):
        if any(isinstance(t, (ast.Attribute, ast.Subscript))
               for t in p.targets):
            return True
        names = [t.id for t in p.targets if isinstance(t, ast.Name)]
        fn = p
        while fn is not None and not isinstance(
                fn, (ast.FunctionDef, ast.AsyncFunctionDef)):
            fn = getattr(fn, "_parent", None)
        if fn is None:
            return False
        for x in _own(fn):
            if isinstance(x, ast.Assign) and isinstance(x.value, ast.Name) \
                    and x.value.id in names and any(
                        isinstance(t, (ast.Attribute, ast.Subscript))
                        for t in x.targets):
                return True
            if isinstance(x, ast.Return) and isinstance(x.value, ast.Name) \
                    and x.value.id in names:
                return True
    return False


def _call_evidence(program, mname, q, fn, pname):
    """A call in the package that passes a falsy constant for ``pname``."""
    from .namelink import _resolve
    origin = getattr(fn, "_origin", fn)

    def same(d):
        d0 = getattr(d, "_origin", d)
        if d0 is origin or d is fn:
            return True
        return getattr(d0, "_qualname", None) is not None and \
            getattr(d0, "_qualname", None) == getattr(origin, "_qualname",
                                                      "?") and \
            getattr(getattr(d0, "_module", None), "name", None) == getattr(
                getattr(origin, "_module", None), "name", "?")
    from .core import _pristine
    for m2name in sorted(program.modules):
        # (a fresh parse: the working trees have calls of new helpers
        # rewritten by the rules that fetched their callers)
        m2 = _pristine(program, m2name)
        for c in ast.walk(m2.tree):
            if not isinstance(c, ast.Call):
                continue
            try:
                d = _resolve(program, m2, c)
            except Exception:
                d = None
            if d is not None and d.args.kwarg is not None and \
                    not same(d):
                # through a function that hands its **kwargs on to this one
                # (self._send_scp(..., expected_args=0) -> conn.send_scp(
                # ..., **kwargs))
                kw = d.args.kwarg.arg
                a = [k.value for k in c.keywords if k.arg == pname]
                if a and _falsy_const(a[0]) and pname not in formals(d) \
                        and any(isinstance(c2, ast.Call) and
                                call_name(c2)[0] == fn.name and any(
                                    k.arg is None and
                                    isinstance(k.value, ast.Name) and
                                    k.value.id == kw for k in c2.keywords)
                                for c2 in ast.walk(d)):
                    return "%s:%d passes %s for it (through %s)" % (
                        m2name, c.lineno, ast.unparse(a[0]), d.name)
            if d is None or not same(d):
                continue
            try:
                b = bind(c, d)
            except Exception:
                continue
            a = b.get(pname)
            if a is not None and _falsy_const(a):
                return "%s:%d passes %s for it" % (m2name, c.lineno,
                                                   ast.unparse(a))
            if isinstance(a, ast.Attribute) and a.attr in ("start", "stop"):
                # a bound of a slice object: 0 is a bound like any other
                # (x[:0], x[5:0] are empty)
                return "%s:%d passes the slice bound %s for it, and 0 is a " \
                    "legal slice bound" % (m2name, c.lineno, ast.unparse(a))
    return None


def check(program, modules, domains=None):
    """-> (findings, n_sites, n_undecided): findings are (module name, node,
    qualified function, parameter, text)."""
    domains = domains or {}
    out, n_sites, n_open = [], 0, 0
    for mname in modules:
        m = program.modules.get(mname)
        if m is None:
            continue
        program.module(mname)
        for q, fn in sorted(m.defs.items()):
            if not isinstance(fn, ast.FunctionDef):
                continue
            # ``sl.stop or D`` / ``D if not sl.start else ..``: a slice bound
            # replaced by a default on a truth test - 0 is a bound like any
            # other (x[:0] is empty, not everything)
            for n in _own(fn):
                if isinstance(n, ast.BoolOp) and isinstance(n.op, ast.Or) \
                        and len(n.values) == 2 and isinstance(
                            n.values[0], ast.Attribute) and \
                        n.values[0].attr in ("start", "stop") and \
                        _value_position(n) and not _falsy_const(n.values[1]):
                    n_sites += 1
                    out.append((mname, n, "%s:%s" % (mname, q),
                                n.values[0].attr,
                                "%s: '%s' takes the default whenever the "
                                "slice bound is falsy - also for the bound "
                                "0, which is a legal bound (x[:0], x[5:0] "
                                "are empty ranges, not open-ended ones)" % (
                                    q, ast.unparse(n)[:60])))
            for n, p, d in candidates(fn):
                n_sites += 1
                key = ("%s:%s" % (mname, q), p)
                if key in REFERENCE_OK:
                    continue
                kind = _default_kind(d)
                if kind == "falsy":
                    continue
                why = None
                if key in domains:
                    why = domains[key]
                elif kind == "container" and _kept(n) and not (
                        isinstance(n, ast.If) and n.body and
                        isinstance(n.body[0], ast.Return)):
                    # (not for ``if not p: return {}``: there the fresh
                    # container is the result, the caller's is not replaced)
                    why = "an empty container handed in by the caller is " \
                        "exchanged for a private one (%s), so what is " \
                        "added to either afterwards is not seen through " \
                        "the other" % ast.unparse(d)
                else:
                    ev = _call_evidence(program, mname, q, fn, p)
                    if ev is not None:
                        why = ev
                if why is None:
                    n_open += 1
                    continue
                out.append((mname, n, "%s:%s" % (mname, q), p,
                            "%s: the default for %s is chosen by a truth "
                            "test (%s), which also replaces falsy values "
                            "the caller supplied - %s" % (
                                q, p, ast.unparse(n).split("\n")[0][:70],
                                why)))
    return out, n_sites, n_open


def identity_flags(fn):
    """[(test node, parameter, other use node, text)]: a parameter tested
    with ``is True`` / ``is False`` (identity with the singleton) that the
    same function also uses by truth value or by equality (as part of a
    dictionary key).  A true value that is not the singleton - 1, a
    numpy.bool_ - is taken one way by one use and the other way by the
    other."""
    ps = set(formals(fn)) - {"self", "cls"}
    tests, others = {}, {}
    for n in _own(fn):
        if isinstance(n, ast.Compare) and len(n.ops) == 1 and \
                isinstance(n.ops[0], (ast.Is, ast.IsNot)) and \
                isinstance(n.left, ast.Name) and n.left.id in ps and \
                isinstance(n.comparators[0], ast.Constant) and \
                isinstance(n.comparators[0].value, bool):
            tests.setdefault(n.left.id, []).append(n)
        elif isinstance(n, ast.Name) and n.id in ps and \
                isinstance(n.ctx, ast.Load):
            par = getattr(n, "_parent", None)
            if isinstance(par, (ast.If, ast.While, ast.IfExp)) and \
                    par.test is n:
                others.setdefault(n.id, []).append((n, "its truth value"))
            elif isinstance(par, ast.UnaryOp) and isinstance(par.op,
                                                             ast.Not):
                others.setdefault(n.id, []).append((n, "its truth value"))
            elif isinstance(par, ast.BoolOp):
                others.setdefault(n.id, []).append((n, "its truth value"))
            elif isinstance(par, ast.Tuple) and isinstance(
                    getattr(par, "_parent", None), ast.Subscript) and \
                    par._parent.slice is par:
                others.setdefault(n.id, []).append(
                    (n, "equality (as part of the key %s)" %
                     ast.unparse(par)))
            elif isinstance(par, ast.Subscript) and par.slice is n:
                others.setdefault(n.id, []).append(
                    (n, "equality (as the key of %s)" % ast.unparse(par)))
    out = []
    for p, ts in sorted(tests.items()):
        if p in others:
            o, how = others[p][0]
            out.append((ts[0], p, o,
                        "%s is tested with '%s' at line %d but used by %s "
                        "at line %d: a true value that is not the True "
                        "singleton (1, a numpy.bool_) counts as true for "
                        "the one and as false for the other" % (
                            p, ast.unparse(ts[0]), ts[0].lineno, how,
                            o.lineno)))
    return out


def rule(program, rep, rule_id, modules, domains=None):
    """Report the FALSY findings of ``modules`` under ``rule_id``."""
    res, n_sites, n_open = check(program, modules, domains)
    for mname, n, inst, p, text in res:
        rep.bad(rule_id, inst, "truth-test default %s" % p, text, n,
                positive=True)
    for mname in modules:
        m = program.modules.get(mname)
        if m is None:
            continue
        for q, fn in sorted(m.defs.items()):
            if isinstance(fn, ast.FunctionDef) and \
                    not getattr(fn, "_virtual", False):
                for t, p, o, text in identity_flags(fn):
                    rep.bad(rule_id, "%s:%s" % (mname, q),
                            "flag %s read two ways" % p, q + ": " + text, t,
                            positive=True)
    rep.ok(rule_id, ",".join(sorted(modules)) or "-",
           "%d truth-test default(s) on parameters examined: none replaces "
           "a falsy value that the parameter is known to take (%d left "
           "undecided for want of evidence about the parameter's domain, %d "
           "are the reference tree's own)" % (
               n_sites, n_open, n_sites - n_open - len(res)))
