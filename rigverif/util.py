"""Small AST query helpers shared by the rules."""
import ast

from .core import AnalysisError, unparse, enclosing_def
from .dataflow import chain, call_name, _walk_no_scopes


def calls_in(root, name=None, recv=None, scopes=False):
    """Call nodes under ``root`` whose callee's last name component is
    ``name`` (and whose receiver chain is ``recv`` when given).  Does not
    descend into nested defs unless scopes=True."""
    walker = ast.walk(root) if scopes else _walk_body(root)
    out = []
    for n in walker:
        if not isinstance(n, ast.Call):
            continue
        nm, rc = call_name(n)
        if name is not None and nm != name and \
                not (isinstance(name, (set, tuple, list, frozenset)) and
                     nm in name):
            continue
        if recv is not None:
            if rc is None or chain(rc) != recv:
                continue
        out.append(n)
    out.sort(key=lambda n: (n.lineno, n.col_offset))
    return out


def _walk_body(root):
    """Walk a def's own body (not nested defs), or any other node."""
    if isinstance(root, (ast.FunctionDef, ast.AsyncFunctionDef)):
        for s in root.body:
            if isinstance(s, (ast.FunctionDef, ast.AsyncFunctionDef,
                              ast.ClassDef)):
                continue
            for n in _walk_no_scopes(s):
                yield n
        return
    for n in _walk_no_scopes(root):
        yield n


def decorator_names(fn):
    out = []
    for d in fn.decorator_list:
        if isinstance(d, ast.Call):
            d = d.func
        out.append(unparse(d))
    return out


def qual(fn):
    return "%s:%s" % (fn._module.name, fn._qualname)


def formals(fn, skip_self=False):
    a = fn.args
    names = [x.arg for x in a.posonlyargs + a.args]
    if skip_self and names and names[0] in ("self", "cls"):
        names = names[1:]
    return names


def bind(call, fn, skip_self=None):
    """Map formal parameter name -> actual expression for a call of ``fn``
    (positional, keyword; *args/**kwargs actuals are reported under
    '*'/'**').  ``skip_self``: drop the first formal (method called through an
    instance); default: True when the def's first parameter is self/cls and
    the call is an attribute call."""
    names = formals(fn)
    if skip_self is None:
        skip_self = bool(names) and names[0] in ("self", "cls") and \
            isinstance(call.func, ast.Attribute)
    if skip_self:
        names = names[1:]
    out = {}
    i = 0
    for a in call.args:
        if isinstance(a, ast.Starred):
            out["*"] = a.value
            # remaining positionals are unknown
            out["*from"] = i
            break
        if i < len(names):
            out[names[i]] = a
        elif fn.args.vararg:
            out.setdefault("*extra", []).append(a)
        i += 1
    for k in call.keywords:
        if k.arg is None:
            out["**"] = k.value
        else:
            out[k.arg] = k.value
    return out


def defaults(fn):
    """formal name -> default expression."""
    a = fn.args
    pos = a.posonlyargs + a.args
    out = {}
    for arg, d in zip(pos[len(pos) - len(a.defaults):], a.defaults):
        out[arg.arg] = d
    for arg, d in zip(a.kwonlyargs, a.kw_defaults):
        if d is not None:
            out[arg.arg] = d
    return out


def returns_of(fn):
    return [n for n in _walk_body(fn) if isinstance(n, ast.Return)]


def raises_of(fn):
    return [n for n in _walk_body(fn) if isinstance(n, ast.Raise)]


def raise_name(r):
    e = r.exc
    if e is None:
        return None
    if isinstance(e, ast.Call):
        e = e.func
    return unparse(e).split(".")[-1]


def assigns_to(fn, var):
    """Assignment statements in fn's own body that define ``var``."""
    out = []
    for n in _walk_body(fn):
        if isinstance(n, ast.Assign):
            for t in n.targets:
                if chain(t) == var:
                    out.append(n)
        elif isinstance(n, ast.AugAssign) and chain(n.target) == var:
            out.append(n)
    return out


def has_fact(facts, text, polarity):
    """Is there a dominating fact whose condition unparses to ``text`` with
    the given truth value?  (``not`` is normalised by the CFG already.)"""
    for cond, pol, _ in facts:
        if unparse(cond) == text and pol == polarity:
            return True
    return False


def parse_expr(text):
    e = ast.parse(text, mode="eval").body
    for n in ast.walk(e):
        for c in ast.iter_child_nodes(n):
            c._parent = n
    e._parent = None
    return e


def class_methods(program, spec):
    cls = program.get(spec)
    if not isinstance(cls, ast.ClassDef):
        raise AnalysisError("anchor vanished: %s is not a class" % spec)
    return [n for n in cls.body if isinstance(n, ast.FunctionDef)]
