"""Small AST query helpers shared by the rules."""
import ast

from .core import AnalysisError, AnchorError, unparse, enclosing_def
from .dataflow import chain, call_name, _walk_no_scopes


def calls_in(root, name=None, recv=None, scopes=False):
    """Call nodes under ``root`` whose callee's last name component is
    ``name`` (and whose receiver chain is ``recv`` when given).  Does not
    descend into nested defs unless scopes=True."""
    walker = ast.walk(root) if scopes else _walk_body(root)
    out = []
    for n in walker:
        if not isinstance(n, ast.Call):
            continue
        nm, rc = call_name(n)
        if name is not None and nm != name and \
                not (isinstance(name, (set, tuple, list, frozenset)) and
                     nm in name):
            continue
        if recv is not None:
            if rc is None or chain(rc) != recv:
                continue
        out.append(n)
    out.sort(key=lambda n: (n.lineno, n.col_offset))
    return out


def _walk_body(root):
    """Walk a def's own body (not nested defs), or any other node."""
    if isinstance(root, (ast.FunctionDef, ast.AsyncFunctionDef)):
        for s in root.body:
            if isinstance(s, (ast.FunctionDef, ast.AsyncFunctionDef,
                              ast.ClassDef)):
                continue
            for n in _walk_no_scopes(s):
                yield n
        return
    for n in _walk_no_scopes(root):
        yield n


def decorator_names(fn):
    out = []
    for d in fn.decorator_list:
        if isinstance(d, ast.Call):
            d = d.func
        out.append(unparse(d))
    return out


def qual(fn):
    return "%s:%s" % (fn._module.name, fn._qualname)


def formals(fn, skip_self=False):
    a = fn.args
    names = [x.arg for x in a.posonlyargs + a.args]
    if skip_self and names and names[0] in ("self", "cls"):
        names = names[1:]
    return names


def bind(call, fn, skip_self=None):
    """Map formal parameter name -> actual expression for a call of ``fn``
    (positional, keyword; *args/**kwargs actuals are reported under
    '*'/'**').  ``skip_self``: drop the first formal (method called through an
    instance); default: True when the def's first parameter is self/cls and
    the call is an attribute call."""
    names = formals(fn)
    if skip_self is None:
        skip_self = bool(names) and names[0] in ("self", "cls") and \
            isinstance(call.func, ast.Attribute)
    if skip_self:
        names = names[1:]
    out = {}
    i = 0
    for a in call.args:
        if isinstance(a, ast.Starred):
            out["*"] = a.value
            # remaining positionals are unknown
            out["*from"] = i
            break
        if i < len(names):
            out[names[i]] = a
        elif fn.args.vararg:
            out.setdefault("*extra", []).append(a)
        i += 1
    for k in call.keywords:
        if k.arg is None:
            out["**"] = k.value
        else:
            out[k.arg] = k.value
    return out


def defaults(fn):
    """formal name -> default expression."""
    a = fn.args
    pos = a.posonlyargs + a.args
    out = {}
    for arg, d in zip(pos[len(pos) - len(a.defaults):], a.defaults):
        out[arg.arg] = d
    for arg, d in zip(a.kwonlyargs, a.kw_defaults):
        if d is not None:
            out[arg.arg] = d
    return out


def returns_of(fn):
    return [n for n in _walk_body(fn) if isinstance(n, ast.Return)]


def raises_of(fn):
    return [n for n in _walk_body(fn) if isinstance(n, ast.Raise)]


def raise_name(r):
    e = r.exc
    if e is None:
        return None
    if isinstance(e, ast.Call):
        e = e.func
    return unparse(e).split(".")[-1]


def assigns_to(fn, var):
    """Assignment statements in fn's own body that define ``var``."""
    out = []
    for n in _walk_body(fn):
        if isinstance(n, ast.Assign):
            for t in n.targets:
                if chain(t) == var:
                    out.append(n)
        elif isinstance(n, ast.AugAssign) and chain(n.target) == var:
            out.append(n)
    return out


_FLIP = {"IsNot": "Is", "NotEq": "Eq", "NotIn": "In"}
_SWAP = {"Gt": "Lt", "GtE": "LtE"}
_NEG = {"Lt": "GtE", "LtE": "Gt", "Gt": "LtE", "GtE": "Lt"}


def canon_cond(cond, polarity):
    """Canonical (text, polarity) of a condition: negative operators become
    their positive form with flipped polarity (`a is not b` true == `a is b`
    false), orderings are written with < / <= (operands swapped, and a false
    `<` is a true `>=` i.e. a true swapped `<=`), operands of == sorted."""
    if isinstance(cond, str):
        try:
            cond = ast.parse(cond, mode="eval").body
        except SyntaxError:
            return cond, polarity
    if isinstance(cond, ast.UnaryOp) and isinstance(cond.op, ast.Not):
        return canon_cond(cond.operand, not polarity)
    if isinstance(cond, ast.Compare) and len(cond.ops) == 1:
        opn = type(cond.ops[0]).__name__
        a, b = unparse(cond.left), unparse(cond.comparators[0])
        if opn in _FLIP:
            opn = _FLIP[opn]
            polarity = not polarity
        if opn in ("Lt", "LtE", "Gt", "GtE"):
            if not polarity:
                opn = _NEG[opn]
                polarity = True
            if opn in _SWAP:
                opn = _SWAP[opn]
                a, b = b, a
        if opn == "Eq" and b < a:
            a, b = b, a
        sym = {"Is": "is", "Eq": "==", "In": "in", "Lt": "<",
               "LtE": "<="}.get(opn, opn)
        return "%s %s %s" % (a, sym, b), polarity
    return unparse(cond), polarity


def has_fact(facts, text, polarity):
    """Is there a dominating fact equivalent to ``text`` having the given
    truth value?  Comparison operators are canonicalised on both sides, so
    `x is not None` false matches `x is None` true, `a >= b` false matches
    `a < b` true, `b > a` matches `a < b`."""
    want = canon_cond(text, polarity)
    for cond, pol, _ in facts:
        if canon_cond(cond, pol) == want:
            return True
    return False


def parse_expr(text):
    e = ast.parse(text, mode="eval").body
    for n in ast.walk(e):
        for c in ast.iter_child_nodes(n):
            c._parent = n
    e._parent = None
    return e


def class_methods(program, spec):
    cls = program.get(spec)
    if not isinstance(cls, ast.ClassDef):
        raise AnchorError("anchor vanished: %s is not a class" % spec)
    out = []
    for n in list(cls.body):
        if isinstance(n, ast.FunctionDef):
            # (fetched through the program: helpers the reference tree did
            # not have are nested virtually, and reports about a method that
            # now delegates to them are withheld like for any other anchor)
            try:
                out.append(program.get("%s.%s" % (spec, n.name)))
            except AnchorError:
                out.append(n)
    return out


def _as_expression(stmts):
    """[return e] / [if c: <expr-like> else: <expr-like>] -> expression AST
    (IfExp for conditionals), or None."""
    stmts = [s for s in stmts if not (isinstance(s, ast.Expr) and
                                      isinstance(s.value, ast.Constant))]
    if len(stmts) == 1 and isinstance(stmts[0], ast.Return) and \
            stmts[0].value is not None:
        return stmts[0].value
    if len(stmts) >= 1 and isinstance(stmts[0], ast.If):
        a = _as_expression(stmts[0].body)
        rest = stmts[0].orelse if stmts[0].orelse else stmts[1:]
        if stmts[0].orelse and len(stmts) > 1:
            return None
        b = _as_expression(rest)
        if a is not None and b is not None:
            e = ast.IfExp(test=stmts[0].test, body=a, orelse=b)
            ast.copy_location(e, stmts[0])
            e._parent = stmts[0]
            return e
    return None


def inlinable(program, cls_spec):
    """(inline_props, inline_methods) of a class: properties and
    zero-argument methods whose body is a single expression (possibly an
    if/else of expressions) without calls other than min/max/len/int/abs."""
    props, meths = {}, {}
    for m in class_methods(program, cls_spec):
        e = _as_expression(m.body)
        if e is None:
            continue
        if any(isinstance(n, ast.Call) and not (
                isinstance(n.func, ast.Name) and
                n.func.id in ("min", "max", "len", "int", "abs"))
               for n in ast.walk(e)):
            continue
        if any(isinstance(n, (ast.Yield, ast.Await, ast.Lambda,
                              ast.NamedExpr)) for n in ast.walk(e)):
            continue
        names = [a.arg for a in m.args.args]
        if "property" in decorator_names(m) and names == ["self"]:
            props["self." + m.name] = e
        elif names == ["self"] and not m.args.vararg and not m.args.kwarg:
            meths[m.name] = ([], e)
    return props, meths


def send_scp_terms(program, T, call):
    """Argument terms of ``self._send_scp(x, y, p, cmd, arg1, ...)`` under the
    names of SCPConnection.send_scp's formals (which receives them after the
    buffer size)."""
    conn = program.get("rig.machine_control.scp_connection:"
                       "SCPConnection.send_scp")
    names = formals(conn)[2:]          # self, buffer_size, x, y, p, cmd ...
    n = T.cfg.node_containing(call)
    out = {}
    for nm, a in zip(names, call.args):
        if isinstance(a, ast.Starred):
            break
        out[nm] = T.term(a, n)
    for k in call.keywords:
        if k.arg:
            out[k.arg] = T.term(k.value, n)
    return out


def resolve_tmp(fl, expr, node, depth=6):
    """``expr`` with the temporaries it names replaced by their defining
    expressions, as long as that is exact: a Name with one reaching plain
    assignment that dominates ``node`` and whose operands are not re-defined
    in between.  The result is an expression over the variables current at
    ``node`` (suitable for Flow.sym / Interp.sym at that node)."""
    import copy as _copy
    if depth == 0:
        return expr
    if isinstance(expr, ast.Name):
        ds = fl.reaching(expr.id, node)
        if len(ds) == 1 and ds[0].mode == "assign" and \
                ds[0].value is not None and \
                fl.cfg.dominates(ds[0].node, node):
            d = ds[0]
            try:
                val = fl.sym(d.value, d.node)
                okv = fl._available(val, d.node, node)
            except AnalysisError:
                okv = False
            if okv:
                return resolve_tmp(fl, d.value, d.node, depth - 1)
        return expr
    if isinstance(expr, (ast.Tuple, ast.List)):
        new = type(expr)(elts=[resolve_tmp(fl, e, node, depth - 1)
                               for e in expr.elts], ctx=ast.Load())
        ast.copy_location(new, expr)
        new._parent = getattr(expr, "_parent", None)
        for e in new.elts:
            if not hasattr(e, "_parent"):
                e._parent = new
        return new
    return expr


def site_in(fn, cfg, node):
    """The CFG node of ``fn`` that executes ``node``: the node containing it,
    or - when it lies in a nested helper of fn - the node containing the
    helper's single call (followed through helpers of helpers)."""
    cur = node
    for _ in range(5):
        owner = cur
        while owner is not None and not isinstance(
                owner, (ast.FunctionDef, ast.AsyncFunctionDef, ast.Lambda)):
            owner = getattr(owner, "_parent", None)
        if owner is fn:
            return cfg.node_containing(cur)
        if owner is None or isinstance(owner, ast.Lambda):
            break
        sites = [c for c in ast.walk(fn) if isinstance(c, ast.Call) and
                 isinstance(c.func, ast.Name) and c.func.id == owner.name and
                 not _inside_node(c, owner)]
        if len(sites) != 1:
            break
        cur = sites[0]
    raise AnalysisError("%s: a statement lies in a helper that is not called "
                        "from exactly one place" % fn.name)


def _inside_node(node, anc):
    n = node
    while n is not None:
        if n is anc:
            return True
        n = getattr(n, "_parent", None)
    return False


def unroll_literal_loops(fn, limit=8):
    """A copy of ``fn`` in which every ``for v in (e1, ..., en)`` over a tuple
    / list display of at most ``limit`` elements is replaced by n copies of
    its body, each preceded by ``v = ei`` (same meaning: the elements are
    evaluated at the same points).  Loops with break / else, or with
    ``continue`` anywhere but as the whole body of an ``if`` directly in the
    loop body, are left alone.  Returns (copy, number of loops unrolled)."""
    import copy
    new = copy.deepcopy(fn)
    count = [0]

    def no_continue(body):
        """if c: continue; rest  ->  if not c: rest (None if not possible)"""
        out = []
        for i, st in enumerate(body):
            if isinstance(st, ast.If) and len(st.body) == 1 and \
                    isinstance(st.body[0], ast.Continue) and not st.orelse:
                rest = no_continue(body[i + 1:])
                if rest is None:
                    return None
                if rest:
                    out.append(ast.copy_location(ast.If(
                        test=ast.copy_location(ast.UnaryOp(
                            op=ast.Not(), operand=st.test), st.test),
                        body=rest, orelse=[]), st))
                return out
            if any(isinstance(x, ast.Continue) for x in ast.walk(st)
                   if not isinstance(x, (ast.For, ast.While)) or x is st):
                # a continue somewhere deeper (not inside a nested loop)
                inner = [x for x in ast.walk(st)
                         if isinstance(x, ast.Continue)]
                nested = [x for l_ in ast.walk(st)
                          if isinstance(l_, (ast.For, ast.While))
                          for x in ast.walk(l_)
                          if isinstance(x, ast.Continue)]
                if any(x not in nested for x in inner):
                    return None
            out.append(st)
        return out

    class V(ast.NodeTransformer):
        def visit_For(self, node):
            self.generic_visit(node)
            if node.orelse or not isinstance(node.iter, (ast.Tuple,
                                                         ast.List)) or \
                    len(node.iter.elts) > limit or any(
                        isinstance(e, ast.Starred) for e in node.iter.elts):
                return node
            for x in ast.walk(node):
                if isinstance(x, ast.Break):
                    owner = x
                    # a break of a nested loop is fine
                    p = getattr(x, "_parent", None)
                    return node
            body = no_continue(node.body)
            if body is None:
                return node
            out = []
            for e in node.iter.elts:
                out.append(ast.copy_location(ast.Assign(
                    targets=[copy.deepcopy(node.target)], value=e), node))
                out.extend(copy.deepcopy(body))
            count[0] += 1
            return out or [ast.copy_location(ast.Pass(), node)]
    new = V().visit(new)
    ast.fix_missing_locations(new)
    for n in ast.walk(new):
        for c in ast.iter_child_nodes(n):
            c._parent = n
    new._parent = getattr(fn, "_parent", None)
    for a_ in ("_module", "_qualname"):
        if hasattr(fn, a_):
            setattr(new, a_, getattr(fn, a_))
    return new, count[0]


def single_adds(fn):
    """Every place where ONE element is put into a collection, whichever way
    it is spelt: ``c.append(x)`` / ``c.add(x)``, ``c.extend([x])`` /
    ``c.update((x,))`` / ``c.update({x})`` with a one-element display,
    ``c += [x]`` / ``c |= {x}``.  Returns [(receiver expression, element
    expression, the call / statement)]."""
    out = []

    def one(e):
        if isinstance(e, (ast.List, ast.Tuple, ast.Set)) and \
                len(e.elts) == 1 and not isinstance(e.elts[0], ast.Starred):
            return e.elts[0]
        return None
    for n in ast.walk(fn):
        if isinstance(n, ast.Call) and isinstance(n.func, ast.Attribute) and \
                not n.keywords and len(n.args) == 1:
            if n.func.attr in ("append", "add"):
                out.append((n.func.value, n.args[0], n))
            elif n.func.attr in ("extend", "update") and \
                    one(n.args[0]) is not None:
                out.append((n.func.value, one(n.args[0]), n))
            elif n.func.attr in ("extend", "update") and isinstance(
                    n.args[0], (ast.GeneratorExp, ast.ListComp,
                                ast.SetComp)):
                # c.extend(f(x) for x in xs): each f(x) is added (terms of
                # the element need the comprehension's bindings)
                out.append((n.func.value, n.args[0].elt, n))
        elif isinstance(n, ast.AugAssign) and isinstance(
                n.op, (ast.Add, ast.BitOr)) and one(n.value) is not None and \
                isinstance(n.value, ast.Set if isinstance(n.op, ast.BitOr)
                           else ast.List):
            out.append((n.target, one(n.value), n))
    return out
