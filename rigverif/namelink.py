"""NAMELINK: arguments handed over under the wrong name, or not at all.

Two facts about a call of a function of the package, read from names alone:

SWAP   an actual that is a plain variable / attribute named exactly like one
       parameter of the callee is bound to a *different* parameter
       (``SCPConnection(host, port, self.n_tries, self.timeout)`` against
       ``__init__(self, host, port, timeout, n_tries)``;
       ``shortest_torus_path(a, b, height, width)``).
DROP   the callee has an optional parameter that the calling function also
       has under the same name, and the call leaves it to its default
       (a wrapper that takes ``sdram_resource`` and calls a helper with an
       ``sdram_resource=SDRAM`` default without passing it on): the
       caller's value silently does not take effect.

Both are name-based and so can only speak where names are shared; anything
else passes.  Callees are resolved when the called name is defined in or
imported into the calling module from the package, is a method of the same
class called through self / cls, or is a name that exactly one function,
method or class of the package carries (receivers rooted in an imported
module that is not part of the package are skipped).  DROP has a frozen
table of confirmed exceptions, one reason each.
"""
import ast

from .dataflow import chain, call_name
from .util import formals, bind, defaults

# (callee simple name, parameter) -> reason the caller's value is not
# forwarded on purpose
DROP_OK = {
    ("read_struct_field", "p"):
        "system-wide structs (sv) are read through the monitor's view of the "
        "chip: the field does not depend on which core asks",
    # (callee, parameter, calling function): the per-core records of a chip
    # (VCPU blocks, IOBUF chains) live in memory every core of the chip
    # sees at the same address; they are read and written through the
    # monitor core, p only selects *which* record
    ("read", "p", "read_vcpu_struct_field"):
        "the VCPU block of core p is read through the monitor (core 0)",
    ("write", "p", "write_vcpu_struct_field"):
        "the VCPU block of core p is written through the monitor (core 0)",
    ("read", "p", "get_processor_status"):
        "the VCPU block of core p is read through the monitor (core 0)",
    ("read", "p", "get_iobuf_bytes"):
        "the IOBUF chain of core p is read through the monitor (core 0)",
    ("scpcall", "data"):
        "read requests carry no payload; the caller's data is the buffer "
        "being filled, not data to send",
}


def _index(program):
    idx = getattr(program, "_namelink_index", None)
    if idx is not None:
        return idx
    byname = {}
    for mname, m in program.modules.items():
        for q, d in m.defs.items():
            if isinstance(d, ast.FunctionDef):
                byname.setdefault(d.name, []).append((mname, q, d))
            elif isinstance(d, ast.ClassDef):
                init = m.defs.get(q + ".__init__") or \
                    m.defs.get(q + ".__new__")
                if isinstance(init, ast.FunctionDef):
                    byname.setdefault(d.name, []).append((mname, q, init))
    program._namelink_index = byname
    return byname


def _owner(n):
    p = getattr(n, "_parent", None)
    while p is not None and not isinstance(p, (ast.FunctionDef,
                                               ast.AsyncFunctionDef)):
        p = getattr(p, "_parent", None)
    return p


def _resolve(program, m, c):
    """The def node the call ``c`` (in module ``m``) goes to, or None."""
    byname = _index(program)
    nm, recv = call_name(c)
    if nm is None:
        return None
    if isinstance(c.func, ast.Name):
        d = m.defs.get(nm)
        if isinstance(d, ast.ClassDef):
            d = m.defs.get(nm + ".__init__") or m.defs.get(nm + ".__new__")
        if isinstance(d, ast.FunctionDef):
            return d
        tgt = m.imports.get(nm, "")
        if ":" in tgt:
            mod2, _, name2 = tgt.partition(":")
            m2 = program.modules.get(mod2)
            if m2 is not None:
                d = m2.defs.get(name2)
                if isinstance(d, ast.ClassDef):
                    d = m2.defs.get(name2 + ".__init__") or \
                        m2.defs.get(name2 + ".__new__")
                if isinstance(d, ast.FunctionDef):
                    return d
            return None
        if nm in m.imports:
            return None         # imported from outside the package
    if isinstance(recv, ast.Name) and recv.id in ("self", "cls"):
        # a method of the same class (the class's own definition first)
        k = getattr(c, "_parent", None)
        while k is not None and not isinstance(k, ast.ClassDef):
            k = getattr(k, "_parent", None)
        if k is not None and getattr(k, "_qualname", None):
            d = m.defs.get("%s.%s" % (k._qualname, nm))
            if isinstance(d, ast.FunctionDef):
                return d
    if recv is not None:
        root = chain(recv)
        if root is not None:
            r0 = root.split(".")[0]
            if r0 in m.imports and not str(m.imports[r0]).startswith("rig"):
                return None     # re.match, struct.pack, np.clip ...
    cands = byname.get(nm, [])
    if len(cands) == 1:
        return cands[0][2]
    return None


def check(program, modules):
    """-> [(kind, module, call, callee def, formal, text)] for the calls in
    ``modules``; kind in "swap", "drop", "ok" (an examined, clean call)."""
    out = []
    for mname in modules:
        m = program.modules.get(mname)
        if m is None:
            continue
        for c in ast.walk(m.tree):
            if not isinstance(c, ast.Call):
                continue
            fn = _resolve(program, m, c)
            if fn is None:
                continue
            fs = formals(fn)
            skip = bool(fs) and fs[0] in ("self", "cls")
            names = fs[1:] if skip else fs
            if not names:
                continue
            b = bind(c, fn, skip_self=skip)
            plain_names = [x.lstrip("_") for x in names]
            found = False
            for formal, actual in sorted(
                    (k, v) for k, v in b.items() if isinstance(v, ast.AST)):
                if formal not in names:
                    continue
                ch = chain(actual)
                if ch is None:
                    continue
                last = ch.rsplit(".", 1)[-1].lstrip("_")
                # (not when the parameter of that name gets a value of that
                # name anyway: ``f(length, self.length)`` for (length, limit)
                # hands two different things over, each under its own name)
                rightly = any(
                    isinstance(v2, ast.AST) and chain(v2) is not None and
                    chain(v2).rsplit(".", 1)[-1].lstrip("_") == last and
                    k2.lstrip("_") == last for k2, v2 in b.items())
                if last != formal.lstrip("_") and last in plain_names and \
                        not rightly:
                    found = True
                    out.append(("swap", mname, c, fn, formal,
                                "%s(... %s=%s ...): the callee has a "
                                "parameter named %s, but this value is "
                                "bound to %s" % (fn.name if fn.name not in (
                                    "__init__", "__new__") else
                                    call_name(c)[0], formal, ch, last,
                                    formal)))
            if "*" not in b and "**" not in b:
                caller = _owner(c)
                cps = set(formals(caller)) if caller is not None else set()
                dfl = defaults(fn)
                # (a parameter the caller did not have in the reference
                # tree is read at its default there: not forwarding it is
                # what the default path does)
                newp = set()
                if caller is not None and getattr(
                        caller, "_qualname", None) is not None:
                    newp = set(m.new_params.get(caller._qualname, ()))
                for n_ in names:
                    if n_ in newp:
                        continue
                    if n_ in dfl and n_ in cps and n_ not in b and \
                            n_ not in ("self", "cls") and \
                            (call_name(c)[0], n_) not in DROP_OK and \
                            (call_name(c)[0], n_, caller.name) not in DROP_OK:
                        found = True
                        out.append(("drop", mname, c, fn, n_,
                                    "%s has the parameter %s and calls %s, "
                                    "which takes an optional %s, without "
                                    "passing it on: the caller's value does "
                                    "not take effect there" % (
                                        caller.name, n_, call_name(c)[0],
                                        n_)))
            if not found:
                out.append(("ok", mname, c, fn, None, ""))
    return out


_AXIS = None


def _axis(name):
    """'x' / 'y' / 'z' when the name says which coordinate it holds
    (x, dx, root_x, shift_y, x0 ...), else None."""
    import re
    m = re.search(r"(?:^|_)(?:d|delta|min|max)?_?([xyz])\d?$", name)
    return m.group(1) if m else None


def _expr_axis(e):
    """The one coordinate the names of an expression speak of, else None."""
    seen = set()
    for x in ast.walk(e):
        nm = None
        if isinstance(x, ast.Name):
            nm = x.id
        elif isinstance(x, ast.Attribute):
            nm = x.attr
        if nm is not None:
            a = _axis(nm)
            if a is not None:
                seen.add(a)
    return seen.pop() if len(seen) == 1 else None


def return_swaps(program, modules):
    """[(module, assignment node, callee, text)]: ``sx, sy = f(...)`` where
    every return of the package function f is a tuple whose elements speak
    of one coordinate each, in an order other than that of the targets'
    names (f returns (.. y .., .. x ..) and the caller calls the first item
    an x): the values are taken for each other."""
    out = []
    n = 0
    for mname in modules:
        m = program.modules.get(mname)
        if m is None:
            continue
        for st in ast.walk(m.tree):
            if not (isinstance(st, ast.Assign) and len(st.targets) == 1 and
                    isinstance(st.targets[0], (ast.Tuple, ast.List)) and
                    isinstance(st.value, ast.Call)):
                continue
            tg = st.targets[0].elts
            if not all(isinstance(t, (ast.Name, ast.Attribute)) for t in tg):
                continue
            fn = _resolve(program, m, st.value)
            if fn is None:
                continue
            rets = [r for r in ast.walk(fn) if isinstance(r, ast.Return)
                    and r.value is not None and _owner(r) is fn]
            if not rets or not all(
                    isinstance(r.value, ast.Tuple) and
                    len(r.value.elts) == len(tg) for r in rets):
                continue
            t_ax = [_axis(t.id if isinstance(t, ast.Name) else t.attr)
                    for t in tg]
            if len(set(a for a in t_ax if a)) < 2:
                continue
            n += 1
            for r in rets:
                r_ax = [_expr_axis(e) for e in r.value.elts]
                bad = [i for i in range(len(tg))
                       if t_ax[i] and r_ax[i] and t_ax[i] != r_ax[i]]
                # a clean exchange: what one target expects the other gets
                swapped = [(i, j) for i in bad for j in bad if i < j and
                           t_ax[i] == r_ax[j] and t_ax[j] == r_ax[i]]
                if swapped:
                    i, j = swapped[0]
                    out.append((mname, st, fn,
                                "%s = %s(...): %s returns (%s) - item %d "
                                "speaks of %s, item %d of %s - but the "
                                "targets name them %s and %s: the two "
                                "coordinates are taken for each other" % (
                                    ast.unparse(st.targets[0]), fn.name,
                                    fn.name, ast.unparse(r.value), i,
                                    r_ax[i], j, r_ax[j],
                                    ast.unparse(tg[i]), ast.unparse(tg[j]))))
                    break
    return out, n


def rule(program, rep, rule_id, modules, floor=1, domains=None):
    """Report the SWAP / DROP findings of ``modules`` under ``rule_id``,
    and the defaults chosen by a truth test that replace a caller's falsy
    value (FALSY, see falsy.py)."""
    from . import falsy, stale
    falsy.rule(program, rep, rule_id, modules, domains)
    stale.rule(program, rep, rule_id, modules)
    from . import noeffect
    noeffect.rule(program, rep, rule_id, modules)
    from . import slips
    slips.rule(program, rep, rule_id, modules)
    # one mutable object filed under every key / position and then changed
    # through one entry (dict.fromkeys(keys, []), [[]] * n)
    from .link import shared_mutable_values
    for mname in modules:
        m = program.modules.get(mname)
        if m is None:
            continue
        for q, d in sorted(m.defs.items()):
            if not isinstance(d, ast.FunctionDef) or \
                    getattr(d, "_virtual", False):
                continue
            for v_, nm_, c_ in shared_mutable_values(d):
                rep.bad(rule_id, "%s:%s" % (mname, q),
                        "one mutable object under every key",
                        "%s binds %s to %s: every key / position holds the "
                        "SAME object, and %s changes an entry in place - "
                        "the change shows through every entry" % (
                            q, nm_, ast.unparse(v_),
                            ast.unparse(c_)[:60]), v_, positive=True)
    rs, n_rs = return_swaps(program, modules)
    for mname, st, fn_, text in rs:
        rep.bad(rule_id, "%s:%d" % (mname, st.lineno),
                "returned coordinates exchanged (%s)" % fn_.name, text, st,
                positive=True)
    res = check(program, modules)
    for m in modules:
        if m in program.modules:
            program.module(m)
    n_ok = 0
    for kind, mname, c, fn, formal, text in res:
        if kind == "ok":
            n_ok += 1
            continue
        rep.bad(rule_id, "%s:%d" % (mname, c.lineno),
                "%s %s" % (kind, formal),
                text + (": the two values are exchanged / the wrong one is "
                        "used" if kind == "swap" else ""), c, positive=True)
    rep.ok(rule_id, ",".join(sorted(set(r[1] for r in res))) or "-",
           "%d call(s) of package functions pass every name-sharing "
           "argument to the parameter of that name and forward the "
           "same-named optional parameters they hold" % n_ok)
    if n_ok < floor:
        from .core import AnalysisError
        raise AnalysisError("NAMELINK examined %d call(s) in %s, fewer than "
                            "expected" % (n_ok, modules))
