"""PATHS - path-sensitive reachability over a function's CFG.

A state is (node, valuation, monitor):

* the valuation gives an abstract value to the function's plain local names:
  T / F / N (the constants True, False, None), NN (not None), NN+ / NN- (not
  None and true / false), Z (false, possibly None), a tag supplied by the
  client (an object the client recognises by its value term), or nothing
  (unknown).  Branches whose condition is decided by the valuation are only
  followed on the decided side; taking a branch refines the valuation;
* the monitor is a client automaton stepped on every node entered (the
  client looks at the node's canonical terms: which test it is, which loop
  it heads, which value it stores).

Calls of nested helpers are followed: the helper's CFG is explored from the
monitor state at the call with the helper's terms expressed in the caller's
(Terms.inners), giving a set of (abstract return value, monitor) outcomes.

All feasible paths are covered (a branch is pruned only when the valuation
decides it), so "every state reaching node n satisfies X" is a sound
verdict; "some state reaching n violates X" may come from an infeasible path
the valuation cannot rule out, which is why clients only rely on flags the
function itself tests.
"""
import ast

from .core import AnalysisError

TOP = "?"
_TRUTH = {"T": True, "F": False, "N": False, "NN+": True, "NN-": False,
          "Z": False}
_NONE = {"T": False, "F": False, "N": True, "NN": False, "NN+": False,
         "NN-": False}


class Client(object):
    """Override what is needed."""

    def start(self):
        return ()

    def step(self, view, node, env, mon):
        """Monitor state after entering ``node``."""
        return mon

    def tag(self, view, node, term, env, mon):
        """Abstract value of an assigned term, or None."""
        return None

    def tag_expr(self, view, node, expr, env, mon):
        """Abstract value of an assigned expression the engine could not
        evaluate (before its term is tried), or None."""
        return None

    def call_outcomes(self, view, node, call, env, mon):
        """{(abstract result, monitor)} of a call the client knows about (the
        exploration continues once per outcome), or None."""
        return None

    def truth(self, tag):
        return None

    def isnone(self, tag):
        return False


def _names(target):
    if isinstance(target, ast.Name):
        return [target.id]
    if isinstance(target, (ast.Tuple, ast.List)):
        out = []
        for e in target.elts:
            out += _names(e)
        return out
    if isinstance(target, ast.Starred):
        return _names(target.value)
    return []


def _own_calls(node_ast):
    """Call nodes evaluated by this CFG node itself (not those inside nested
    functions / lambdas), innermost first."""
    out = []

    def walk(n):
        for c in ast.iter_child_nodes(n):
            if isinstance(c, (ast.FunctionDef, ast.AsyncFunctionDef,
                              ast.Lambda, ast.ClassDef)):
                continue
            walk(c)
        if isinstance(n, ast.Call):
            out.append(n)
    if isinstance(node_ast, (ast.FunctionDef, ast.AsyncFunctionDef,
                             ast.ClassDef)):
        return out
    if isinstance(node_ast, (ast.For, ast.While, ast.If, ast.With, ast.Try)):
        return out
    walk(node_ast)
    return out


class Paths(object):
    def __init__(self, T, client, limit=400000):
        self.T = T
        self.client = client
        self.limit = limit
        self.count = 0
        self._sum = {}
        self._busy = set()
        self.nested = {}
        for n in ast.walk(T.fn):
            if isinstance(n, ast.FunctionDef) and n is not T.fn:
                self.nested[n.name] = n
        self.helper_runs = 0

    # -- abstract values ------------------------------------------------------
    def truth(self, v):
        if v in _TRUTH:
            return _TRUTH[v]
        if v in (TOP, "NN"):
            return None
        return self.client.truth(v)

    def isnone(self, v):
        if v in _NONE:
            return _NONE[v]
        if v in (TOP, "Z"):
            return None
        return self.client.isnone(v)

    def eval(self, e, env):
        if isinstance(e, ast.Constant):
            if e.value is True:
                return "T"
            if e.value is False:
                return "F"
            if e.value is None:
                return "N"
            return "NN+" if e.value else "NN-"
        if isinstance(e, ast.Name):
            return env.get(e.id, TOP)
        if isinstance(e, ast.Call):
            return env.get(("$call", id(e)), TOP)
        if isinstance(e, ast.UnaryOp) and isinstance(e.op, ast.Not):
            t = self.truth(self.eval(e.operand, env))
            return TOP if t is None else ("F" if t else "T")
        if isinstance(e, ast.BoolOp):
            is_and = isinstance(e.op, ast.And)
            for i, v in enumerate(e.values):
                a = self.eval(v, env)
                if i == len(e.values) - 1:
                    return a
                t = self.truth(a)
                if t is None:
                    return TOP
                if t != is_and:
                    return a
            return TOP
        if isinstance(e, ast.Compare) and len(e.ops) == 1 and \
                isinstance(e.ops[0], (ast.Is, ast.IsNot)):
            l, r = e.left, e.comparators[0]
            if isinstance(l, ast.Constant) and l.value is None:
                l, r = r, l
            if isinstance(r, ast.Constant) and r.value is None:
                n = self.isnone(self.eval(l, env))
                if n is None:
                    return TOP
                if isinstance(e.ops[0], ast.IsNot):
                    n = not n
                return "T" if n else "F"
            return TOP
        if isinstance(e, ast.IfExp):
            t = self.truth(self.eval(e.test, env))
            if t is True:
                return self.eval(e.body, env)
            if t is False:
                return self.eval(e.orelse, env)
            a, b = self.eval(e.body, env), self.eval(e.orelse, env)
            return a if a == b else TOP
        return TOP

    def refine(self, e, pol, env):
        """Valuation after the (atomic) branch condition ``e`` came out as
        ``pol``."""
        if isinstance(e, ast.Name):
            v = env.get(e.id, TOP)
            if v == TOP:
                env = dict(env)
                env[e.id] = "NN+" if pol else "Z"
            elif v == "NN":
                env = dict(env)
                env[e.id] = "NN+" if pol else "NN-"
            return env
        if isinstance(e, ast.Compare) and len(e.ops) == 1 and \
                isinstance(e.ops[0], (ast.Is, ast.IsNot)):
            l, r = e.left, e.comparators[0]
            if isinstance(l, ast.Constant) and l.value is None:
                l, r = r, l
            if isinstance(r, ast.Constant) and r.value is None and \
                    isinstance(l, ast.Name):
                none = pol == isinstance(e.ops[0], ast.Is)
                v = env.get(l.id, TOP)
                env = dict(env)
                if none:
                    env[l.id] = "N"
                elif v == TOP:
                    env[l.id] = "NN"
                elif v == "Z":
                    env[l.id] = "NN-"
            return env
        return env

    # -- helper summaries -----------------------------------------------------
    def _helper_view(self, view, call):
        fn = self.nested.get(call.func.id) if isinstance(
            call.func, ast.Name) else None
        if fn is None:
            return None, None
        for v in self.T.inners(fn):
            if v.call is call:
                return fn, v
        return fn, None

    def outcomes(self, view, call, mon):
        """{(abstract return value, monitor)} of a nested-helper call."""
        fn, hv = self._helper_view(view, call)
        if fn is None:
            return None
        if hv is None:
            raise AnalysisError("no view for the call of %s" % fn.name)
        key = (id(call), mon)
        if key in self._sum:
            return self._sum[key]
        if id(call) in self._busy:
            raise AnalysisError("recursive helper %s" % fn.name)
        self._busy.add(id(call))
        self.helper_runs += 1
        try:
            seen = self.run(hv, hv.cfg.entry, {}, mon)
        finally:
            self._busy.discard(id(call))
        out = set()
        for env, m in seen.get(hv.cfg.exit.id, ()):
            out.add((dict(env).get("$ret", "N"), m))
        self._sum[key] = out
        return out

    # -- exploration ----------------------------------------------------------
    def run(self, view, start, env, mon, enter_start=True):
        """{node id: {(valuation as a frozenset of items, monitor)}} for
        every state reachable from ``start``."""
        cfg = view.cfg
        seen = {}
        work = []

        def has_exc(n):
            return n.kind in ("stmt", "test") and any(
                s.kind == "handler" or s.label == "finally" or
                s is cfg.raise_exit for s in n.succ) and \
                not isinstance(n.ast, ast.Raise)

        def push(n, env, mon, pre):
            key = (frozenset(env.items()), mon)
            s = seen.setdefault(n.id, set())
            k2 = key
            if has_exc(n):
                k2 = (key, frozenset(pre[0].items()), pre[1])
                if k2 in done_exc:
                    return
                done_exc.add(k2)
            elif key in s:
                return
            s.add(key)
            self.count += 1
            if self.count > self.limit:
                raise AnalysisError("path exploration exceeds %d states" %
                                    self.limit)
            work.append((n, env, mon, pre))
        done_exc = set()
        if enter_start:
            for e2, m2 in self.enter(view, start, env, mon):
                push(start, e2, m2, (env, mon))
        else:
            push(start, env, mon, (env, mon))
        while work:
            n, env, mon, pre = work.pop()
            exc_n = has_exc(n)
            for s in n.succ:
                exc = exc_n and (s.kind == "handler" or s.label == "finally"
                                 or s is cfg.raise_exit)
                for e2, m2 in self.enter(view, s, env, mon):
                    push(s, e2, m2, (env, mon))
                if exc:
                    # the exception may have left before the node's effect
                    for e2, m2 in self.enter(view, s, pre[0], pre[1]):
                        push(s, e2, m2, pre)
        return seen

    def enter(self, view, n, env, mon):
        """States after entering (executing) node ``n``."""
        states = [(env, mon)]
        a = n.ast
        # nested-helper calls made by this node
        if n.kind in ("stmt", "test") and a is not None:
            for c in _own_calls(a):
                nxt = []
                for env_, mon_ in states:
                    outs = self.client.call_outcomes(view, n, c, env_, mon_)
                    if outs is None:
                        outs = self.outcomes(view, c, mon_)
                    if outs is None:
                        nxt.append((env_, mon_))
                        continue
                    for ret, m in outs:
                        e2 = dict(env_)
                        if ret == TOP:
                            e2.pop(("$call", id(c)), None)
                        else:
                            e2[("$call", id(c))] = ret
                        nxt.append((e2, m))
                states = nxt
        out = []
        for env_, mon_ in states:
            mon2 = self.client.step(view, n, env_, mon_)
            if mon2 is None:
                continue
            env2 = env_
            if n.kind == "assume":
                t = self.truth(self.eval(a, env_))
                if t is not None and t != n.polarity:
                    continue
                env2 = self.refine(a, n.polarity, env_)
            elif n.kind == "join" and n.label == "forbody":
                env2 = dict(env_)
                for v in _names(a.target):
                    env2.pop(v, None)
                    try:
                        t = view.term(ast.Name(id=v, ctx=ast.Load()), n)
                    except AnalysisError:
                        t = None
                    tg = self.client.tag(view, n, t, env_, mon2) \
                        if t is not None else None
                    if tg is not None:
                        env2[v] = tg
            elif n.kind == "stmt":
                env2 = self.assign(view, n, env_, mon2)
            elif n.kind == "with" and a is not None:
                env2 = dict(env_)
                for it in a.items:
                    if it.optional_vars is not None:
                        for v in _names(it.optional_vars):
                            env2.pop(v, None)
            elif n.kind == "handler" and a is not None and \
                    getattr(a, "name", None):
                env2 = dict(env_)
                env2.pop(a.name, None)
            out.append((env2, mon2))
        return out

    def assign(self, view, n, env, mon):
        a = n.ast
        if isinstance(a, ast.Return):
            env = dict(env)
            env["$ret"] = self.value(view, n, a.value, env, mon) \
                if a.value is not None else "N"
            return env
        if isinstance(a, ast.Assign):
            val = None
            env2 = dict(env)
            for tg in a.targets:
                if isinstance(tg, ast.Name):
                    if val is None:
                        val = self.value(view, n, a.value, env, mon)
                    if val == TOP:
                        env2.pop(tg.id, None)
                    else:
                        env2[tg.id] = val
                else:
                    for v in _names(tg):
                        env2.pop(v, None)
            return env2
        if isinstance(a, (ast.AugAssign, ast.AnnAssign)):
            env2 = dict(env)
            for v in _names(a.target):
                env2.pop(v, None)
            if isinstance(a, ast.AnnAssign) and a.value is not None and \
                    isinstance(a.target, ast.Name):
                val = self.value(view, n, a.value, env, mon)
                if val != TOP:
                    env2[a.target.id] = val
            return env2
        if isinstance(a, (ast.FunctionDef, ast.ClassDef, ast.Import,
                          ast.ImportFrom)):
            return env
        if isinstance(a, ast.Delete):
            env2 = dict(env)
            for t in a.targets:
                for v in _names(t):
                    env2.pop(v, None)
            return env2
        return env

    def value(self, view, n, e, env, mon):
        v = self.eval(e, env)
        if v != TOP:
            return v
        tg = self.client.tag_expr(view, n, e, env, mon)
        if tg is not None:
            return tg
        try:
            t = view.term(e, n)
        except AnalysisError:
            return TOP
        tg = self.client.tag(view, n, t, env, mon)
        return tg if tg is not None else TOP
