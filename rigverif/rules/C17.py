"""C17 - library calls neither modify their arguments nor remember earlier
calls.

R1 no public function/method of the anchored packages mutates an argument in
   place (down to two levels inside it), directly or through callees
R2 no remembered module state: module-level mutables are written only by
   their allow-listed owner; no ``global`` rebinding
R3 a mutable default argument is never mutated and never retained
R4 functions given an RNG use only that RNG
R5 no argument that is evidently a container is retained by reference in an
   object (it would be shared with the caller / with the shared default)
"""
import ast

from ..core import AnalysisError, finish, unparse, where
from ..effects import Effects, container_evident, _mutable_ctor
from ..dataflow import chain, call_name
from ..util import qual, formals

PACKAGES = ("rig",)     # the whole package (scripts and wizard included)

# (module:qualname, param) -> reason.  One symbol wide, each read and
# confirmed against the source's own documentation.
ALLOW_MUTATE = {
    ("rig.place_and_route.place.utils:finalise_same_chip_constraints",
     "placements"): "documented: 'changing the placements inplace'; every "
                    "caller passes the dict it is about to return",
    ("rig.place_and_route.place.utils:apply_reserve_resource_constraint",
     "machine"): "documented to apply the reservation to the machine it is "
                 "given; callers pass their working copy (checked at the "
                 "call sites through its summary)",
    ("rig.place_and_route.place.hilbert:hilbert", "s"):
        "recursion state object threaded through the generator's own "
        "recursive calls (HilbertState), created fresh when omitted",
    ("rig.utils.docstrings:add_int_enums_to_docstring", "enum"):
        "class decorator: extends the decorated enum's __doc__ at "
        "definition time",
}
ALLOW_GLOBAL = {
    ("rig.place_and_route.route.ner", "_concentric_hexagons"):
        ("rig.place_and_route.route.ner:memoized_concentric_hexagons",
         "memo keyed by radius; the key determines the value (a tuple)"),
}
ALLOW_ESCAPE = {
    ("rig.bitfield:BitField.__init__", "_fields"):
        "private constructor argument: views of one bit field share the "
        "field tree by design",
    ("rig.bitfield:BitField.__init__", "_field_values"):
        "private constructor argument (leading underscore; read: "
        "BitField.__call__ passes a dictionary it has just built); whether "
        "the store is spelt as a statement or a conditional expression "
        "makes no difference",
    ("rig.bitfield:BitField._Field.__init__", "tags"):
        "internal record; every caller must pass a fresh set (checked at the "
        "call sites)",
    ("rig.bitfield:BitField._Tree.__init__", "fields"):
        "internal record; callers pass nothing or fresh containers (checked "
        "at the call sites)",
    ("rig.bitfield:BitField._Tree.__init__", "children"):
        "internal record; callers pass nothing or fresh containers (checked "
        "at the call sites)",
    ("rig.place_and_route.routing_tree:RoutingTree.__init__", "children"):
        "plain data-structure constructor: the tree node is documented to "
        "hold the list it is given",
}
VALUE_CLASSES = (("rig.place_and_route.machine", "Machine"),
                 ("rig.place_and_route.routing_tree", "RoutingTree"),
                 ("rig.netlist", "Net"))
RNG_METHODS = {"shuffle", "choice", "sample", "randint", "random",
               "getrandbits", "uniform", "randrange", "gauss", "choices"}

EXPLANATION = (
    "EFFECTS: an origin-tracking dataflow (parameter at depth 0/1/2, fresh, "
    "module-level mutable) over every function of the anchored packages, "
    "flow-sensitive, with boolean-flag partitioning, positional tuple shapes "
    "and callee summaries to a fixpoint, reports every in-place mutation "
    "whose target may be (inside) an argument, every write to module-level "
    "mutable state, every mutable default that is mutated or retained, every "
    "evidently-container argument stored by reference, and every RNG call "
    "not made on the caller's generator.")
NOT_DECIDED = [
    "determinism that depends on dict/set iteration order or hashing of user "
    "objects",
    "aliasing introduced through objects whose class is outside rig",
    "results of rig functions are assumed not to alias their arguments unless "
    "they are copies/elements per the engine's transfer functions",
]


def _set_valued(t):
    """Is the value term certainly a set (iteration in hash order)?"""
    if t[0] == "new":
        t = t[2]
    if t[0] in ("set", "setcomp"):
        return True
    if t[0] in ("call", "callv"):
        f = t[1]
        if f in (("global", "set"), ("global", "frozenset")):
            return True
        if f[0] == "attr" and f[2] in ("difference", "union", "intersection",
                                       "symmetric_difference") and \
                _set_valued(f[1]):
            return True
    if t[0] == "binop" and t[1] in ("Sub", "BitOr", "BitAnd", "BitXor") and \
            (_set_valued(t[2]) or _set_valued(t[3])):
        return True
    return False


def _public(q):
    return not any(part.startswith("_") and not (
        part.startswith("__") and part.endswith("__"))
        for part in q.split("."))


def r1_for(program, rep, modules):
    """R1 (no public function changes an argument in place, to depth 2 and
    through callees) for the functions of ``modules`` only: run by the checks
    of properties whose pipeline hands one object to several stages (a
    constraint list re-written in place by the placer is what the router is
    then given)."""
    eff = Effects(program)
    n = 0
    for m in modules:
        program.module(m)
        for q, fn in program.functions(m):
            local_def = "." in q and isinstance(
                program.modules[m].defs.get(q.rsplit(".", 1)[0]),
                ast.FunctionDef)
            if not _public(q) or local_def:
                continue
            inst = "%s:%s" % (m, q)
            evs = eff.analyse(fn)
            a = fn.args
            params = [x.arg for x in a.posonlyargs + a.args + a.kwonlyargs]
            hit = {}
            for e in evs:
                if e.kind != "mutate":
                    continue
                for o in e.origins:
                    if o[0] == "P" and o[1] not in ("self", "cls") and \
                            o[2] <= 2:
                        hit.setdefault(o[1], (e, o))
            for p_ in params:
                if p_ in ("self", "cls"):
                    continue
                n += 1
                if p_ in hit and (inst, p_) not in ALLOW_MUTATE:
                    e, o = hit[p_]
                    rep.bad("C17-R1", inst, "mutates argument %s: %s" % (
                        p_, e.text), "%s mutates its argument '%s' in place "
                        "(%s, %d level(s) inside the object passed in): the "
                        "caller's object is what later stages are given" % (
                            q, p_, e.text, o[2]), e.node)
                else:
                    rep.ok("C17-R1", inst, "argument %s is not changed in "
                           "place (or by documented contract)" % p_, fn)
    if n == 0:
        raise AnalysisError("no public function found in %s" % (modules,))


def check(program, rep):
    eff = Effects(program)
    mods = sorted(m for m in program.modules
                  if any(m == p or m.startswith(p + ".") for p in PACKAGES))
    if len(mods) < 55:
        raise AnalysisError("anchored packages shrank to %d modules" %
                            len(mods))
    n_fn = 0
    used_allow = set()
    for m in mods:
        program.module(m)
        for q, fn in program.functions(m):
            n_fn += 1
            inst = "%s:%s" % (m, q)
            evs = eff.analyse(fn)
            a = fn.args
            mut_defaults = set()
            pos = a.posonlyargs + a.args
            for arg, d in zip(pos[len(pos) - len(a.defaults):], a.defaults):
                if _mutable_ctor(d):
                    mut_defaults.add(arg.arg)
            for arg, d in zip(a.kwonlyargs, a.kw_defaults):
                if d is not None and _mutable_ctor(d):
                    mut_defaults.add(arg.arg)
            bad_params = {}
            for e in evs:
                for o in e.origins:
                    if o[0] == "P" and o[1] not in ("self", "cls") and \
                            o[2] <= 2:
                        if e.kind == "mutate":
                            bad_params.setdefault(o[1], []).append((e, o))
            # R1: public entry points
            params = [x.arg for x in pos + a.kwonlyargs]
            # (a function defined inside another function is no entry
            # point: what it does to its arguments is accounted to the
            # enclosing function through its call summary)
            local_def = "." in q and isinstance(
                program.modules[m].defs.get(q.rsplit(".", 1)[0]),
                ast.FunctionDef)
            if _public(q) and not local_def:
                for p_ in params:
                    if p_ in ("self", "cls"):
                        continue
                    hits = bad_params.get(p_, [])
                    key = (inst, p_)
                    if hits and key in ALLOW_MUTATE:
                        used_allow.add(key)
                        rep.ok("C17-R1", inst, "argument %s is mutated by "
                               "documented contract: %s" % (
                                   p_, ALLOW_MUTATE[key]), fn)
                        continue
                    if hits:
                        e, o = hits[0]
                        rep.bad("C17-R1", inst,
                                "mutates argument %s: %s" % (p_, e.text),
                                "%s mutates its argument '%s' in place "
                                "(%s, %d level(s) inside the object passed "
                                "in) at %s" % (q, p_, e.text, o[2],
                                               where(e.node)), e.node)
                    else:
                        rep.ok("C17-R1", inst, "argument %s is never "
                               "mutated in place (to depth 2, through "
                               "callees)" % p_, fn)
            # R3: mutable defaults, public or not
            for p_ in sorted(mut_defaults):
                hits = [(e, o) for e, o in bad_params.get(p_, [])
                        if o[2] == 0]
                esc = [e for e in evs if e.kind == "escape" and
                       any(o[1] == p_ for o in e.origins)]
                if hits or esc:
                    e = (hits[0][0] if hits else esc[0])
                    rep.bad("C17-R3", inst,
                            "mutable default %s: %s" % (p_, e.text),
                            "the mutable default argument '%s' of %s is %s "
                            "(%s): state leaks between calls" % (
                                p_, q, "mutated" if hits else "retained by "
                                "reference", e.text), e.node)
                else:
                    rep.ok("C17-R3", inst, "mutable default %s is only read "
                           "or copied" % p_, fn)
            # R5: retained by reference
            for e in evs:
                if e.kind != "escape" or not e.evident:
                    continue
                for o in e.origins:
                    key = (inst, o[1])
                    if key in ALLOW_ESCAPE:
                        used_allow.add(key)
                        rep.ok("C17-R5", inst, "%s retained by design: %s" %
                               (o[1], ALLOW_ESCAPE[key]), e.node)
                    else:
                        rep.bad("C17-R5", inst,
                                "retains argument %s: %s" % (o[1], e.text),
                                "%s keeps its container argument '%s' by "
                                "reference (%s): later updates of the object "
                                "modify the caller's (or the shared "
                                "default) container" % (q, o[1], e.text),
                                e.node)
            # R2: module state
            for e in evs:
                if e.kind != "mutate":
                    continue
                for o in e.origins:
                    if o[0] == "G" and o[1] != "?":
                        allow = ALLOW_GLOBAL.get((o[1], o[2]))
                        if allow and allow[0] == inst:
                            rep.ok("C17-R2", inst, "module-level %s is "
                                   "written only by its owner: %s" % (
                                       o[2], allow[1]), e.node)
                        else:
                            # a memo whose entries are functions of their
                            # keys cannot be observed; one whose key leaves
                            # out something the value depends on answers
                            # with another call's result
                            from ..memo import memo_verdict, \
                                memo_values_mutable, memo_stores_generator
                            try:
                                gen_ = memo_stores_generator(fn, o[2])
                            except AnalysisError:
                                gen_ = None
                            if gen_:
                                rep.bad("C17-R2", inst,
                                        "cached generator %s" % gen_,
                                        "%s keeps the generator returned by "
                                        "%s() in the module-level %s.%s and "
                                        "hands the same one-shot iterator to "
                                        "later callers: they get what "
                                        "earlier callers left of it" % (
                                            q, gen_, o[1], o[2]), e.node)
                                continue
                            try:
                                verdict, text = memo_verdict(fn, o[2])
                                if verdict == "ok" and memo_values_mutable(
                                        fn, o[2]) is not False:
                                    verdict, text = "unknown", \
                                        "a memo whose entries may be " \
                                        "mutable objects shared by all " \
                                        "callers"
                            except AnalysisError as ex:
                                verdict, text = "unknown", str(ex)
                            if verdict == "ok":
                                rep.ok("C17-R2", inst, "module-level %s is "
                                       "a memo: %s" % (o[2], text), e.node)
                            elif verdict == "unknown":
                                rep.undecided("C17-R2", "%s writes the "
                                              "module-level %s.%s: %s" % (
                                                  q, o[1], o[2], text))
                            else:
                                rep.bad("C17-R2", inst,
                                        "writes module state %s.%s" % (
                                            o[1], o[2]),
                                        "%s answers from the module-level "
                                        "mutable %s.%s (%s): %s" % (
                                            q, o[1], o[2], e.text, text),
                                        e.node)
            # a result cache on a generator function hands the same
            # (exhausted) generator to later callers: remembered state
            decs = [unparse(d) for d in getattr(fn, "decorator_list", [])]
            if any("cache" in d or "memoize" in d for d in decs) and any(
                    isinstance(n, (ast.Yield, ast.YieldFrom))
                    for n in ast.walk(fn)):
                rep.bad("C17-R2", inst, "cached generator %s" % decs,
                        "%s is a generator function wrapped by %s: a later "
                        "call with equal arguments gets the generator an "
                        "earlier call already consumed" % (q, decs), fn)
            for n in ast.walk(fn):
                if isinstance(n, ast.Global):
                    # a constant built on first use: every value stored in
                    # the name is computed from no argument of the function
                    # (nothing of an earlier call can show in a later one);
                    # anything else rebinding a module-level name is state
                    lazy = True
                    pnames = set(params)
                    for st_ in ast.walk(fn):
                        tg_ = []
                        if isinstance(st_, ast.Assign):
                            tg_ = st_.targets
                        elif isinstance(st_, (ast.AugAssign, ast.AnnAssign)):
                            tg_ = [st_.target]
                        for t_ in tg_:
                            for x_ in ast.walk(t_):
                                if isinstance(x_, ast.Name) and \
                                        x_.id in n.names:
                                    if isinstance(st_, ast.AugAssign) or \
                                            st_.value is None or any(
                                                isinstance(y_, ast.Name) and
                                                y_.id in pnames
                                                for y_ in ast.walk(
                                                    st_.value)):
                                        lazy = False
                    if lazy and not pnames - {"self", "cls"}:
                        rep.undecided("C17-R2", "%s builds the module-level "
                                      "%s on first use (a value computed "
                                      "from no argument); whether it is "
                                      "immutable is not analysed" % (
                                          q, ", ".join(n.names)))
                        continue
                    rep.bad("C17-R2", inst, "global %s" % ",".join(n.names),
                            "%s rebinds module-level names %s" % (
                                q, n.names), n)
            # R4: RNG
            rng_params = [p_ for p_ in params if p_ == "random"]
            uses_self_random = any(
                isinstance(n, ast.Attribute) and chain(n) == "self.random"
                for n in ast.walk(fn))
            if rng_params or uses_self_random:
                okr = True
                for n in ast.walk(fn):
                    if isinstance(n, ast.Call):
                        nm, rc = call_name(n)
                        if nm in RNG_METHODS and rc is not None:
                            c = chain(rc)
                            if c in ("random", "self.random"):
                                if c == "random" and "random" not in params:
                                    # module-level random in a method that
                                    # has self.random
                                    okr = False
                                    bad = n
                            elif c is not None and (
                                    "random" in c.lower()):
                                okr = False
                                bad = n
                # which draw goes to which of the caller's items: a loop
                # that draws once per element of a SET visits the elements
                # in hash order - for ordinary objects (hash = address) and
                # strings (randomised hashing) an order that differs from
                # run to run, so a seeded generator no longer pins the
                # result
                for lp in ast.walk(fn):
                    if not isinstance(lp, ast.For):
                        continue
                    draws = [c_ for c_ in ast.walk(lp) if isinstance(
                        c_, ast.Call) and call_name(c_)[0] in RNG_METHODS
                        and call_name(c_)[1] is not None and
                        chain(call_name(c_)[1]) in ("random", "self.random")]
                    if not draws:
                        continue
                    try:
                        from ..terms import Terms as _Terms, plain as _plain
                        TT = fn.__dict__.get("_c17_terms") or _Terms(fn)
                        fn.__dict__["_c17_terms"] = TT
                        it_ = _plain(TT.term(lp.iter,
                                             TT.cfg.loop_head[id(lp)]))
                    except (AnalysisError, KeyError, RecursionError):
                        continue
                    if _set_valued(it_):
                        rep.bad("C17-R4", inst, "draws per element of a set",
                                "%s draws from the generator once per "
                                "element of %s, a set: the elements come in "
                                "hash order, which for ordinary objects and "
                                "strings is not fixed by the arguments, so "
                                "the same call with the same seed gives "
                                "different results" % (
                                    q, unparse(lp.iter)), lp)
                if okr:
                    rep.ok("C17-R4", inst, "all random draws use the RNG "
                           "the caller supplied", fn)
                else:
                    rep.bad("C17-R4", inst, "foreign RNG %s" % unparse(
                        bad.func), "%s draws from %s instead of the "
                        "caller's generator" % (q, unparse(bad.func)), bad)
    # a generator object kept at module level (X = random.Random(...)) and
    # drawn from by a function: its state is what earlier calls left of it,
    # and seeding the global random module no longer pins the results
    for m in mods:
        mod_ = program.modules[m]
        gens = {}
        for st_ in mod_.tree.body:
            if isinstance(st_, ast.Assign) and len(st_.targets) == 1 and \
                    isinstance(st_.targets[0], ast.Name) and \
                    isinstance(st_.value, ast.Call) and \
                    call_name(st_.value)[0] in ("Random", "SystemRandom",
                                                "RandomState", "default_rng"):
                gens[st_.targets[0].id] = st_
        for q, fn in program.functions(m):
            for n in ast.walk(fn):
                if isinstance(n, ast.Call):
                    nm, rc = call_name(n)
                    if nm in RNG_METHODS and rc is not None and \
                            chain(rc) in gens and chain(rc) not in formals(
                                fn):
                        rep.bad("C17-R4", "%s:%s" % (m, q),
                                "module-level generator %s" % chain(rc),
                                "%s draws from %s, a generator object kept "
                                "at module level: its state is left over "
                                "from earlier calls, so equal calls give "
                                "different results and seeding the random "
                                "module does not pin them" % (q, chain(rc)),
                                n)
    # the model objects handed to the place-and-route functions (machine,
    # nets, routing trees): only their constructor and their item-assignment
    # write the instance; a query that stores something on the instance makes
    # later calls depend on earlier ones (and modifies an argument of every
    # function that asks)
    n_q = 0
    for mname, cname in VALUE_CLASSES:
        for q, fn in program.functions(mname):
            if not q.startswith(cname + ".") or q.count(".") != 1:
                continue
            if fn.name in ("__init__", "__new__", "__setitem__",
                           "__delitem__", "__setattr__"):
                continue
            a = fn.args.args
            if not a or a[0].arg != "self":
                continue
            n_q += 1
            writes = []
            for n in ast.walk(fn):
                tgts = n.targets if isinstance(n, ast.Assign) else \
                    [n.target] if isinstance(n, (ast.AugAssign,
                                                 ast.AnnAssign)) else []
                for t in tgts:
                    b_ = t
                    while isinstance(b_, ast.Subscript):
                        b_ = b_.value
                    if isinstance(b_, ast.Attribute) and chain(b_) and \
                            chain(b_).startswith("self."):
                        writes.append(n)
                if isinstance(n, ast.Call) and \
                        isinstance(n.func, ast.Attribute) and \
                        n.func.attr in ("append", "add", "update", "pop",
                                        "remove", "clear", "extend",
                                        "setdefault", "discard", "insert") \
                        and chain(n.func.value) and \
                        chain(n.func.value).startswith("self."):
                    writes.append(n)
            inst = "%s:%s" % (mname, q)
            if writes:
                rep.bad("C17-R2", inst, "query writes the instance: %s" %
                        unparse(writes[0])[:60],
                        "%s stores state on the object it is asked about "
                        "(%s): the answer of a later call depends on "
                        "earlier calls, and every function that takes the "
                        "object as an argument and asks modifies it" % (
                            q, unparse(writes[0])[:80]), writes[0])
            else:
                rep.ok("C17-R2", inst, "the query leaves the instance "
                       "untouched", fn)
    if n_q < 12:
        raise AnalysisError("value classes: only %d query methods found" %
                            n_q)
    # module-level mutable inventory (R2, positive control)
    # instances do not adopt module-level mutable objects: an attribute set
    # to such an object itself (not a copy) is shared by every instance, so
    # editing one instance changes what later calls see
    from ..terms import Terms, alternatives, plain as _plain
    for m in mods:
        mutables = set()
        for st in program.modules[m].tree.body:
            if isinstance(st, ast.Assign) and _mutable_ctor(st.value):
                mutables |= set(t.id for t in st.targets
                                if isinstance(t, ast.Name))
        if not mutables:
            continue
        for q, fn in program.functions(m):
            if q.rsplit(".", 1)[-1] != "__init__":
                continue
            try:
                TI = Terms(fn)
                binds = [b_ for b_ in TI.binds if b_.mode == "assign" and
                         b_.var.startswith("self.") and b_.value is not None]
                for b_ in binds:
                    for alt in alternatives(TI._bind_term(b_)):
                        alt = _plain(alt)
                        if alt[0] == "global" and alt[1] in mutables:
                            rep.bad("C17-R3", "%s:%s" % (m, q),
                                    "shares module-level %s" % alt[1],
                                    "%s stores the module-level mutable %s "
                                    "itself in %s (no copy): every instance "
                                    "built that way shares one object, an "
                                    "edit of one changes the others and "
                                    "later results" % (q, alt[1], b_.var),
                                    b_.node.ast)
            except AnalysisError:
                continue
    inv = []
    for m in mods:
        for st in program.modules[m].tree.body:
            if isinstance(st, ast.Assign) and _mutable_ctor(st.value):
                for t in st.targets:
                    if isinstance(t, ast.Name):
                        inv.append("%s.%s" % (m, t.id))
    rep.note("module-level mutable bindings in scope: %s" % ", ".join(inv))
    rep.note("functions analysed: %d; calls resolved to rig defs: %d, "
             "opaque: %d" % (n_fn, eff.resolved, eff.unresolved))
    # an allow-list entry that matches nothing is a stale table on the tree
    # the rules were confirmed on (an error of the checker); on a changed
    # tree it only means the code no longer does what was excused
    from ..core import _is_reference
    for key in list(ALLOW_MUTATE) + list(ALLOW_ESCAPE):
        if key not in used_allow:
            if _is_reference("C17", program) and \
                    not program.has(key[0]):
                raise AnalysisError("allow-list entry %s no longer matches "
                                    "anything (anchor vanished)" % (key,))
            rep.note("allow-list entry %s matches nothing on this tree" %
                     (key,))
    rep.floor("C17-R1", 400)
    rep.floor("C17-R2", 1)
    rep.floor("C17-R3", 20)
    rep.floor("C17-R4", 5)
    rep.floor("C17-R5", 5)
    # arguments handed to package functions under the wrong name / same-
    # named optional parameters not passed on (NAMELINK, DESIGN.md 9.13)
    from .. import namelink as _nl
    rep.guard("C17-R6", _nl.rule, program, rep, "C17-R6",
              sorted(program.modules))
    # the minimiser's aliases argument (shared default dictionary) and the
    # sets kept in it are not changed in place (C04-R4, run here too)
    from . import C04 as _C04
    rep.guard("C04-R4", _C04.r4_aliases_effects, program, rep)
    # a context keeps a copy of the dictionary it is created with (C18-R1,
    # run here too: controllers are built with shared default dictionaries)
    from . import C18 as _C18
    rep.guard("C18-R1", _C18.r1_context_owns, program, rep)
    return finish(rep, program, EXPLANATION, NOT_DECIDED,
                  trusted=["the transfer functions of effects.py (which "
                           "builtins copy / alias / mutate)",
                           "allow-lists in rules/C17.py (8 symbols, one "
                           "reason each)"],
                  extra=dict(functions_analysed=n_fn,
                             call_sites_resolved=eff.resolved,
                             call_sites_unresolved=eff.unresolved))
