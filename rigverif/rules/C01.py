"""C01 - multicast packets reach exactly the cores of their net's sinks.

Network-wide delivery is not statically decidable here; decided are the
wiring of the pipeline and the agreement of the pieces that must agree for
delivery to be possible at all.

R1 pipeline def-use in both wrappers
R2 one description of the machine feeds model, reservations and table sizes
R3 the router's core routes and the loader's core sets are the same range
R4 the two default-route predicates agree
R6 component necessary conditions re-checked here (delegated rules of C03,
   C04 and C10 that a broken delivery would violate)
"""
import ast

from ..core import AnalysisError, finish, unparse
from ..dataflow import Flow, chain, call_name
from ..terms import Terms, subterms, owner_terms, plain, match, V, ANY, \
    show, alternatives
from ..util import calls_in, qual, formals, returns_of, has_fact

WR = "rig.place_and_route.wrapper"
PU = "rig.place_and_route.utils"
NER = "rig.place_and_route.route.ner"
RD = "rig.routing_table.remove_default_routes"
UT = "rig.routing_table.utils"

EXPLANATION = (
    "R1/R2: reaching-definition identity over both wrappers: the value "
    "returned by place is the placements actual of allocate, route and "
    "build_application_map; allocate's result is the allocations actual of "
    "route and build_application_map; route's result and net_keys feed the "
    "table generator, whose result feeds minimise_tables, whose result is "
    "what is returned; one machine and one augmented constraint list reach "
    "all three stages; the 4-tuple is returned in the documented order; the "
    "same system_info builds the machine, the core reservations and the "
    "table target lengths. R3: the router and the loader iterate "
    "range(X.start, X.stop) over the same allocation slice X. R4: the "
    "predicate under which an entry is removed as default-routable and the "
    "predicate under which a missing entry is accepted as default-routed "
    "contain the same five conditions. R6: the delegated component rules.")
EXPLANATION += (
    " R3 also requires the argument of each Routes.core(...) to be the "
    "element of the loop over the allocation; C10-R1's constructor rule "
    "(copies stored unchanged) is re-run.")
NOT_DECIDED = [
    "that the composed placer -> router -> tables -> minimiser delivers "
    "every packet exactly once on every machine / fault map (quantifies "
    "over the contents of runtime graphs)",
    "absence of cross-chip interactions between minimised tables and "
    "upstream default routing",
]


def _same_defs(fl, name, n1, n2):
    return [d.id for d in fl.reaching(name, n1)] == \
        [d.id for d in fl.reaching(name, n2)]


def r1_pipeline(program, rep):
    """The wiring of the stages, on value terms: which value each stage is
    handed (the result of which other stage, which argument of the wrapper),
    whatever the locals are called."""
    for fname, table_fn in (("place_and_route_wrapper",
                             "routing_tree_to_tables"),
                            ("wrapper", "build_routing_tables")):
        fn = program.get("%s:%s" % (WR, fname))
        inst = qual(fn)
        T = Terms(fn)
        cfg = T.cfg
        ps = formals(fn)
        P = lambda n: ("param", n)      # noqa: E731

        def one(name):
            cs = [c for c in calls_in(fn, name)
                  if isinstance(c.func, ast.Name)]
            if len(cs) != 1:
                raise AnalysisError("%s: expected one call of %s" % (fname,
                                                                    name))
            n_ = cfg.node_containing(cs[0])
            return cs[0], n_, T.term(cs[0], n_), [T.term(a_, n_)
                                                  for a_ in cs[0].args]
        cp, np_, PLACED, ap = one("place")
        ca, na, ALLOC, aa = one("allocate")
        cr, nr, ROUTES, ar = one("route")
        cm, nm, AMAP, am_ = one("build_application_map")
        ct, nt, TABLES, at = one(table_fn)

        def arg(a, i):
            return a[i] if len(a) > i else None
        ok = arg(aa, 4) == PLACED and arg(ar, 4) == PLACED and \
            arg(am_, 1) == PLACED
        rep.check(ok, "C01-R1", inst, "the placement returned by place() is "
                  "the placement given to allocate(), route() and "
                  "build_application_map()", construct="placements flow",
                  node=fn,
                  fail="allocate / route / build_application_map do not all "
                       "receive the very placement place() returned")
        ok = arg(ar, 5) == ALLOC and arg(am_, 2) == ALLOC
        rep.check(ok, "C01-R1", inst, "the allocation returned by "
                  "allocate() is the one given to route() (core routes) and "
                  "build_application_map() (cores loaded)",
                  construct="allocations flow", node=fn,
                  fail="route() and build_application_map() do not both "
                       "receive the allocation allocate() returned: cores "
                       "routed to and cores loaded can differ")
        ok = arg(at, 0) == ROUTES and arg(at, 1) == P(ps[3])
        rep.check(ok, "C01-R1", inst, "the trees returned by route() and "
                  "the caller's net_keys feed the table generator",
                  construct="routes flow", node=fn)
        # one graph, one machine, one constraint list
        ok = all(arg(a, 0) == P(ps[0]) and arg(a, 1) == P(ps[2])
                 for a in (ap, aa, ar)) and \
            arg(ap, 2) is not None and \
            arg(ap, 2) == arg(aa, 2) == arg(ar, 2) and \
            arg(ap, 3) is not None and \
            arg(ap, 3) == arg(aa, 3) == arg(ar, 3)
        rep.check(ok, "C01-R1", inst, "place, allocate and route all work on "
                  "the same graph, the same machine and the same (augmented) "
                  "constraint list", construct="shared inputs", node=fn,
                  fail="the three stages do not receive one and the same "
                       "machine / constraint list: a reservation can bind "
                       "the placer but not the allocator")
        CRES = P("core_resource")
        ok = "core_resource" in ps and arg(ar, 6) == CRES and \
            arg(am_, 3) == CRES and arg(am_, 0) == P(ps[1])
        rep.check(ok, "C01-R1", inst, "the caller's core resource selects "
                  "both the cores routed to and the cores loaded; "
                  "vertices_applications feeds the application map",
                  construct="core resource flow", node=fn)
        rets = returns_of(fn)
        ok = len(rets) == 1 and isinstance(rets[0].value, ast.Tuple)
        if ok:
            rn = cfg.node_of(rets[0])
            rt = [T.term(e, rn) for e in rets[0].value.elts]
            ok = len(rt) == 4 and rt[:3] == [PLACED, ALLOC, AMAP]
            if ok and fname == "place_and_route_wrapper":
                cmin, nmin, MIN, amin = one("minimise_tables")
                TL = ("callv", ("global",
                                "build_routing_table_target_lengths"),
                      (P(ps[4]),), ())
                ok = rt[3] == MIN and arg(amin, 0) == TABLES and \
                    arg(amin, 2) == P("minimise_tables_methods") and \
                    arg(amin, 1) is not None and \
                    plain(arg(amin, 1)) == plain(TL)
            elif ok:
                ok = rt[3] == TABLES
        rep.check(ok, "C01-R1", inst, "returns (placements, allocations, "
                  "application_map, routing_tables) - the final "
                  "(minimised) tables", construct="result tuple", node=fn,
                  fail="the returned 4-tuple is not (placements, "
                       "allocations, application_map, final routing "
                       "tables) of this run")
    rep.floor("C01-R1", 12)


def r2_description(program, rep):
    fn = program.get(WR + ":place_and_route_wrapper")
    inst = qual(fn)
    T = Terms(fn)
    ps = formals(fn)
    P = lambda n: ("param", n)      # noqa: E731
    SI = P(ps[4])
    pl = [c for c in calls_in(fn, "place") if isinstance(c.func, ast.Name)]
    if len(pl) != 1:
        raise AnalysisError("place_and_route_wrapper: one place() call")
    n = T.cfg.node_containing(pl[0])
    MACH = plain(T.term(pl[0].args[2], n)) if len(pl[0].args) > 3 else None
    CONS = plain(T.term(pl[0].args[3], n)) if len(pl[0].args) > 3 else None
    ok = MACH is not None and MACH[0] == "call" and \
        MACH[1] == ("global", "build_machine")
    if ok:
        # actuals against build_machine's own parameter list (positional or
        # by keyword)
        bm = program.get("rig.place_and_route.utils:build_machine")
        names = formals(bm)
        got = dict(zip(names, MACH[2]))
        ok = len(MACH[2]) <= len(names) and not (set(got) & set(
            k for k, v in MACH[3]))
        got.update(dict(MACH[3]))
        ok = ok and got == {names[0]: SI,
                            "core_resource": P("core_resource"),
                            "sdram_resource": P("sdram_resource"),
                            "sram_resource": P("sram_resource")}
    BUSY = ("call", ("global", "build_core_constraints"),
            (SI, P("core_resource")), ())
    rep.check(ok, "C01-R2", inst, "the machine model and the busy-core "
              "reservations are both derived from the caller's system_info "
              "with the caller's resource identifiers",
              construct="model sources", node=fn)
    ok = CONS is not None and CONS[0] == "binop" and CONS[1] == "Add" and \
        sorted([CONS[2], CONS[3]], key=repr) == sorted(
            [BUSY, P("constraints")], key=repr)
    rep.check(ok, "C01-R2", inst, "the reservations of busy cores are added "
              "to the caller's constraints before any stage runs",
              construct="constraints augmented", node=fn,
              fail="the busy-core reservations are not concatenated into "
                   "the constraint list the stages receive: vertices can "
                   "be put on cores that are in use")
    fn2 = program.get(WR + ":wrapper")
    T2 = Terms(fn2)
    pl2 = [c for c in calls_in(fn2, "place") if isinstance(c.func, ast.Name)]
    if len(pl2) != 1 or len(pl2[0].args) < 4:
        raise AnalysisError("wrapper: one place() call")
    n2 = T2.cfg.node_containing(pl2[0])
    C2 = T2.term(pl2[0].args[3], n2)
    N_ = ("const", None)
    ok = plain(C2) == ("item", P("constraints"), ("slice", N_, N_, N_))
    from ..terms import method_calls as _mc
    apps = [plain(x[3][0]) for x in _mc(T2, "append")
            if x[2] == C2 and len(x[3]) == 1]
    want = [("call", ("global", "ReserveResourceConstraint"),
             (P("core_resource"), ("call", ("global", "slice"),
                                   (("const", 0), ("const", 1)), ())), ()),
            ("call", ("global", "AlignResourceConstraint"),
             (P("sdram_resource"), ("const", 4)), ())]
    ok = ok and all(w in apps for w in want)
    rep.check(ok, "C01-R2", qual(fn2), "the old wrapper reserves the "
              "monitor core and word-aligns SDRAM on a copy of the "
              "caller's constraints", construct="old wrapper constraints",
              node=fn2)


def _core_range(T, fn):
    """(range call, term of the slice X in range(X.start, X.stop)) for the
    only such range in ``fn`` (nested helpers included)."""
    found = []
    for c in ast.walk(fn):
        if isinstance(c, ast.Call) and isinstance(c.func, ast.Name) and \
                c.func.id == "range" and len(c.args) == 2:
            view = owner_terms(T, c)
            env = _comp_env(view, c)
            n = view.cfg.node_containing(c)
            lo, hi = [view.term(a, n, env) for a in c.args]
            if lo[0] == "attr" and lo[2] == "start" and hi[0] == "attr" \
                    and hi[2] == "stop" and lo[1] == hi[1]:
                found.append((c, plain(lo[1])))
        elif isinstance(c, ast.Call) and isinstance(c.func, ast.Name) and \
                c.func.id == "range" and len(c.args) == 1:
            # range(X.stop - X.start): the offsets from X.start
            view = owner_terms(T, c)
            env = _comp_env(view, c)
            n = view.cfg.node_containing(c)
            m_ = match(("binop", "Sub", ("attr", V("x"), "stop"),
                        ("attr", V("x"), "start")),
                       plain(view.term(c.args[0], n, env)))
            if m_ is not None:
                found.append((c, m_["x"]))
    if len(found) != 1:
        raise AnalysisError("%s: core range not found" % fn.name)
    return found[0]


def _loop_of_range(c):
    """The for statement / comprehension whose iterable is the call ``c``."""
    p = getattr(c, "_parent", None)
    while p is not None and not isinstance(p, (
            ast.For, ast.ListComp, ast.SetComp, ast.GeneratorExp,
            ast.DictComp, ast.FunctionDef)):
        p = getattr(p, "_parent", None)
    return p


def _inside_node(node, anc):
    while node is not None:
        if node is anc:
            return True
        node = getattr(node, "_parent", None)
    return False


def _comp_env(view, expr):
    env = {}
    comps = []
    p = getattr(expr, "_parent", None)
    while p is not None and not isinstance(p, (ast.FunctionDef,
                                               ast.AsyncFunctionDef)):
        if isinstance(p, (ast.ListComp, ast.SetComp, ast.GeneratorExp,
                          ast.DictComp)):
            comps.append(p)
        p = getattr(p, "_parent", None)
    t = getattr(view, "t", view)
    for comp in reversed(comps):
        n = t.cfg.node_containing(comp)
        for g in comp.generators:
            it = t.term(g.iter, n, env)
            t._bind_target(g.target, t._elem(it), env)
    return env


def tree_per_net(program, rep):
    """Every net gets a tree of its own, grown from its own source (also
    run by C03: a tree shared between nets collects both nets' leaves)."""
    rt = program.get(NER + ":route")
    TR = Terms(rt)
    P = lambda n: ("param", n)      # noqa: E731
    NET = ("elem", P("nets"))
    okt = False
    detail = ""
    for n in TR.cfg.nodes:
        st = n.ast
        if n.kind == "stmt" and isinstance(st, ast.Assign) and \
                len(st.targets) == 1 and \
                isinstance(st.targets[0], ast.Subscript):
            tgt = TR.term(st.targets[0], n)
            if tgt[0] != "item" or tgt[2] != NET:
                continue
            rets = [TR.term(r.value) for r in returns_of(rt)
                    if r.value is not None]
            if tgt[1] not in rets:
                continue
            okt = True
            for alt in alternatives(TR.term(st.value, n)):
                alt = plain(alt)
                m = match(("comp", ("call", ("global", V("f")), V("args"),
                                    V("kw")), 0), alt)
                if m is None or m["f"] not in ("ner_net",
                                               "avoid_dead_links"):
                    # a tree taken out of a container (a cache keyed by the
                    # endpoints, say) is an object made for another net;
                    # anything else is a form not read here
                    head = alt[1] if alt[0] == "comp" else alt
                    if head[0] not in ("get", "item"):
                        raise AnalysisError("route: the tree stored for a "
                                            "net is produced by %s, a form "
                                            "these rules do not read" %
                                            show(alt)[:60])
                    okt = False
                    detail = show(alt)
                elif m["f"] == "ner_net" and (not m["args"] or plain(
                        m["args"][0]) != ("item", P("placements"),
                                          ("attr", NET, "source"))):
                    okt = False
                    detail = "tree not grown from the net's source"
    if not okt and not detail:
        raise AnalysisError("route: where the tree of a net is stored in "
                            "the result was not found")
    rep.check(okt, "C01-R3", qual(rt), "each net's tree is generated for "
              "that net (from the chip of its own source) in the iteration "
              "that stores it: no tree object is shared between nets",
              construct="tree per net", node=rt,
              fail="the tree stored for a net may be an object obtained "
                   "elsewhere (%s): sink routes added for one net then "
                   "appear in another net's tree" % detail)


def r3_cores(program, rep):
    rt = program.get(NER + ":route")
    am = program.get(PU + ":build_application_map")
    TR, TA = Terms(rt), Terms(am)
    c1, x1 = _core_range(TR, rt)
    c2, x2 = _core_range(TA, am)
    P = lambda n: ("param", n)      # noqa: E731
    m1 = match(("get", ("get", P("allocations"), V("sink"), ANY),
                P("core_resource")), x1)
    ok1 = m1 is not None and m1["sink"] == (
        "elem", ("attr", ("elem", P("nets")), "sinks"))
    rep.check(ok1, "C01-R3", qual(rt), "the router emits one core route "
              "for each core in [X.start, X.stop) of the sink's own "
              "allocation of the core resource",
              construct="router core range %s" % show(x1), node=c1)
    # ... and the core named by each route is the loop's own element
    for c in calls_in(rt, "core"):
        if not _inside_node(c, _loop_of_range(c1)):
            continue
        view = owner_terms(TR, c)
        env = _comp_env(view, c)
        n = view.cfg.node_containing(c)
        E = plain(view.term(c.args[0], n, env)) if len(c.args) == 1 else None
        Xs, Xe = ("attr", x1, "start"), ("attr", x1, "stop")
        R2 = ("elem", ("call", ("global", "range"), (Xs, Xe), ()))
        R1 = ("elem", ("call", ("global", "range"),
                       (("binop", "Sub", Xe, Xs),), ()))
        good = E is not None and (E == R2 or E in (
            ("binop", "Add", Xs, R1), ("binop", "Add", R1, Xs)))
        if not good and E is not None and any(
                st_[0] == "elem" and st_[1][0] == "call" and
                st_[1][1] == ("global", "range") for st_ in subterms(E)) \
                and E not in (R1, R2):
            raise AnalysisError("route: the core number of a core route is "
                                "computed from the loop variable in a form "
                                "that is not analysed")
        rep.check(good, "C01-R3", qual(rt), "each core route names the "
                  "core the loop over the allocation has reached",
                  construct="core route argument %s" % (
                      show(E) if E is not None else "?"), node=c,
                  fail="the core routes added for a sink do not name the "
                       "cores start .. stop-1 of its allocation one by one "
                       "(the route's core is %s): some allocated cores "
                       "never receive the net's packets" % (
                           show(E) if E is not None else "?"))
    VERT = ("comp", ("elem", ("items", P("vertices_applications"))), 0)
    m2 = match(("get", ("item", P("allocations"), V("v")),
                P("core_resource"), V("dflt")), x2)
    ok2 = m2 is not None and m2["v"] == VERT
    rep.check(ok2, "C01-R3", qual(am), "the loader map takes the "
              "cores in [X.start, X.stop) of the vertex's own allocation of "
              "the core resource", construct="loader core range %s" %
              show(x2), node=c2)
    tree_per_net(program, rep)
    rep.check(ok1 and ok2, "C01-R3", "router/loader", "both use the same "
              "half-open interval of the same allocation slice: the cores "
              "packets are delivered to are the cores the binary is loaded "
              "on", construct="core set agreement",
              fail="the router and the loader do not iterate the same "
                   "range of the allocation slice")
    ok = False
    for c in calls_in(am, "update") + calls_in(am, "add"):
        n = TA.cfg.node_containing(c)
        recv = TA.term(c.func.value, n)
        APP = ("comp", ("elem", ("items", P("vertices_applications"))), 1)
        want = ("item", ("item", V("map"), APP),
                ("item", P("placements"), VERT))
        if match(want, recv) is not None and c.args and \
                TA.term(c.args[0], n) == TA.term(c2, n):
            ok = True
    rep.check(ok, "C01-R3", qual(am), "cores are filed under the vertex's "
              "application and the chip it was placed on",
              construct="application map keys", node=am)


def _conds(fl, node):
    return set((unparse(c), p) for c, p, _ in fl.facts(node))


def r4_default_predicates(program, rep):
    """The remover and the equivalence checker must agree on what 'default
    routed' means; both are judged on canonical facts (terms.py), so the
    way the conditions are nested, negated or staged does not matter."""
    from .C04 import straight_through, STRAIGHT, _true_returns
    a = program.get(RD + ":_is_defaultable")
    TA = Terms(a)
    ENT = ("param", formals(a)[1])
    missing = set()
    trues = _true_returns(TA, a)
    if not trues:
        raise AnalysisError("default-route predicates not found")
    for r, n, facts, extra in trues:
        missing |= set(STRAIGHT) - straight_through(facts, ENT)
    rep.check(not missing, "C01-R4", qual(a), "an entry is removed as "
              "default-routable only under: %s" % STRAIGHT,
              construct="remove predicate %s" % sorted(missing), node=a)
    b = program.get(UT + ":table_is_subset_of")
    TB = Terms(b)
    # the places where a key of table A that matches nothing in table B is
    # accepted: every way of not returning False once the scan of B found
    # no match
    accept = []
    for n in TB.cfg.nodes:
        if n.kind == "stmt" and isinstance(n.ast, ast.Assign) and \
                isinstance(n.ast.value, ast.Constant) and \
                n.ast.value.value is True:
            accept.append(n)
    if not accept:
        # written without a flag: the accepting paths are those that reach
        # the next iteration after the inner loop was exhausted
        raise AnalysisError("table_is_subset_of: acceptance of a "
                            "default-routed key not found")
    missing_b = set()
    for n in accept:
        facts = TB.all_facts(n)
        ents = set()
        for t, p in facts:
            for st in subterms(t):
                if st[0] == "attr" and st[2] in ("route", "sources"):
                    ents.add(plain(st[1]))
        best = set(STRAIGHT)
        for e in ents:
            miss = set(STRAIGHT) - straight_through(facts, e)
            if len(miss) < len(best):
                best = miss
        missing_b |= best
    rep.check(not missing_b, "C01-R4", qual(b), "a missing entry is accepted "
              "as default-routed only under the same five conditions",
              construct="accept predicate %s" % sorted(missing_b), node=b,
              fail="table_is_subset_of accepts a missing entry as "
                   "default-routed without requiring %s" % sorted(missing_b))


def r6_components(program, rep):
    from . import C03, C04, C10
    rep.guard("C10-R1", C10.r1_tables, program, rep)
    rep.guard("C10-R1", C10.r1_entry_ctor, program, rep)
    # the stages are handed the caller's own objects one after the other:
    # none of the placement helpers may re-write them in place (C17-R1)
    from . import C17
    rep.guard("C17-R1", C17.r1_for, program, rep,
              ["rig.place_and_route.place.utils",
               "rig.place_and_route.wrapper"])
    rep.guard("C04-R2", C04.r2_default, program, rep)
    rep.guard("C04-R3", C04.r3_ranges, program, rep)
    rep.guard("C04-R3", C04.r3_upcheck_all_members, program, rep)
    rep.guard("C04-R3", C04.r3_changed_flag, program, rep)
    rep.guard("C04-R5", C04.r5_contract, program, rep)
    # alias records of one minimisation never reach another (a stale record
    # lets a later table accept a merge that covers a live entry)
    rep.guard("C04-R4", C04.r4_aliases_effects, program, rep)
    rep.guard("C03-R2", C03.r2_repair, program, rep)
    rep.guard("C03-R5", C03.r5_reconnect, program, rep)
    rep.guard(["C03-R3", "C03-R4"], C03.r3_growth, program, rep)
    rep.guard("C03-R3", C03.r3_copy, program, rep)
    rep.guard("C03-R1", C03.r1_leaves, program, rep)
    rep.guard("C03-R1", C03.r1_neighbour, program, rep)
    rep.note("R6 re-runs C10-R1, C04-R2, C04-R3, C04-R5, C03-R3/R4/R5 "
             "(reported under their own rule names): a tree-to-table, "
             "default-route, covering-range, front-end or repair defect "
             "breaks delivery")


def r2_monitor_reservation(program, rep):
    """wrapper(reserve_monitor=True) reserves core 0 on EVERY chip: the
    global reservation is added whenever the flag is set, or left out only
    because the caller's constraints already hold a global reservation of
    that very range (one for a particular chip does not stand in for it)."""
    from ..terms import method_calls
    fn = program.get(WR + ":wrapper")
    inst = qual(fn)
    T = Terms(fn)
    P = lambda n: ("param", n)      # noqa: E731
    want = ("call", ("global", "ReserveResourceConstraint"),
            (P("core_resource"), ("call", ("global", "slice"),
                                  (("const", 0), ("const", 1)), ())), ())
    sites = [(n, c) for n, c, recv, args in method_calls(T, ["append"])
             if len(args) == 1 and plain(args[0]) == want]
    if len(sites) != 1:
        raise AnalysisError("wrapper: the monitor reservation is not added "
                            "by one append of ReserveResourceConstraint("
                            "core_resource, slice(0, 1))")
    n, c = sites[0]
    facts = [(plain(t), p) for t, p in T.all_facts(n)]
    ok = (P("reserve_monitor"), True) in facts
    rest = [(t, p) for t, p in facts if (t, p) != (P("reserve_monitor"),
                                                   True)]
    why = ""
    for t, p in rest:
        if not p and t[0] == "call" and t[1] == ("global", "any") and \
                len(t[2]) == 1 and t[2][0][0] == "genexp":
            body = t[2][0][1]
            conj = list(body[1:]) if body[0] == "and" else [body]
            glob = any(cj[0] == "cmp" and cj[1] in ("Is", "Eq") and
                       ("const", None) in (cj[2], cj[3]) and any(
                           st[0] == "attr" and st[2] == "location"
                           for st in subterms(cj)) for cj in conj)
            if not glob:
                ok = False
                why = "it is left out when the caller's constraints " \
                    "hold a reservation of that range whatever its " \
                    "location: one for a single chip silences the " \
                    "reservation for all the others, whose core 0 is then " \
                    "handed to vertices"
        else:
            raise AnalysisError("wrapper: the monitor reservation is added "
                                "under a condition that is not read (%s)" %
                                show(t)[:60])
    rep.check(ok, "C01-R2", inst, "reserve_monitor adds a global "
              "reservation of core 0 (or finds one already there)",
              construct="monitor reservation", node=c,
              fail="the global reservation of the monitor core is not "
                   "added whenever reserve_monitor is set: " + why)


r2_monitor_reservation.helper_aware = True


def check(program, rep):
    program.module(WR)
    rep.guard("C01-R1", r1_pipeline, program, rep)
    rep.guard("C01-R2", r2_description, program, rep)
    rep.guard("C01-R2", r2_monitor_reservation, program, rep)
    rep.guard("C01-R3", r3_cores, program, rep)
    rep.guard("C01-R4", r4_default_predicates, program, rep)
    r6_components(program, rep)
    # arguments handed to package functions under the wrong name / same-
    # named optional parameters not passed on (NAMELINK, DESIGN.md 9.13)
    from .. import namelink as _nl
    rep.guard("C01-R7", _nl.rule, program, rep, "C01-R7",
              [m for m in sorted(program.modules) if m.startswith("rig.place_and_route")] + [m for m in sorted(program.modules) if m.startswith("rig.routing_table")])
    return finish(rep, program, EXPLANATION, NOT_DECIDED,
                  trusted=["the stage signatures (vertices_resources, nets, "
                           "machine, constraints, placements, allocations, "
                           "core_resource) as documented"])
