"""C05 - allocated resource ranges are exact, in range, aligned, disjoint and
unreserved.

R1 helpers are what they say (slices_overlap by ORDTYPE, align by FM)
R2 the accepted proposal is clean w.r.t. both reservation sources, inside the
   chip's own range, of the exact size, aligned
R3 bump pointer => disjointness; pointers are per chip and per resource
R4 only the documented failure
"""
import ast

from ..core import AnalysisError, finish, unparse
from ..dataflow import Flow, chain, call_name
from ..ordtype import evaluate_all, Ordering
from ..poly import Poly, le, lt, eq
from ..pathstate import Paths, Client
from ..terms import Terms, plain, show, match, V, subterms, mk_cmp, \
    is_none, stores, method_calls, owner_views, SITES, alternatives
from ..util import calls_in, qual, formals, has_fact, raises_of, raise_name, \
    returns_of

AL = "rig.place_and_route.allocate"
FN = AL + ".greedy:allocate"

EXPLANATION = (
    "R1: slices_overlap is evaluated abstractly on all 75 weak orderings of "
    "its four endpoints and equals 'half-open ranges intersect'; align is "
    "proved (Fourier-Motzkin, floor-division axioms for a divisor >= 1) to "
    "return a multiple of the alignment with value <= result <= value + "
    "alignment - 1. R2/R3: dominance and must-pass-through facts over "
    "allocate's CFG: the slice stored is the last proposal; it is slice(s, s "
    "+ requirement) with s = align(pointer, alignment) of the same resource; "
    "the loop exits only with the overlap flag false, which is set true on "
    "every path where slices_overlap(proposal, r) holds, for the global list "
    "of that resource and the local list of that chip and resource, and "
    "never overwritten otherwise; the bound test against machine[xy]"
    "[resource] dominates the exit; afterwards pointer := proposal.stop; "
    "pointers are re-created per chip.")
EXPLANATION += (
    " R4 also checks the machine model the bound is read from: "
    "Machine.__getitem__ is <exceptions>.get(xy, <defaults>) and "
    "__setitem__ stores under that key on every normal path. R2 recognises "
    "dict(global).update(chip table) as replacing, not concatenating, the "
    "lists scanned.")
NOT_DECIDED = [
    "'always succeeds on a feasible placement without alignment and with "
    "reservations only at the ends' (completeness of the greedy scan)",
    "termination of the retry loop when reservations interleave (the pointer "
    "moves to reservation.stop, which may move it backwards)",
]


def r1_helpers(program, rep):
    fn = program.get(AL + ".utils:slices_overlap")
    inst = qual(fn)
    a, b = formals(fn)
    terms = ["a0", "a1", "b0", "b1"]

    def bindings(o):
        T = {t: Poly.atom(t) for t in terms}
        return {"%s.start" % a: T["a0"], "%s.stop" % a: T["a1"],
                "%s.start" % b: T["b0"], "%s.stop" % b: T["b1"],
                "%s.step" % a: None, "%s.step" % b: None}

    def spec(o):
        r = o.rank
        # half-open [a0,a1) and [b0,b1) share a point
        return (r["a0"] < r["a1"] and r["b0"] < r["b1"] and
                r["a0"] < r["b1"] and r["b0"] < r["a1"])
    n, bad = evaluate_all(fn, terms, bindings, spec, integer=True)
    rep.assume("the endpoints of resource ranges are integers (x < y is "
               "x <= y - 1)")
    rep.check(not bad, "C05-R1", inst,
              "slices_overlap(a, b) == ([a.start,a.stop) and [b.start,b.stop) "
              "share a point) on all %d weak orderings of the four endpoints "
              "(adjacent and empty ranges do not overlap)" % n,
              construct="slices_overlap orderings", node=fn,
              fail="slices_overlap disagrees with half-open intersection on "
                   "%d of %d endpoint orderings, e.g. ranks (a.start, a.stop, "
                   "b.start, b.stop) = %s gives %s" % (
                       len(bad), n, bad[0][0] if bad else "",
                       bad[0][1] if bad else ""))
    rep.note("ORDTYPE: %d weak orderings of 4 endpoints evaluated" % n)
    fn = program.get(AL + ".utils:align")
    inst = qual(fn)
    v, al = formals(fn)
    fl = Flow(fn)
    fl.positive.add(al)
    rets = returns_of(fn)
    if len(rets) != 1:
        raise AnalysisError("align: expected one return")
    node = fl.cfg.node_of(rets[0])
    # by cases when the result is the quotient, plus one if there is a
    # remainder (a merged value)
    from ..casesplit import remainder_cases, sym_term
    TAc = Terms(fn)
    cases_ = remainder_cases(TAc, fl, rets[0].value,
                             TAc.cfg.node_of(rets[0]), node)
    if cases_ is not None and len(cases_) == 2:
        V_, A_ = Poly.atom(v), Poly.atom(al)
        okm_, okb_ = True, True
        for extra_, tv_ in cases_:
            r_ = sym_term(fl, tv_, node)
            okm_ = okm_ and bool(r_.t) and all(
                al in m_ for m_ in r_.t if m_ != ()) and () not in r_.t
            okb_ = okb_ and fl.prove(node, [le(V_, r_), le(r_, V_ + A_ - 1)],
                                     extra=extra_, use_facts=False)
        rep.check(okm_, "C05-R1", inst, "align returns alignment * <integer>",
                  construct="align multiple (by cases)", node=fn)
        rep.check(okb_, "C05-R1", inst, "value <= align(value, alignment) "
                  "<= value + alignment - 1 for every alignment >= 1",
                  construct="align bounds (by cases)", node=fn,
                  fail="cannot prove value <= align(value, alignment) <= "
                       "value + alignment - 1 in both cases of the "
                       "remainder test")
        rep.assume("alignments are >= 1")
        return
    # (through the value term of the result, so that temporaries and
    # divmod(...) read like the // they stand for)
    from ..terms import reify as _reify, plain as _plain
    try:
        TA = Terms(fn)
        e_ = _reify(_plain(TA.term(rets[0].value,
                                   TA.cfg.node_of(rets[0]))))
        for n_ in ast.walk(e_):
            for c_ in ast.iter_child_nodes(n_):
                c_._parent = n_
        ast.fix_missing_locations(e_)
        res = fl.sym(e_, fl.cfg.entry)
    except AnalysisError:
        res = fl.sym(rets[0].value, node)
    V, A = Poly.atom(v), Poly.atom(al)
    mult = bool(res.t) and all(al in m for m in res.t if m != ()) and \
        () not in res.t
    rep.check(mult, "C05-R1", inst, "align returns alignment * <integer>",
              construct="align multiple %r" % (res,), node=fn)
    import re as _re
    if any(_re.match(r"^[A-Za-z_][\w.]*[@#]\d+$", a_) for m_ in res.t
           for a_ in m_):
        raise AnalysisError("align: the value returned (%r) is computed "
                            "through something these rules do not read" %
                            (res,))
    ok = fl.prove(node, [le(V, res), le(res, V + A - 1)], use_facts=False)
    rep.check(ok, "C05-R1", inst, "value <= align(value, alignment) <= value "
              "+ alignment - 1 for every alignment >= 1",
              construct="align bounds %r" % (res,), node=fn,
              fail="cannot prove value <= %r <= value + alignment - 1" %
                   (res,))
    rep.assume("alignments are >= 1")


def _kn(t):
    """The term with call sites and attribute versions dropped but
    allocation sites kept (two containers created by the same expression at
    different places stay different)."""
    if not isinstance(t, tuple):
        return t
    if t and t[0] == "new":
        return ("new", t[1], _kn(t[2]))
    if t and t[0] == "attrv":
        return ("attr", _kn(t[1]), t[2])
    if t and t[0] == "callv":
        return ("call",) + tuple(_kn(x) for x in t[1:4])
    if t and t[0] == "const":
        return t
    return tuple(_kn(x) for x in t)


def _inside(node, anc):
    n = node
    while n is not None:
        if n is anc:
            return True
        n = getattr(n, "_parent", None)
    return False


def _entry(t):
    """(container, key) of a mapping read d[k] / d.get(k[, default])."""
    if t[0] == "item" and t[2][0] != "slice":
        return t[1], t[2]
    if t[0] == "get" and len(t) in (3, 4):
        return t[1], t[2]
    if t[0] in ("call", "callv") and t[1][0] == "attr" and \
            t[1][2] == "setdefault" and len(t[2]) == 2:
        return t[1][1], t[2][0]
    return None


class _Model(object):
    """The roles of allocate()'s values, read off its own data flow."""

    def __init__(self, program, fn):
        self.fn = fn
        T = self.T = Terms(fn)
        ps = formals(fn)
        self.ps = ps
        VR, MACHINE, CONS, PLACE = (("param", ps[0]), ("param", ps[2]),
                                    ("param", ps[3]), ("param", ps[4]))
        rets = [r for r in returns_of(fn) if r.value is not None]
        if len(rets) != 1:
            raise AnalysisError("allocate: expected one return")
        self.A = A = _kn(T.term(rets[0].value))
        if A[0] != "new":
            raise AnalysisError("allocate: the map returned is not created "
                                "here")
        st = [(n, s_, _kn(b), _kn(k), _kn(v))
              for n, s_, b, k, v in stores(T)]
        self.stores = st
        per_vertex = [x for x in st if x[2] == A]
        if len(per_vertex) != 1:
            raise AnalysisError("allocate: expected one store into the "
                                "allocation map")
        self.vstore = per_vertex[0]
        VERTEX, X = per_vertex[0][3], per_vertex[0][4]
        self.VERTEX = VERTEX
        self.commits = [x for x in st if x[2] == X or
                        x[2] == ("item", A, VERTEX)]
        if not self.commits or X[0] != "new":
            raise AnalysisError("allocate: the per-vertex map is not filled "
                                "here")
        self.X = X
        RES = self.commits[0][3]
        if not all(c[3] == RES for c in self.commits) or RES[0] != "comp" \
                or RES[2] != 0:
            raise AnalysisError("allocate: the key of the committed range")
        self.RES = RES
        E = RES[1]
        self.REQ = ("comp", E, 1)
        self.want_E = ("items", ("item", VR, VERTEX))
        # chips and their vertices
        if not (VERTEX[0] == "elem" and VERTEX[1][0] == "comp" and
                VERTEX[1][2] == 1):
            raise AnalysisError("allocate: the vertices of a chip")
        Ecc = VERTEX[1][1]
        self.Ecc = Ecc
        self.XY = ("comp", Ecc, 0)
        CC = Ecc[1][1] if Ecc[0] == "elem" and Ecc[1][0] == "items" else None
        if CC is None or CC[0] != "new":
            raise AnalysisError("allocate: the chip contents map")
        self.CC = CC
        self.CAP = ("item", ("item", MACHINE, self.XY), RES)
        # the proposal
        props = []
        for b_ in T.binds:
            if b_.mode != "assign":
                continue
            v = _kn(T._bind_term(b_))
            if v[0] == "call" and v[1] == ("global", "slice") and \
                    v not in props:
                props.append(v)
        if len(props) != 1:
            raise AnalysisError("allocate: expected one slice(...) proposal")
        self.P = props[0]
        # reservation tables
        Ec = ("elem", CONS)
        self.G = self.L = None
        self.stale = False
        self.fill = []
        self.dropped = []
        # a reservation offered only as the default of setdefault() is lost
        # when the key is already there
        for c in ast.walk(fn):
            if isinstance(c, ast.Call) and \
                    isinstance(c.func, ast.Attribute) and \
                    c.func.attr == "setdefault" and len(c.args) == 2:
                try:
                    n = T.cfg.node_containing(c)
                    dflt = _kn(T.term(c.args[1], n))
                except AnalysisError:
                    continue
                if any(x == ("attr", Ec, "reservation")
                       for x in subterms(dflt)):
                    used = getattr(c, "_parent", None)
                    if not (isinstance(used, ast.Attribute) and
                            used.attr in ("append", "extend")):
                        self.dropped.append(c)
        for n, c, recv, args in method_calls(T, "append"):
            recv, args = _kn(recv), [_kn(x) for x in args]
            if args != [("attr", Ec, "reservation")]:
                continue
            f = [(plain(t), p_) for t, p_ in T.all_facts(n)]
            isres = (("call", ("global", "isinstance"),
                      (Ec, ("global", "ReserveResourceConstraint")), ()),
                     True) in f
            glob = (is_none(("attr", Ec, "location")), True) in f
            loc = (is_none(("attr", Ec, "location")), False) in f
            e1 = _entry(recv)
            if e1 is None or not isres:
                continue
            if glob and e1[1] == ("attr", Ec, "resource") and \
                    e1[0][0] == "new":
                self.G = e1[0]
                self.fill.append(("G", n))
            e2 = _entry(e1[0])
            if loc and e2 is not None and e1[1] == ("attr", Ec, "resource") \
                    and e2[1] == ("attr", Ec, "location") and \
                    e2[0][0] == "new":
                self.L = e2[0]
                self.fill.append(("L", n))

    # -- which reservations an iterable ranges over --------------------------
    def sources(self, t, node_ast=None):
        """{'G','L'} for the reserved ranges of the current resource, globally
        / of the current chip; 'stale' for a cache outliving what it was
        computed from; None if not recognised."""
        t = _kn(t)
        e1 = _entry(t)
        if e1 is not None:
            if e1[0] == self.G and e1[1] == self.RES:
                return frozenset("G")
            e2 = _entry(e1[0])
            if e2 is not None and e2[0] == self.L and e2[1] == self.XY and \
                    e1[1] == self.RES:
                return frozenset("L")
            if e1[0][0] == "new" and e1[1] == self.RES and \
                    e1[0][2][:2] == ("call", ("global", "dict")) and \
                    e1[0][2][2] == (self.G,) and not e1[0][2][3]:
                # dict(<global table>) then .update(<this chip's table>): for
                # a resource the chip has a list of its own, update REPLACES
                # the global list - the scan sees one list or the other
                ups = [x for x in method_calls(self.T, "update")
                       if _kn(x[2]) == e1[0]]
                if ups and all(len(x[3]) == 1 and _entry(_kn(x[3][0])) == (
                        self.L, self.XY) for x in ups):
                    self.replaced = ups[0][1]
                    return frozenset()
            if e1[0][0] == "new":
                return self._memo(e1[0], e1[1])
        if t[0] == "binop" and t[1] == "Add":
            a, b = self.sources(t[2]), self.sources(t[3])
            if a is not None and b is not None:
                return a | b
        if t[0] == "call" and t[1] in (("global", "chain"),
                                       ("global", "itertools.chain")) and \
                not t[3]:
            out = frozenset()
            for x in t[2]:
                a = self.sources(x)
                if a is None:
                    return a
                out |= a
            return out
        if t[0] == "call" and t[1] in (("global", "list"),
                                       ("global", "tuple")) and \
                len(t[2]) == 1 and not t[3]:
            return self.sources(t[2][0])
        return None

    def _memo(self, M, key):
        """A table created in this function and read back under ``key``."""
        ws = [x for x in self.stores if x[2] == M]
        if len(ws) != 1 or ws[0][3] != key:
            return None
        v = ws[0][4]
        parts = [v]
        if v[0] == "binop" and v[1] == "Add":
            parts = [v[2], v[3]]
        elif v[0] == "call" and v[1][0] == "global" and \
                v[1][1].rsplit(".", 1)[-1] == "chain":
            parts = list(v[2])
        out = frozenset()
        for part in parts:
            src = self._memo_part(M, key, ws[0], part)
            if src is None:
                return None
            out |= src
        return out

    def _memo_part(self, M, key, w, value):
        src = self.sources(value)
        if src is None:
            return src
        site = SITES.get(M[1])
        # the loops whose variables the stored value depends on (beyond the
        # key) must each create the table afresh
        for lp in ast.walk(self.fn):
            if not isinstance(lp, ast.For) or not _inside(w[1], lp) or \
                    id(lp) not in self.T.cfg.loop_head:
                continue
            head = self.T.cfg.loop_head[id(lp)]
            el = _kn(self.T._tag(lp.iter, ("elem", self.T.term(lp.iter,
                                                               head))))
            uses = any(x == el for x in subterms(value))
            # the key tells iterations apart only if it is the loop
            # variable itself (or its dictionary key)
            keys = key[1:] if key[0] == "tuple" else (key,)
            in_key = any(x == el or (x == ("comp", el, 0) and
                                     el[1][0] == "items") for x in keys)
            if uses and not in_key and not _inside(site, lp):
                self.stale = True
                return frozenset()
        return src


def _without(t, old):
    """``t`` with every occurrence of the sub-term ``old`` blanked."""
    if t == old:
        return ("blank",)
    if not isinstance(t, tuple) or not t or t[0] == "const":
        return t
    return tuple(_without(x, old) if isinstance(x, tuple) else x for x in t)


class _Monitor(Client):
    """State: have (a proposal was made), clean (no overlap test of it came
    out true), covered (sources scanned completely for it), bounded, pending
    / broken / hitcur (the scan in progress), owed = (committed, bumped):
    the proposal was stored for the vertex / the pointer was moved to its
    end."""

    def __init__(self, model):
        self.m = model
        self.cache = {}
        self.seen_tests = set()
        self.problems = {}
        self.n_commit_states = 0
        self.unknown_ptr_store = []
        self.unknown_tests = []
        self.ptr_tested_when_dirty = False

    def start(self):
        return (False, True, frozenset(), False, False, False, False,
                (False, False))

    def truth(self, tag):
        return True if tag in ("P", "R", "R+") else None

    def _info(self, view, n):
        key = (id(view), n.id)
        if key in self.cache:
            return self.cache[key]
        m = self.m
        info = None
        a = n.ast
        try:
            if n.kind == "stmt" and n.label == "foriter":
                src = m.sources(view.term(a.value, n))
                if src is not None:
                    info = ("foriter", src)
            elif n.kind == "join" and n.label in ("forbody", "forelse"):
                head = view.cfg.loop_head[id(a)]
                src = m.sources(view.term(a.iter, head))
                if src is not None:
                    info = (n.label, src)
            elif n.kind == "iter":
                src = m.sources(view.term(a.iter, n))
                if src is not None:
                    info = ("head", src)
            elif n.kind == "assume":
                t, p = view.cond(a, n, n.polarity)
                t = _kn(t)
                if False:
                    pass
                elif (t, p) in ((mk_cmp("LtE", ("attr", m.P, "stop"), m.CAP),
                                 True), (mk_cmp("LtE", m.P[2][1], m.CAP),
                                         True)):
                    info = ("bounded",)
                elif any(st_ == m.PTR for st_ in subterms(
                        _without(t, m.P))):
                    # a test on the pointer table itself (e.g. "has the
                    # pointer moved since this proposal was made?")
                    info = ("ptrtest",)
            elif n.kind == "stmt" and isinstance(a, ast.Assign):
                tg = a.targets[0]
                if isinstance(tg, ast.Subscript) and len(a.targets) == 1:
                    base = _kn(view.term(tg.value, n))
                    key_ = _kn(view.term(tg.slice, n))
                    if (base == m.X or base == ("item", m.A, m.VERTEX)):
                        info = ("commit", key_, a.value)
                    elif base == m.PTR:
                        info = ("ptr", key_, a.value)
                else:
                    v = _kn(view.term(a.value, n))
                    if v == m.P:
                        info = ("propose",)
                    elif v == m.PTR:
                        info = ("newptr",)
        except AnalysisError:
            info = None
        self.cache[key] = info
        return info

    def problem(self, kind, node, view):
        self.problems.setdefault(kind, node)

    def step(self, view, n, env, mon):
        info = self._info(view, n)
        if info is None:
            return mon
        have, clean, cov, bounded, pending, broken, hitcur, owed = mon
        k = info[0]
        if k == "ptrtest":
            if not clean:
                self.ptr_tested_when_dirty = True
            return mon
        if k == "propose":
            if owed[0] and not owed[1]:
                self.problem("owed", n, view)
            return (True, True, frozenset(), False, False, False, False,
                    (False, False))
        if k == "newptr":
            return (have, clean, cov, bounded, pending, broken, hitcur,
                    (False, False))
        if k == "foriter":
            return (have, clean, cov, bounded, False, False, False, owed)
        if k == "forbody":
            return (have, clean, cov, bounded, True, broken, False, owed)
        if k == "head":
            if pending:
                broken = True
            return (have, clean, cov, bounded, False, broken, False, owed)
        if k == "forelse":
            if not broken:
                cov = cov | info[1]
            return (have, clean, cov, bounded, False, False, False, owed)
        if k == "bounded":
            return (have, clean, cov, True, pending, broken, hitcur, owed)
        if k == "commit":
            self.n_commit_states += 1
            if info[1] != self.m.RES:
                self.problem("key", n, view)
            v = self._value(view, n, info[2], env)
            if v != "P" or not have:
                self.problem("value", n, view)
            if not clean:
                self.problem("dirty", n, view)
            if "G" not in cov:
                self.problem("global", n, view)
            if "L" not in cov:
                self.problem("local", n, view)
            if not bounded:
                self.problem("bound", n, view)
            return (have, clean, cov, bounded, pending, broken, hitcur,
                    (True, owed[1]))
        if k == "ptr":
            if info[1] != self.m.RES:
                self.problem("ptrkey", n, view)
            e = info[2]
            ok = False
            if isinstance(e, ast.Attribute) and e.attr == "stop":
                v = self._value(view, n, e.value, env)
                if v == "P":
                    ok = True
                    owed = (owed[0], True)
                elif v == "R+" or (v == "R" and hitcur):
                    ok = True
            if not ok:
                try:
                    t = _kn(view.term(e, n))
                except AnalysisError:
                    t = None
                if t in (("attr", self.m.P, "stop"), self.m.P[2][1]):
                    ok = True
                    owed = (owed[0], True)
                elif t is not None and t[0] == "const":
                    self.problem("ptrconst", n, view)
                    ok = True
            if not ok:
                self.unknown_ptr_store.append(n)
            return (have, clean, cov, bounded, pending, broken, hitcur, owed)
        return mon

    def call_outcomes(self, view, n, c, env, mon):
        if call_name(c)[0] != "slices_overlap" or len(c.args) != 2:
            return None
        key = (id(view), id(c))
        if key not in self.cache:
            info = None
            try:
                t = _kn(view.term(c, n))
                if t[0] == "call" and len(t[2]) == 2 and not t[3]:
                    x, r = t[2]
                    src = self.m.sources(r[1]) if r[0] == "elem" else None
                    if src is not None:
                        info = (x == self.m.P,)
            except AnalysisError:
                info = None
            self.cache[key] = info
        info = self.cache[key]
        if info is None:
            self.unknown_tests.append(c)
            return None
        self.seen_tests.add(id(c))
        if not info[0]:
            # a test of something other than the current proposal says
            # nothing about it
            return set([("T", mon), ("F", mon)])
        have, clean, cov, bounded, pending, broken, hitcur, owed = mon
        return set([
            ("T", (have, False, cov, bounded, False, broken, True, owed)),
            ("F", (have, clean, cov, bounded, False, broken, hitcur, owed))])

    def _value(self, view, n, e, env):
        if isinstance(e, ast.Name) and env.get(e.id) is not None:
            return env[e.id]
        try:
            t = _kn(view.term(e, n))
        except AnalysisError:
            return None
        if t == self.m.P:
            return "P"
        return None

    def tag(self, view, node, term, env, mon):
        t = _kn(term)
        if t == self.m.P:
            return "P"
        if t[0] == "elem":
            src = self.m.sources(t[1])
            if src is not None:
                return "R"
        return None

    def adjust(self, view, node, expr, v, env, mon):
        if v == "R" and mon[6]:
            return "R+"
        return v


def r2_r3(program, rep):
    fn = program.get(FN)
    inst = qual(fn)
    m = _Model(program, fn)
    T = m.T
    cfg = T.cfg
    P, RES, REQ = m.P, m.RES, m.REQ
    rep.check(RES[1] == ("elem", m.want_E) or
              (RES[1][0] == "elem" and RES[1][1] == m.want_E),
              "C05-R2", inst, "the allocation is filed under the resource "
              "being iterated (a key of vertices_resources[vertex]) for the "
              "vertex being iterated", construct="commit key",
              node=m.commits[0][1])
    # chips: vertices grouped by their placement
    Epl = ("elem", ("items", ("param", m.ps[4])))
    grouped = False
    for n, c, recv, args in method_calls(T, "append"):
        if _kn(recv) == ("item", m.CC, ("comp", Epl, 1)) and \
                [_kn(x) for x in args] == [("comp", Epl, 0)] and \
                not T.all_facts(n):
            grouped = True
    if not grouped:
        raise AnalysisError("allocate: how vertices are grouped by chip was "
                            "not found in the form analysed")
    rep.check(grouped, "C05-R3", inst, "the vertices allocated together are "
              "exactly those placed on the same chip",
              construct="grouping by placement", node=fn)
    # exact size, aligned start
    S, E2 = P[2][0], P[2][1] if len(P[2]) == 2 else (None, None)
    rep.check(len(P[2]) == 2 and not P[3] and
              E2 in (("binop", "Add", S, REQ), ("binop", "Add", REQ, S)),
              "C05-R2", inst, "proposal = slice(start, start + requirement): "
              "exactly the requested size", construct="proposal size",
              node=fn, fail="the proposed range is %s: not the vertex's "
              "requirement long" % show(P)[:200])
    ok_al = S is not None and S[0] == "call" and S[1][0] == "global" and \
        S[1][1].rsplit(".", 1)[-1] == "align" and len(S[2]) == 2 and \
        not S[3]
    PTR = AL = None
    if ok_al:
        ptr_arg = S[2][0]
        if ptr_arg[0] == "mu":
            # the pointer is kept in a local while a free range is searched
            # for: it starts as pointer[resource] and otherwise only takes
            # the end of a reservation
            alts = [_kn(x) for x in alternatives(ptr_arg)]
            start_ = [x for x in alts if _entry(x) is not None and
                      x[0] == "item"]
            rest = [x for x in alts if x not in start_ and x != ("rec",)]
            if len(start_) != 1 or not all(
                    x[0] == "attr" and x[2] == "stop" and
                    x[1][0] == "elem" for x in rest):
                raise AnalysisError("allocate: the search pointer")
            ptr_arg = start_[0]
            m.local_ptr_stops = [x[1][1] for x in rest]
        p_, a_ = _entry(ptr_arg), _entry(S[2][1])
        ok_al = p_ is not None and a_ is not None and p_[1] == RES and \
            a_[1] == RES and ptr_arg[0] == "item"
        if ok_al:
            PTR, AL = p_[0], a_[0]
    rep.check(ok_al, "C05-R2", inst, "start = align(pointer[resource], "
              "alignment[resource]) of the same resource",
              construct="proposal start aligned", node=fn,
              fail="the proposal's start is not align(pointer[resource], "
                   "alignments[resource]): an allocation may start off the "
                   "required alignment")
    if not ok_al:
        return
    m.PTR = PTR
    Ec = ("elem", ("param", m.ps[3]))
    okA = AL[0] == "new" and plain(AL) == (
        "call", ("global", "defaultdict"), (("lambda", 0, ("const", 1)),),
        ())
    al_st = [x for x in m.stores if x[2] == AL]
    if not okA or len(al_st) != 1:
        raise AnalysisError("allocate: the alignment table was not found "
                            "in the form analysed")
    okA = okA and len(al_st) == 1 and \
        al_st[0][3] == ("attr", Ec, "resource") and \
        al_st[0][4] == ("attr", Ec, "alignment") and \
        (("call", ("global", "isinstance"),
          (Ec, ("global", "AlignResourceConstraint")), ()), True) in [
              (plain(t), p) for t, p in T.all_facts(al_st[0][0])]
    rep.check(okA, "C05-R2", inst, "alignment[resource] is the alignment of "
              "the AlignResourceConstraint of that resource (1 if none)",
              construct="alignment table", node=fn)
    if m.dropped:
        rep.check(False, "C05-R2", inst, "every reservation is filed",
                  construct="reservations all filed",
                  node=m.dropped[0],
                  fail="a reservation is passed as the default of "
                       "setdefault() and not appended: when the table "
                       "already has an entry for that chip / resource the "
                       "reservation is dropped, and ranges overlapping it "
                       "are handed out")
        return
    if m.G is None or m.L is None:
        raise AnalysisError("allocate: the tables the reservations are "
                            "filed in were not found in the form analysed")
    rep.check(m.G is not None, "C05-R2", inst, "reservations without a "
              "location are filed by resource in the global table",
              construct="global reservations filed", node=fn)
    rep.check(m.L is not None, "C05-R2", inst, "reservations with a "
              "location are filed by location and resource",
              construct="local reservations filed", node=fn)
    if m.G is None or m.L is None:
        return
    # every ReserveResourceConstraint is filed
    isres = [n for n in cfg.nodes if n.kind == "assume" and n.polarity and
             plain(T.cond(n.ast, n, True)[0]) == (
                 "call", ("global", "isinstance"),
                 (Ec, ("global", "ReserveResourceConstraint")), ())]
    fills = [n for _, n in m.fill]
    heads = [h for h in cfg.loop_head.values()]
    rep.check(bool(isres) and all(cfg.must_pass(
        n, lambda x: x in fills, targets=heads + [cfg.exit]) for n in isres),
        "C05-R2", inst, "every ReserveResourceConstraint is filed in one of "
        "the two tables", construct="reservations all filed", node=fn)
    for src_ in getattr(m, "local_ptr_stops", []):
        if m.sources(src_) is None:
            raise AnalysisError("allocate: the search pointer is moved to "
                                "something that is not a reservation's end")
    # path-sensitive exploration
    mon = _Monitor(m)
    paths = Paths(T, mon)
    orig_value = paths.value

    def value(view, n, e, env, mo):
        return mon.adjust(view, n, e, orig_value(view, n, e, env, mo), env,
                          mo)
    paths.value = value
    paths.run(T, cfg.entry, {}, mon.start())
    rep.note("PATHS: %d states explored, %d helper runs, %d commit states" %
             (paths.count, paths.helper_runs, mon.n_commit_states))
    if mon.n_commit_states == 0:
        raise AnalysisError("allocate: no path reaches the commit")
    if getattr(m, "replaced", None) is not None:
        rep.bad("C05-R2", inst, "chip table replaces the global one",
                "the reservations scanned for a chip come from a copy of "
                "the global table updated with the chip's own table: "
                "dict.update replaces the global list of a resource by the "
                "chip's list instead of adding to it, so on a chip with a "
                "reservation of its own the global reservations of that "
                "resource are never compared with the proposal and ranges "
                "overlapping them are handed out", m.replaced)
        return
    # overlap tests in forms the monitor does not follow
    if mon.unknown_tests and not m.stale:
        raise AnalysisError("allocate: an overlap test in a form that is "
                            "not analysed (line %d)" %
                            mon.unknown_tests[0].lineno)
    pr = mon.problems
    cnode = m.commits[0][1]
    if "dirty" in pr and mon.ptr_tested_when_dirty:
        # after an overlap the code consults the pointer table (has the
        # pointer been moved on?): whether that test sends every such path
        # back to a new proposal is not followed by the path model
        raise AnalysisError("allocate: after an overlap the retry loop "
                            "tests the pointer table to decide whether to "
                            "propose again; that form is not analysed")

    def at(kind):
        n = pr.get(kind)
        return n.ast if n is not None and n.ast is not None else cnode
    rep.check("key" not in pr and "ptrkey" not in pr, "C05-R2", inst,
              "ranges and pointers are filed under the resource being "
              "allocated", construct="keys", node=at("key"))
    rep.check("value" not in pr, "C05-R2", inst, "the range stored is the "
              "proposal computed in the last iteration of the retry loop",
              construct="commit stores last proposal", node=at("value"),
              fail="on some path the value stored for the vertex is not the "
                   "last proposal made")
    rep.check("dirty" not in pr, "C05-R2", inst, "on every path to the "
              "commit, no overlap test of the committed proposal against a "
              "reservation came out true (an overlap always leads to a new "
              "proposal)", construct="commit after clean scan",
              node=at("dirty"),
              fail="a path reaches the commit although "
                   "slices_overlap(proposal, reservation) held for the "
                   "committed proposal: the range handed out overlaps a "
                   "reserved range")
    rep.check("global" not in pr and not m.stale, "C05-R2", inst,
              "on every path to the commit the proposal was tested against "
              "every globally reserved range of the resource",
              construct="global reservations consulted", node=at("global"),
              fail="a path reaches the commit without a complete scan of "
                   "the global reservations of the resource for the "
                   "committed proposal")
    rep.check("local" not in pr and not m.stale, "C05-R2", inst,
              "on every path to the commit the proposal was tested against "
              "every range reserved for this chip and resource",
              construct="local reservations consulted", node=at("local"),
              fail="a path reaches the commit without a complete scan of "
                   "the reservations of this chip and resource for the "
                   "committed proposal%s" % (
                       " (the reservation list is cached across chips)"
                       if m.stale else ""))
    rep.check("bound" not in pr, "C05-R2", inst, "a proposal ending beyond "
              "machine[xy][resource] (the chip's own quantity, exceptions "
              "included) never reaches the commit: proposal.stop <= "
              "machine[xy][resource] was established for it",
              construct="capacity bound", node=at("bound"),
              fail="the committed range is not checked against "
                   "machine[xy][resource]: on a chip with a resource "
                   "exception the range can leave the chip's resource")
    # the bound failure is the documented error
    okr = False
    for r in raises_of(fn):
        if raise_name(r) != "InsufficientResourceError":
            continue
        for view in owner_views(T, r):
            f = [(_kn(t), p) for t, p in view.all_facts(
                view.cfg.node_of(r))]
            if (mk_cmp("Lt", m.CAP, ("attr", P, "stop")), True) in f or \
                    (mk_cmp("Lt", m.CAP, P[2][1]), True) in f:
                okr = True
    rep.check(okr, "C05-R2", inst, "running out of the chip's resource "
              "raises InsufficientResourceError", construct="capacity error",
              node=fn)
    # R3: bump pointer
    if mon.unknown_ptr_store:
        raise AnalysisError("allocate: a pointer update in a form that is "
                            "not analysed (line %d)" %
                            mon.unknown_ptr_store[0].lineno)
    rep.check("owed" not in pr and "ptrconst" not in pr, "C05-R3", inst,
              "after a range is accepted the pointer of that resource moves "
              "to its end before the next proposal on the chip; otherwise it "
              "only moves to the end of a reservation overlapping the "
              "current proposal (it never moves down)",
              construct="pointer bump", node=at("owed"),
              fail="a path makes the next proposal on a chip without having "
                   "moved the pointer past the range just handed out: two "
                   "vertices get the same range")
    # pointers are per chip
    own = [lp for lp in ast.walk(fn) if isinstance(lp, ast.For) and
           id(lp) in cfg.loop_head]
    chip_loops = [lp for lp in own if
                  _kn(T._tag(lp.iter, ("elem", T.term(
                      lp.iter, cfg.loop_head[id(lp)])))) == m.Ecc]
    vert_loops = [lp for lp in own if
                  _kn(T._tag(lp.iter, ("elem", T.term(
                      lp.iter, cfg.loop_head[id(lp)])))) == m.VERTEX]
    pd = [b_ for b_ in T.binds if b_.mode == "assign" and
          _kn(T._bind_term(b_)) == PTR]
    okp = len(pd) >= 1 and len(chip_loops) == 1 and len(vert_loops) == 1 and \
        all(_inside(b_.node.ast, chip_loops[0]) and
            not _inside(b_.node.ast, vert_loops[0]) for b_ in pd)
    pp = plain(PTR)
    zero = (pp[0] == "dictcomp" and pp[1][0] == "pair" and
            pp[1][2] == ("const", 0)) or (
        pp[0] == "call" and pp[1] == ("attr", ("global", "dict"),
                                      "fromkeys") and
        len(pp[2]) == 2 and pp[2][1] == ("const", 0)) or (
        # dict(zip(resources, repeat(0))) / dict((r, 0) for r in resources)
        pp[0] == "call" and pp[1] == ("global", "dict") and
        len(pp[2]) == 1 and not pp[3] and (
            (pp[2][0][0] == "call" and pp[2][0][1] == ("global", "zip") and
             len(pp[2][0][2]) == 2 and pp[2][0][2][1][0] == "call" and
             pp[2][0][2][1][1][-1] == "repeat" and
             pp[2][0][2][1][2] == (("const", 0),)) or
            (pp[2][0][0] in ("genexp", "listcomp") and
             pp[2][0][1][0] == "tuple" and len(pp[2][0][1]) == 3 and
             pp[2][0][1][2] == ("const", 0))))
    if okp and not zero and not any(
            st_[0] == "const" and isinstance(st_[1], (int, float)) and
            not isinstance(st_[1], bool) for st_ in subterms(pp)):
        raise AnalysisError("allocate: what the pointers of a chip start at "
                            "is not read in this form")
    rep.check(okp and zero, "C05-R3", inst, "pointers are re-created (at 0) "
              "for every chip and shared by the vertices of that chip",
              construct="pointer scope", node=fn,
              fail="the resource pointers are not re-initialised per chip "
                   "(or are re-initialised per vertex): ranges of different "
                   "vertices can coincide or run off the chip")
    rep.floor("C05-R2", 14)
    rep.floor("C05-R3", 3)


def r4_raises(program, rep):
    fn = program.get(FN)
    names = set(raise_name(r) for r in raises_of(fn))
    for h in ("rig.place_and_route.allocate.utils:slices_overlap",
              "rig.place_and_route.allocate.utils:align"):
        names |= set(raise_name(r) for r in raises_of(program.get(h)))
    rep.check(names <= {"InsufficientResourceError"}, "C05-R4", qual(fn),
              "the allocator's only explicit failure is "
              "InsufficientResourceError", construct="raises %s" %
              sorted(names), node=fn)
    rets = returns_of(fn)
    rep.check(len(rets) == 1, "C05-R4", qual(fn), "single return of the "
              "allocation map", construct="returns", node=fn)


r2_r3.helper_aware = True

def r4_machine_capacity(program, rep):
    """The bound allocate() checks a proposal against is machine[xy]: what
    Machine.__getitem__ reports for a chip must be what was last stored for
    it by Machine.__setitem__."""
    MA = "rig.place_and_route.machine:Machine"
    gi, si = program.get(MA + ".__getitem__"), program.get(
        MA + ".__setitem__")
    G, S = Terms(gi), Terms(si)
    SELF = ("param", "self")
    rets = [plain(G.term(r.value)) for r in returns_of(gi)
            if r.value is not None]
    m_ = match(("get", ("attr", SELF, V("exc")), ("param", formals(gi)[1]),
                ("attr", SELF, V("dflt"))), rets[0]) if len(rets) == 1 \
        else None
    if m_ is None:
        raise AnalysisError("Machine.__getitem__: not of the form "
                            "<exceptions>.get(xy, <defaults>)")
    EXC = ("attr", SELF, m_["exc"])
    xy, res = [("param", p_) for p_ in formals(si)[1:3]]
    st = [x for x in stores(S) if plain(x[2]) == EXC and plain(x[3]) == xy]
    ok = bool(st) and all(plain(x[4]) == res for x in st)
    always = ok and S.cfg.must_pass(
        S.cfg.entry, lambda n: any(n is x[0] for x in st),
        targets=[S.cfg.exit])
    if ok and not always:
        drops = [x for x in method_calls(S, ("pop", "__delitem__"))
                 if plain(x[2]) == EXC] + [
            d for d in ast.walk(si) if isinstance(d, ast.Delete)]
        if drops:
            raise AnalysisError("Machine.__setitem__ stores the resources "
                                "on some paths and removes the entry on "
                                "others; that form is not analysed")
    rep.check(ok and always, "C05-R4", qual(si), "every assignment of a "
              "chip's resources is recorded, so machine[xy] (the bound a "
              "proposal is checked against) is what was last assigned",
              construct="capacity store", node=si,
              fail="Machine.__setitem__ does not record the resources on "
                   "every path (and removes no earlier entry): after "
                   "machine[xy] = a; machine[xy] = b the chip can still "
                   "report a, and allocate() checks proposals against a "
                   "capacity the chip does not have")



def r2_reservations_read_only(program, rep):
    """The tables of reserved ranges are filled while the constraints are
    read and are only *read* while ranges are handed out: a list fetched
    from them and extended in place (``r = globally_reserved[res]; r +=
    local``) leaves the reservations of one chip in the table every later
    chip is checked against - feasible placements are then refused, or
    ranges of another chip's reservation are skipped."""
    fn = program.get(AL + ".greedy:allocate")
    inst = qual(fn)
    ps = formals(fn)
    loops = [n for n in ast.walk(fn) if isinstance(n, ast.For)]

    def mentions(e, names):
        return any(isinstance(x, ast.Name) and x.id in names
                   for x in ast.walk(e))
    cons = [lp for lp in loops if mentions(lp.iter, {"constraints"})]
    if not cons or "constraints" not in ps:
        raise AnalysisError("allocate: the loop over the constraints was "
                            "not found")
    MUT = {"append", "extend", "insert", "add", "update", "remove", "pop",
           "clear", "sort", "setdefault"}

    def root(e):
        while isinstance(e, (ast.Subscript, ast.Attribute, ast.Call)):
            if isinstance(e, ast.Call):
                e = e.func
            else:
                e = e.value
        return e.id if isinstance(e, ast.Name) else None
    tables = set()
    for lp in cons:
        for n in ast.walk(lp):
            if isinstance(n, ast.Call) and isinstance(
                    n.func, ast.Attribute) and n.func.attr in MUT:
                r = root(n.func.value)
                if r is not None and r not in ps:
                    tables.add(r)
    if not tables:
        raise AnalysisError("allocate: no table filled from the "
                            "constraints found")
    hits = []
    for lp in loops:
        if any(lp is c or _inside(lp, c) for c in cons):
            continue
        if any(_inside(lp, o) for o in loops if o is not lp and
               not any(o is c for c in cons)):
            continue        # judged with its outermost loop
        aliases = {}
        for n in ast.walk(lp):
            if isinstance(n, ast.Assign) and len(n.targets) == 1 and \
                    isinstance(n.targets[0], ast.Name) and \
                    isinstance(n.value, (ast.Subscript, ast.Call)) and \
                    root(n.value) in tables:
                aliases[n.targets[0].id] = root(n.value)
        for n in ast.walk(lp):
            who = None
            if isinstance(n, ast.AugAssign):
                t = n.target
                if isinstance(t, ast.Name) and t.id in aliases and \
                        isinstance(n.op, (ast.Add, ast.BitOr)):
                    who = (t.id, aliases[t.id])
                elif isinstance(t, ast.Subscript) and root(t) in tables:
                    who = (ast.unparse(t), root(t))
            elif isinstance(n, ast.Call) and isinstance(
                    n.func, ast.Attribute) and n.func.attr in MUT - {
                        "setdefault", "pop"}:
                r = root(n.func.value)
                if r in tables:
                    who = (ast.unparse(n.func.value), r)
                elif r in aliases:
                    who = (r, aliases[r])
            elif isinstance(n, ast.Assign):
                for t in n.targets:
                    if isinstance(t, ast.Subscript) and root(t) in tables:
                        who = (ast.unparse(t), root(t))
            if who is not None:
                hits.append((n, who))
    rep.check(not hits, "C05-R2", inst, "the reservation tables (%s) are "
              "only read while ranges are handed out" % ", ".join(
                  sorted(tables)), construct="reservation table changed",
              node=hits[0][0] if hits else fn,
              fail="line %d changes %s, which belongs to the reservation "
                   "table %s, while ranges are being handed out: what one "
                   "vertex / chip adds is there for every later one" % (
                       hits[0][0].lineno if hits else 0,
                       hits[0][1][0] if hits else "",
                       hits[0][1][1] if hits else ""), positive=True)

def check(program, rep):
    rep.guard("C05-R1", r1_helpers, program, rep)
    rep.guard("C05-R2", r2_r3, program, rep)
    rep.guard("C05-R2", r2_reservations_read_only, program, rep)
    rep.guard("C05-R4", r4_raises, program, rep)
    rep.guard("C05-R4", r4_machine_capacity, program, rep)
    # 'unreserved' is only as good as the reservations: the ones made for
    # the cores already in use come from build_core_constraints (C14-R5)
    from . import C14
    from ..constfold import Folder as _Folder
    rep.guard("C14-R5", C14.r5_busy_states, program, _Folder(program), rep)
    # ... and the one for the monitor core from wrapper() (C01-R2)
    from . import C01
    rep.guard("C01-R2", C01.r2_monitor_reservation, program, rep)
    # arguments handed to package functions under the wrong name / same-
    # named optional parameters not passed on (NAMELINK, DESIGN.md 9.13)
    from .. import namelink as _nl
    rep.guard("C05-R5", _nl.rule, program, rep, "C05-R5",
              [m for m in sorted(program.modules) if m.startswith("rig.place_and_route")])
    return finish(rep, program, EXPLANATION, NOT_DECIDED,
                  trusted=["ORDTYPE evaluator (comparison-only fragment)",
                           "floor-division axioms for a divisor >= 1"])
