"""C05 - allocated resource ranges are exact, in range, aligned, disjoint and
unreserved.

R1 helpers are what they say (slices_overlap by ORDTYPE, align by FM)
R2 the accepted proposal is clean w.r.t. both reservation sources, inside the
   chip's own range, of the exact size, aligned
R3 bump pointer => disjointness; pointers are per chip and per resource
R4 only the documented failure
"""
import ast

from ..core import AnalysisError, finish, unparse
from ..dataflow import Flow, chain, call_name
from ..ordtype import evaluate_all, Ordering
from ..poly import Poly, le, lt, eq
from ..util import calls_in, qual, formals, has_fact, raises_of, raise_name, \
    returns_of

AL = "rig.place_and_route.allocate"
FN = AL + ".greedy:allocate"

EXPLANATION = (
    "R1: slices_overlap is evaluated abstractly on all 75 weak orderings of "
    "its four endpoints and equals 'half-open ranges intersect'; align is "
    "proved (Fourier-Motzkin, floor-division axioms for a divisor >= 1) to "
    "return a multiple of the alignment with value <= result <= value + "
    "alignment - 1. R2/R3: dominance and must-pass-through facts over "
    "allocate's CFG: the slice stored is the last proposal; it is slice(s, s "
    "+ requirement) with s = align(pointer, alignment) of the same resource; "
    "the loop exits only with the overlap flag false, which is set true on "
    "every path where slices_overlap(proposal, r) holds, for the global list "
    "of that resource and the local list of that chip and resource, and "
    "never overwritten otherwise; the bound test against machine[xy]"
    "[resource] dominates the exit; afterwards pointer := proposal.stop; "
    "pointers are re-created per chip.")
NOT_DECIDED = [
    "'always succeeds on a feasible placement without alignment and with "
    "reservations only at the ends' (completeness of the greedy scan)",
    "termination of the retry loop when reservations interleave (the pointer "
    "moves to reservation.stop, which may move it backwards)",
]


def r1_helpers(program, rep):
    fn = program.get(AL + ".utils:slices_overlap")
    inst = qual(fn)
    a, b = formals(fn)
    terms = ["a0", "a1", "b0", "b1"]

    def bindings(o):
        T = {t: Poly.atom(t) for t in terms}
        return {"%s.start" % a: T["a0"], "%s.stop" % a: T["a1"],
                "%s.start" % b: T["b0"], "%s.stop" % b: T["b1"],
                "%s.step" % a: None, "%s.step" % b: None}

    def spec(o):
        r = o.rank
        # half-open [a0,a1) and [b0,b1) share a point
        return (r["a0"] < r["a1"] and r["b0"] < r["b1"] and
                r["a0"] < r["b1"] and r["b0"] < r["a1"])
    n, bad = evaluate_all(fn, terms, bindings, spec)
    rep.check(not bad, "C05-R1", inst,
              "slices_overlap(a, b) == ([a.start,a.stop) and [b.start,b.stop) "
              "share a point) on all %d weak orderings of the four endpoints "
              "(adjacent and empty ranges do not overlap)" % n,
              construct="slices_overlap orderings", node=fn,
              fail="slices_overlap disagrees with half-open intersection on "
                   "%d of %d endpoint orderings, e.g. ranks (a.start, a.stop, "
                   "b.start, b.stop) = %s gives %s" % (
                       len(bad), n, bad[0][0] if bad else "",
                       bad[0][1] if bad else ""))
    rep.note("ORDTYPE: %d weak orderings of 4 endpoints evaluated" % n)
    fn = program.get(AL + ".utils:align")
    inst = qual(fn)
    v, al = formals(fn)
    fl = Flow(fn)
    fl.positive.add(al)
    rets = returns_of(fn)
    if len(rets) != 1:
        raise AnalysisError("align: expected one return")
    node = fl.cfg.node_of(rets[0])
    res = fl.sym(rets[0].value, node)
    V, A = Poly.atom(v), Poly.atom(al)
    mult = bool(res.t) and all(al in m for m in res.t if m != ()) and \
        () not in res.t
    rep.check(mult, "C05-R1", inst, "align returns alignment * <integer>",
              construct="align multiple %r" % (res,), node=fn)
    ok = fl.prove(node, [le(V, res), le(res, V + A - 1)], use_facts=False)
    rep.check(ok, "C05-R1", inst, "value <= align(value, alignment) <= value "
              "+ alignment - 1 for every alignment >= 1",
              construct="align bounds %r" % (res,), node=fn,
              fail="cannot prove value <= %r <= value + alignment - 1" %
                   (res,))
    rep.assume("alignments are >= 1")


def _loop_chain(node, fn):
    out = []
    n = getattr(node, "_parent", None)
    while n is not None and n is not fn:
        if isinstance(n, (ast.For, ast.While)):
            out.append(n)
        n = getattr(n, "_parent", None)
    return out


def r2_r3(program, rep):
    fn = program.get(FN)
    inst = qual(fn)
    fl = Flow(fn)
    cfg = fl.cfg
    ps = formals(fn)
    machine = ps[2]
    # the commit: <alloc>[resource] = <proposal>
    slice_defs = [d for d in fl.defs if d.mode == "assign" and
                  isinstance(d.value, ast.Call) and
                  call_name(d.value)[0] == "slice"]
    if len(slice_defs) != 1:
        raise AnalysisError("allocate: expected one slice(...) proposal")
    pdef = slice_defs[0]
    prop = pdef.var
    commits = [n for n in ast.walk(fn) if isinstance(n, ast.Assign) and
               isinstance(n.targets[0], ast.Subscript) and
               chain(n.value) == prop]
    if len(commits) != 1:
        raise AnalysisError("allocate: expected one commit of the proposal")
    commit = commits[0]
    cnode = cfg.node_of(commit)
    res = chain(commit.targets[0].slice)
    loops = _loop_chain(commit, fn)
    # loops (innermost first): resource loop, vertex loop, chip loop
    if len(loops) < 3:
        raise AnalysisError("allocate: loop nest changed")
    res_loop, vert_loop, chip_loop = loops[0], loops[1], loops[2]
    xy = chain(chip_loop.target.elts[0]) if isinstance(
        chip_loop.target, ast.Tuple) else None
    req = chain(res_loop.target.elts[1]) if isinstance(
        res_loop.target, ast.Tuple) else None
    rep.check(isinstance(res_loop.target, ast.Tuple) and
              chain(res_loop.target.elts[0]) == res and xy is not None,
              "C05-R2", inst, "the allocation is filed under the resource "
              "being iterated, on the chip being iterated",
              construct="commit key", node=commit)
    # the proposal reaching the commit is the single slice(...) definition
    reach = fl.reaching(prop, cnode)
    only = [d for d in reach if d.mode == "assign" and
            not (isinstance(d.value, ast.Constant) and d.value.value is None)]
    rep.check(len(only) == 1 and only[0] is pdef, "C05-R2", inst,
              "the range stored is the proposal computed in the last "
              "iteration of the retry loop",
              construct="commit stores last proposal", node=commit)
    # exact size, aligned start
    pn = pdef.node
    a0, a1 = pdef.value.args[:2] if len(pdef.value.args) >= 2 else (None,
                                                                    None)
    s0 = fl.sym(a0, pn)
    s1 = fl.sym(a1, pn)
    rep.check(s1 - s0 == fl.symvar(req, pn), "C05-R2", inst,
              "proposal = slice(start, start + requirement): exactly the "
              "requested size", construct="proposal size %r" % (s1 - s0,),
              node=pdef.value,
              fail="the proposed range has size %r, not the vertex's "
                   "requirement" % (s1 - s0,))
    sd = fl.reaching(chain(a0), pn) if chain(a0) else []
    ok_al = False
    ptr = None
    if len(sd) == 1 and isinstance(sd[0].value, ast.Call) and \
            call_name(sd[0].value)[0] == "align" and \
            len(sd[0].value.args) == 2:
        p_, al_ = sd[0].value.args
        if isinstance(p_, ast.Subscript) and isinstance(al_, ast.Subscript):
            ptr = chain(p_.value)
            ok_al = chain(p_.slice) == res and chain(al_.slice) == res
    rep.check(ok_al, "C05-R2", inst, "start = align(pointer[resource], "
              "alignment[resource]) of the same resource",
              construct="proposal start aligned", node=pdef.value,
              fail="the proposal's start is not align(pointer[resource], "
                   "alignments[resource]): an allocation may start off the "
                   "required alignment")
    # the retry loop and its flag
    wl = None
    n = pdef.node.ast
    while n is not None and n is not fn:
        if isinstance(n, ast.While):
            wl = n
            break
        n = getattr(n, "_parent", None)
    if wl is None or chain(wl.test) is None:
        raise AnalysisError("allocate: retry loop is no longer 'while "
                            "<flag>'")
    flag = chain(wl.test)
    rep.check(has_fact(fl.facts(cnode), flag, False), "C05-R2", inst,
              "the proposal is committed only after the retry loop exits "
              "with the overlap flag false", construct="commit after clean "
              "exit", node=commit)
    # every write of the flag inside the loop
    resets = []
    for d in fl.defs:
        if d.var != flag or not _inside(d.node.ast, wl):
            continue
        v = d.value
        if isinstance(v, ast.Constant) and v.value is False:
            resets.append(d)
            okp = cfg.dominates(pdef.node, d.node) and \
                not cfg.reaches(d.node, pdef.node, avoid=[
                    cfg.loop_head[id(wl)]])
            rep.check(okp, "C05-R2", inst, "the flag is cleared after the "
                      "proposal of this iteration is made",
                      construct="flag reset order", node=d.node.ast)
        elif isinstance(v, ast.Constant) and v.value is True:
            f = fl.facts(d.node)
            okt = any(isinstance(c, ast.Call) and
                      call_name(c)[0] == "slices_overlap" and p
                      for c, p, _ in f)
            rep.check(okt, "C05-R2", inst, "the flag is raised under a "
                      "slices_overlap(...) test", construct="flag raise",
                      node=d.node.ast)
        else:
            rep.bad("C05-R2", inst, "flag overwritten: %s" % unparse(
                d.node.ast)[:50], "the overlap flag is assigned %s inside "
                "the retry loop: an overlap found earlier in the same "
                "iteration can be forgotten" % unparse(v), d.node.ast)
    rep.check(len(resets) == 1, "C05-R2", inst, "the flag is cleared exactly "
              "once per iteration", construct="flag resets %d" % len(resets),
              node=wl)
    # each overlap test: about the proposal, raises the flag on its true
    # branch before the loop continues, and moves the pointer past it
    tests = [c for c in calls_in(wl, "slices_overlap")]
    sources = []
    for c in tests:
        okc = len(c.args) == 2 and chain(c.args[0]) == prop
        tnode = None
        for n_ in cfg.nodes:
            if n_.kind == "assume" and n_.polarity and n_.ast is c:
                tnode = n_
        raised = False
        moved = False
        if tnode is not None:
            fl_loop = _enclosing_for(c, wl)
            targets = [cfg.loop_head[id(fl_loop)]] if fl_loop is not None \
                else [cfg.loop_head[id(wl)]]
            sets = [d.node for d in fl.defs if d.var == flag and
                    isinstance(d.value, ast.Constant) and
                    d.value.value is True]
            raised = cfg.must_pass(tnode, lambda n: n in sets,
                                   targets=targets + [cfg.exit])
            rv = chain(c.args[1])
            for d in fl.defs:
                if d.var == ptr and d.mode == "mut" and \
                        cfg.reaches(tnode, d.node) and \
                        isinstance(d.node.ast, ast.Assign):
                    st = d.node.ast
                    if chain(st.targets[0].slice) == res and \
                            unparse(st.value) == "%s.stop" % rv and \
                            _inside(st, fl_loop or wl):
                        moved = cfg.must_pass(tnode, lambda n: n is d.node,
                                              targets=targets + [cfg.exit])
            if fl_loop is not None:
                sources.append((fl_loop, c))
        rep.check(okc and raised, "C05-R2", inst,
                  "whenever slices_overlap(proposal, reservation) holds the "
                  "flag is raised before the scan continues",
                  construct="overlap raises flag", node=c,
                  fail="an overlap between the proposal and a reservation "
                       "does not always raise the retry flag")
        rep.check(moved, "C05-R3", inst, "a blocking reservation moves the "
                  "pointer of that resource to the reservation's end",
                  construct="pointer skips reservation", node=c)
    # both reservation sources
    glob = loc = False
    for lp, c in sources:
        it = lp.iter
        if isinstance(it, ast.Subscript) and chain(it.slice) == res:
            src = chain(it.value)
            glob = glob or _filled_under(fl, fn, src, True)
        else:
            # local: a name defined from  L.get(xy, ..).get(resource, ..) or
            # L[xy][resource]
            e = it
            if chain(it) is not None:
                ds = fl.reaching(chain(it), cfg.loop_head[id(lp)])
                if len(ds) == 1 and ds[0].mode == "assign":
                    e = ds[0].value
            keys, base = _peel(e)
            if keys == [xy, res] and base is not None:
                loc = loc or _filled_under(fl, fn, base, False)
    rep.check(glob, "C05-R2", inst, "the proposal is tested against every "
              "globally reserved range of the resource",
              construct="global reservations consulted", node=wl)
    rep.check(loc, "C05-R2", inst, "the proposal is tested against every "
              "range reserved for this chip and resource",
              construct="local reservations consulted", node=wl)
    # the bound test
    okb = False
    for r in raises_of(fn):
        if raise_name(r) != "InsufficientResourceError":
            continue
        rn = cfg.node_of(r)
        for cond, pol, a in fl.facts(rn):
            if pol and isinstance(cond, ast.Compare) and len(cond.ops) == 1 \
                    and isinstance(cond.ops[0], ast.Gt) and \
                    unparse(cond.left) == "%s.stop" % prop and \
                    unparse(cond.comparators[0]) == "%s[%s][%s]" % (
                        machine, xy, res):
                # the committed proposal passed the test: the loop can only
                # exit with the flag false, the flag is only cleared by the
                # reset of the same iteration, and every path from that reset
                # to the loop test passes the negated bound test
                neg = [n_ for n_ in cfg.nodes if n_.kind == "assume" and
                       n_.ast is cond and not n_.polarity]
                okb = bool(neg) and bool(resets) and all(
                    cfg.must_pass(d.node, lambda n: n in neg,
                                  targets=[cfg.loop_head[id(wl)], cfg.exit])
                    for d in resets)
    rep.check(okb, "C05-R2", inst, "a proposal ending beyond machine[xy]"
              "[resource] (the chip's own quantity, exceptions included) "
              "raises InsufficientResourceError; the committed one passed "
              "that test", construct="capacity bound", node=wl,
              fail="the committed range is not checked against machine[%s]"
                   "[%s]: on a chip with a resource exception the range can "
                   "leave the chip's resource" % (xy, res))
    # R3 bump pointer
    bump = False
    for d in fl.defs:
        if d.var == ptr and d.mode == "mut" and isinstance(
                d.node.ast, ast.Assign):
            st = d.node.ast
            if chain(st.targets[0].slice) == res and \
                    unparse(st.value) == "%s.stop" % prop and \
                    cfg.dominates(cnode, d.node) and not _inside(st, wl):
                bump = cfg.must_pass(cnode, lambda n: n is d.node,
                                     targets=[cfg.loop_head[id(res_loop)],
                                              cfg.exit])
    rep.check(bump, "C05-R3", inst, "after a range is accepted the pointer "
              "of that resource moves to its end (later ranges on the chip "
              "start at or after it)", construct="pointer bump", node=commit)
    pd = [d for d in fl.defs if d.var == ptr and d.mode == "assign"]
    okp = len(pd) == 1 and _inside(pd[0].node.ast, chip_loop) and \
        not _inside(pd[0].node.ast, vert_loop)
    zero = False
    if okp and isinstance(pd[0].value, ast.DictComp):
        dc = pd[0].value
        zero = isinstance(dc.value, ast.Constant) and dc.value.value == 0
    rep.check(okp and zero, "C05-R3", inst, "pointers are re-created (at 0) "
              "for every chip and shared by the vertices of that chip",
              construct="pointer scope", node=chip_loop,
              fail="the resource pointers are not re-initialised per chip "
                   "(or are re-initialised per vertex): ranges of different "
                   "vertices can coincide or run off the chip")
    # the chip's vertices: grouping by placement
    rep.floor("C05-R2", 12)
    rep.floor("C05-R3", 3)


def _inside(node, anc):
    n = node
    while n is not None:
        if n is anc:
            return True
        n = getattr(n, "_parent", None)
    return False


def _enclosing_for(node, stop):
    n = getattr(node, "_parent", None)
    while n is not None and n is not stop:
        if isinstance(n, ast.For):
            return n
        n = getattr(n, "_parent", None)
    return None


def _peel(e):
    """L.get(a, ..).get(b, ..) / L[a][b] -> ([a, b], 'L')."""
    keys = []
    while True:
        if isinstance(e, ast.Call) and call_name(e)[0] == "get" and e.args:
            keys.append(chain(e.args[0]))
            e = call_name(e)[1]
        elif isinstance(e, ast.Subscript):
            keys.append(chain(e.slice))
            e = e.value
        else:
            break
    return list(reversed(keys)), chain(e)


def _filled_under(fl, fn, container, want_global):
    """The container is appended constraint.reservation under
    (constraint.location is None) == want_global, keyed by the constraint's
    resource (and location for the local one)."""
    for c in calls_in(fn, "append"):
        recv = call_name(c)[1]
        keys, base = _peel(recv)
        if base != container or not c.args or \
                not unparse(c.args[0]).endswith(".reservation"):
            continue
        node = fl.cfg.node_containing(c)
        f = fl.facts(node)
        cname = unparse(c.args[0]).rsplit(".", 1)[0]
        if want_global and keys == ["%s.resource" % cname] and \
                _fact(f, "%s.location is None" % cname, True) and \
                _fact(f, "isinstance(%s, ReserveResourceConstraint)" % cname,
                      True):
            return True
        if not want_global and keys == ["%s.location" % cname,
                                        "%s.resource" % cname] and \
                _fact(f, "%s.location is None" % cname, False) and \
                _fact(f, "isinstance(%s, ReserveResourceConstraint)" % cname,
                      True):
            return True
    return False


def _fact(facts, text, pol):
    return any(unparse(c) == text and p == pol for c, p, _ in facts)


def r4_raises(program, rep):
    fn = program.get(FN)
    names = set(raise_name(r) for r in raises_of(fn))
    for h in ("rig.place_and_route.allocate.utils:slices_overlap",
              "rig.place_and_route.allocate.utils:align"):
        names |= set(raise_name(r) for r in raises_of(program.get(h)))
    rep.check(names <= {"InsufficientResourceError"}, "C05-R4", qual(fn),
              "the allocator's only explicit failure is "
              "InsufficientResourceError", construct="raises %s" %
              sorted(names), node=fn)
    rets = returns_of(fn)
    rep.check(len(rets) == 1, "C05-R4", qual(fn), "single return of the "
              "allocation map", construct="returns", node=fn)


def check(program, rep):
    rep.guard("C05-R1", r1_helpers, program, rep)
    rep.guard("C05-R2", r2_r3, program, rep)
    rep.guard("C05-R4", r4_raises, program, rep)
    return finish(rep, program, EXPLANATION, NOT_DECIDED,
                  trusted=["ORDTYPE evaluator (comparison-only fragment)",
                           "floor-division axioms for a divisor >= 1"])
