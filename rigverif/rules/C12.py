"""C12 - the flood-fill region list selects exactly the requested cores.

R1 one region-word layout (writer siblings agree, per-level masks)
R2 one sub-block index formula and its inverse
R3 collapse is exact; nothing is selected twice; no subtree is discarded;
   every child is visited
R4 ordering and core range

All rules work on value terms (terms.py): the expressions are taken with
temporaries resolved, the level-dependent quantities (shift, scale, mask) are
substituted for each of the four levels and the results compared as bit
layouts (provenance) or arithmetic normal forms, so naming, staging and
operand order of the source do not matter.
"""
import ast

from ..core import AnalysisError, finish, unparse
from ..constfold import Folder
from ..bits import provenance
from ..dataflow import Flow, chain, call_name
from ..poly import Poly, eq
from ..terms import Terms, reify, plain, match, V, ANY, show, subterms, \
    mk_cmp, is_none, stores, method_calls, truth_paths, yields, alternatives, \
    one_level, as_lambda
from ..util import calls_in, qual, formals, raises_of, returns_of

MOD = "rig.machine_control.regions"
TREE = MOD + ":RegionCoreTree"
SELF = ("param", "self")

EXPLANATION = (
    "R1: bit provenance of the region word in get_region_for_chip and in "
    "RegionCoreTree.get_regions_and_coremasks: x block at 31:24, y block at "
    "23:16, level at 17:16, select bits in 15:0; the word is evaluated for "
    "the four levels and must keep exactly the coordinate bits above the "
    "block size 4^(4-level) (which also frees bits 17:16 for the level). R2: "
    "the sub-block index expressions of add_core and get_region_for_chip "
    "have the same normal form for every level; the child's base inverts it "
    "(x part * scale/4 in x, y part * scale/4 in y, scale/4 = 1 << shift). "
    "R3: collapse exactly at 0xffff = all 16 children, never at the root; "
    "the parent bit is set iff the child reported full; a selected sub-block "
    "is not descended into; children are only ever created, never "
    "discarded; the traversal's child indices evaluate to all of 0..15. R4: "
    "the result is sorted by (region, mask); core numbers are checked "
    "against the per-core array size.")
NOT_DECIDED = [
    "exactness of the cover for every subset of cores (an inductive argument "
    "over the tree); R1-R4 are its per-step necessary conditions",
]


def _wp(e):
    for n in ast.walk(e):
        for c in ast.iter_child_nodes(n):
            c._parent = n
    ast.fix_missing_locations(e)
    return e


def _subst(t, m):
    if t in m:
        return m[t]
    if not isinstance(t, tuple) or not t or t[0] == "const":
        return t
    return tuple(_subst(x, m) if isinstance(x, tuple) else x for x in t)


def _fold(t):
    """Fold arithmetic on integer constants (incl. ** // / %) and drop int()
    around what is then integral."""
    if not isinstance(t, tuple) or not t or t[0] == "const":
        return t
    t = tuple(_fold(x) if isinstance(x, tuple) else x for x in t)
    if t[0] == "unop" and t[1] in ("Invert", "USub") and \
            t[2][0] == "const" and isinstance(t[2][1], int) and \
            not isinstance(t[2][1], bool):
        return ("const", ~t[2][1] if t[1] == "Invert" else -t[2][1])
    if t[0] == "binop" and t[1] in ("BitAnd", "BitOr") and \
            t[2][0] == "const" and t[3][0] == "binop" and t[3][1] == t[1] \
            and t[3][2][0] == "const":
        # c1 & (c2 & x): the constants of a chain are combined
        return _fold(("binop", t[1], ("binop", t[1], t[2], t[3][2]),
                      t[3][3]))
    if t[0] == "binop" and t[2][0] == "const" and t[3][0] == "const":
        a, b = t[2][1], t[3][1]
        if all(isinstance(v, (int, float)) and not isinstance(v, bool)
               for v in (a, b)):
            try:
                v = {"Add": lambda: a + b, "Sub": lambda: a - b,
                     "Mult": lambda: a * b, "Pow": lambda: a ** b
                     if abs(b) < 64 else None,
                     "FloorDiv": lambda: a // b, "Mod": lambda: a % b,
                     "Div": lambda: a / b, "LShift": lambda: a << b,
                     "RShift": lambda: a >> b, "BitAnd": lambda: a & b,
                     "BitOr": lambda: a | b, "BitXor": lambda: a ^ b}.get(
                         t[1], lambda: None)()
            except Exception:
                v = None
            if v is not None:
                if isinstance(v, float) and v == int(v):
                    v = int(v)
                return ("const", v)
    if t[0] == "call" and t[1] == ("global", "int") and len(t[2]) == 1 and \
            not any(st[0] == "const" and isinstance(st[1], float)
                    for st in subterms(t[2][0])) and not any(
                        st[0] == "binop" and st[1] == "Div"
                        for st in subterms(t[2][0])):
        return t[2][0]
    return t


class _Levels(object):
    """The tree's level-dependent attributes, from __init__."""

    def __init__(self, program):
        init = program.get(TREE + ".__init__")
        self.init = init
        T = Terms(init)
        self.lv = ("param", formals(init)[3])
        self.attr = {}
        for b_ in T.binds:
            if b_.mode == "assign" and b_.var.startswith("self."):
                self.attr[b_.var[5:]] = T._bind_term(b_)
        for need in ("shift", "scale", "level", "base_x", "base_y",
                     "locally_selected"):
            if need not in self.attr:
                raise AnalysisError("RegionCoreTree.__init__: self.%s" % need)

    def at(self, t, L):
        """``t`` (a term of a method) at tree level L."""
        m = {}
        for name in ("shift", "scale"):
            m[("attr", SELF, name)] = _subst(plain(self.attr[name]),
                                             {self.lv: ("const", L)})
        m[("attr", SELF, "level")] = ("const", L)
        return _fold(_subst(plain(t), m))


def _arith(t):
    """``t`` with masks by 2**k - 1 and right shifts by constants written as
    the remainders / quotients they are."""
    if not isinstance(t, tuple) or not t or t[0] == "const":
        return t
    t = tuple(_arith(x) if isinstance(x, tuple) else x for x in t)
    if t[0] == "binop" and t[1] == "BitAnd":
        for a, b in ((t[2], t[3]), (t[3], t[2])):
            if b[0] == "const" and isinstance(b[1], int) and b[1] > 0 and \
                    (b[1] + 1) & b[1] == 0:
                return ("binop", "Mod", a, ("const", b[1] + 1))
    if t[0] == "binop" and t[1] == "RShift" and t[3][0] == "const" and \
            isinstance(t[3][1], int) and 0 <= t[3][1] < 64:
        return ("binop", "FloorDiv", t[2], ("const", 1 << t[3][1]))
    return t


def _poly(fl, t):
    return fl.sym(_wp(reify(t)), fl.cfg.entry)


def r1_layout(program, folder, rep):
    fn = program.get(MOD + ":get_region_for_chip")
    inst = qual(fn)
    T = Terms(fn)
    ps = formals(fn)
    x, y, level = ps[0], ps[1], ps[2]
    rets = [T.term(r.value) for r in returns_of(fn) if r.value is not None]
    if len(rets) != 1:
        raise AnalysisError("get_region_for_chip: one return expected")
    R = rets[0]
    def operands(t):
        # the members of the top-level or / sum of the region word
        if t[0] == "binop" and t[1] in ("BitOr", "Add"):
            return operands(t[2]) + operands(t[3])
        return [t]
    sel = [st for st in operands(R) if st[0] == "binop" and
           st[1] == "LShift" and st[2] == ("const", 1)]
    bits = set(st[3] for st in sel)
    if not bits:
        raise AnalysisError("get_region_for_chip: the select bit (1 << "
                            "index) was not found in the form analysed")
    rep.check(len(bits) == 1, "C12-R1", inst, "exactly one select bit (1 << "
              "sub-block index) is set for a single chip",
              construct="select bit", node=fn)
    BIT = list(bits)[0] if len(bits) == 1 else None
    for L in range(4):
        RL = _fold(_subst(plain(R), {("param", level): ("const", L)}))
        lay = provenance(reify(RL))
        lo = 8 - 2 * L
        okx = oky = True
        cover = {x: 0, y: 0}
        opaque = []
        for p in lay.pieces:
            if p.src in (x, y):
                off = 24 if p.src == x else 16
                n = p.n if p.n is not None else 64
                if p.dst_lo - p.src_lo != off or p.src_lo < lo:
                    okx = False
                cover[p.src] |= ((1 << n) - 1) << p.src_lo
            else:
                opaque.append(p)
        full = ((1 << 16) - 1) & ~((1 << lo) - 1)
        ok = okx and cover[x] & 0xffff == full and cover[y] & 0xffff == full \
            and lay.const == L << 16 and len(opaque) == 1 and \
            opaque[0].dst_lo == 0 and opaque[0].src.startswith("1 <<")
        rep.check(ok, "C12-R1", inst, "level %d: region word = x[15:%d] at "
                  "bit 24 | y[15:%d] at bit 16 | level at bit 16 | select "
                  "bit (the bits below the block size %d are cleared)" % (
                      L, lo, lo, 4 ** (4 - L)),
                  construct="level %d region word %r" % (L, lay), node=fn,
                  fail="at level %d the region word is assembled as %r; the "
                       "documented layout has x[15:%d] at bit 24, y[15:%d] "
                       "at bit 16, the level at bit 16 and one select bit "
                       "below" % (L, lay, lo, lo))
    # the tree's region word
    g = program.get(TREE + ".get_regions_and_coremasks")
    G = Terms(g)
    own = [yv for yv in yields(G) if yv[1][0] == "tuple" and len(yv[1]) == 3
           and yv[1][1][0] == "binop" and yv[1][1][1] == "BitOr"]
    oky = False
    lay2 = None
    if len(own) != 1:
        raise AnalysisError("get_regions_and_coremasks: the region word "
                            "yielded for this node was not found in the "
                            "form analysed")
    if len(own) == 1:
        word = own[0][1][1]
        for code, rest in ((word[2], word[3]), (word[3], word[2])):
            lay2 = provenance(reify(plain(code)))
            got2 = sorted((p.src, p.dst_lo, p.src_lo) for p in lay2.pieces)
            if len(got2) == 3 and not any(
                    x[0].startswith("self.") for x in got2):
                raise AnalysisError("get_regions_and_coremasks: the region "
                                    "word is built from another node object "
                                    "than self (an iterative walk?); that "
                                    "form is not analysed")
            if got2 == [("self.base_x", 24, 0), ("self.base_y", 16, 0),
                        ("self.level", 16, 0)] and not lay2.const:
                oky = True
                break
    rep.check(oky, "C12-R1", qual(g),
              "the tree emits base_x << 24 | base_y << 16 | level << 16 (the "
              "same layout as the single-chip word) or-ed with the selected "
              "sub-blocks", construct="tree region code %r" % (lay2,),
              node=g)
    lv = _Levels(program)
    for L in range(4):
        s_ = lv.at(("attr", SELF, "scale"), L)
        h_ = lv.at(("attr", SELF, "shift"), L)
        rep.check(s_ == ("const", 4 ** (4 - L)) and
                  h_ == ("const", 6 - 2 * L), "C12-R2", qual(lv.init),
                  "level %d: scale %d, shift %d, scale/4 == 1 << shift" % (
                      L, 4 ** (4 - L), 6 - 2 * L),
                  construct="tree level %d scale=%s shift=%s" % (
                      L, show(s_), show(h_)), node=lv.init)
    return BIT


def _index_term(A):
    """The sub-block index of add_core: the key used with self.subregions."""
    keys = set()
    for n in ast.walk(A.fn):
        if isinstance(n, ast.Subscript) and \
                chain(n.value) == "self.subregions":
            keys.add(A.term(n.slice, A.cfg.node_containing(n)))
    if len(keys) != 1:
        raise AnalysisError("sub-block index definitions not found")
    if any(st_[0] in ("call", "callv") for st_ in subterms(list(keys)[0])):
        raise AnalysisError("add_core: the sub-block index is obtained "
                            "through a call (e.g. from the region word of "
                            "get_region_for_chip); that form is not "
                            "analysed")
    return list(keys)[0]


def r2_index(program, rep, BIT):
    fn = program.get(MOD + ":get_region_for_chip")
    fl = Flow(fn)
    level = ("param", formals(fn)[2])
    add = program.get(TREE + ".add_core")
    A = Terms(add)
    lv = _Levels(program)
    if BIT is None:
        raise AnalysisError("sub-block index definitions not found")
    IDX = _index_term(A)
    same = shape = True
    detail = ""
    for L in range(4):
        a = _poly(fl, _fold(_subst(plain(BIT), {level: ("const", L)})))
        b = _poly(fl, lv.at(IDX, L))
        if a != b:
            same = False
            detail = "level %d: %r vs %r" % (L, b, a)
        xs = [m for m, c in a.t.items() if c == 1 and m and "x" in m[0] and
              "y" not in m[0]]
        ysv = [m for m, c in a.t.items() if c == 4 and m and "y" in m[0] and
               "x" not in m[0].replace("bitand", "").replace("rshift", "")
               .replace("lshift", "")]
        shape = shape and len(a.t) == 2 and len(xs) == 1 and len(ysv) == 1
    rep.check(same, "C12-R2", qual(add), "add_core and get_region_for_chip "
              "compute the same sub-block index ((x >> shift) & 3) + 4 * ((y "
              ">> shift) & 3) at every level", construct="index forms %s" %
              detail, node=add,
              fail="the sub-block index of add_core differs from "
                   "get_region_for_chip's: %s" % detail)
    rep.check(shape, "C12-R2", qual(fn), "index = x part + 4 * y part",
              construct="index coefficients", node=fn)
    # the child: created one level down, its base inverts the index
    cr = [c for c in calls_in(add, "RegionCoreTree")]
    okn = okb = len(cr) == 1
    if okn:
        n = A.cfg.node_containing(cr[0])
        ci = program.get(TREE + ".__init__")
        names = formals(ci)[1:]
        b_ = dict(zip(names, [A.term(a_, n) for a_ in cr[0].args]))
        for k in cr[0].keywords:
            b_[k.arg] = A.term(k.value, n)
        okn = plain(b_.get(names[2], ("?",))) in (
            ("binop", "Add", ("attr", SELF, "level"), ("const", 1)),
            ("binop", "Add", ("const", 1), ("attr", SELF, "level")))
        afl = Flow(add)
        for L in range(3):
            sh = 6 - 2 * L
            step = 4 ** (4 - L) // 4
            for nm, var, want in (
                    (names[0], "x", "self.base_x + %d * ((x >> %d) & 3)"),
                    (names[1], "y", "self.base_y + %d * ((y >> %d) & 3)")):
                # (x & (2**k - 1) and x >> k read as x % 2**k and
                # x // 2**k on both sides: the same numbers for every int)
                got = _poly(afl, _arith(lv.at(b_.get(nm, ("?",)), L)))
                exp = _poly(afl, _arith(plain(A.term(_wp(ast.parse(
                    want % (step, sh), mode="eval").body), A.cfg.entry))))
                if got != exp and not afl.prove(afl.cfg.entry, eq(got, exp),
                                                use_facts=False):
                    okb = False
    rep.check(okb, "C12-R2", qual(add), "a child's base is the "
              "parent's base + (scale/4) * (the index's x part) in x and "
              "(its y part) in y: the inverse of the index formula",
              construct="child base", node=add)
    rep.check(okn, "C12-R2", qual(add), "the child covers that sub-block at "
              "level + 1", construct="child construction", node=add)


def r3_collapse(program, folder, rep):
    add = program.get(TREE + ".add_core")
    inst = qual(add)
    A = Terms(add)
    cfg = A.cfg
    ps = formals(add)
    P_ = ("param", ps[3])
    SEL = ("attr", SELF, "locally_selected")
    CELL = ("item", SEL, P_)
    LEVEL = ("attr", SELF, "level")
    SUBS = ("attr", SELF, "subregions")
    IDX = _index_term(A)
    BITV = ("binop", "LShift", ("const", 1), IDX)
    for n_, st_, base_, key_, val_ in stores(A):
        if plain(base_) == SEL and val_[0] in ("phi", "mu"):
            # the new selection is worked out in a local over several
            # branches and written back once
            raise AnalysisError("add_core: the node's selection is worked "
                                "out in a local and stored afterwards; not "
                                "analysed in this form")
    full = (mk_cmp("Eq", CELL, ("const", 0xffff)), True)
    notroot = (mk_cmp("Eq", LEVEL, ("const", 0)), False)
    paths = truth_paths(A)
    ok = bool(paths)
    for ps_ in paths:
        here = set((plain(t), p) for t, p in ps_)
        # (levels are 0..3: 'not the root' may be written level != 0,
        # level > 0, level >= 1 or as the truth of level)
        ok = ok and full in here and (
            notroot in here or (LEVEL, True) in here or
            (mk_cmp("Lt", ("const", 0), LEVEL), True) in here or
            (mk_cmp("LtE", ("const", 1), LEVEL), True) in here)
    rep.check(ok, "C12-R3", inst, "a node reports 'full' "
              "for a core iff all 16 sub-blocks are selected (== 0xffff) and "
              "it is not the root", construct="collapse condition",
              node=add)
    # and clears its own selection when it does
    H = A.under(full, notroot)
    clears = [x for x in stores(A) if plain(x[2]) == SEL and x[3] == P_ and
              x[4] == ("const", 0)]
    okc = len(clears) == 1 and H.live(clears[0][0]) and \
        full in [(plain(t), p) for t, p in A.all_facts(clears[0][0])]
    if okc and not H.must_pass(cfg.entry, lambda n: n is clears[0][0],
                               targets=[cfg.exit]):
        # some path leaves before the final test (e.g. an early return when
        # nothing changed): whether the selection can be complete there
        # depends on an invariant of the tree, not on this function's shape
        raise AnalysisError("add_core: not every path reaches the "
                            "'complete?' test; whether the paths that skip "
                            "it can be complete is not analysed")
    rep.check(okc, "C12-R3", inst, "a collapsing node clears its own "
              "selection (the parent's bit now stands for it)",
              construct="collapse clears", node=add)
    # selections of sub-blocks
    sets = [x for x in stores(A) if plain(x[2]) == SEL and x[3] == P_ and
            plain(x[4]) in (("binop", "BitOr", CELL, plain(BITV)),
                            ("binop", "BitOr", plain(BITV), CELL))]
    rec = [(n, c, recv, args) for n, c, recv, args in
           method_calls(A, "add_core")]
    oks = okd = False
    child = None
    if len(rec) == 1:
        n, c, recv, args = rec[0]
        child = recv
        is_child = any(plain(x) == ("item", SUBS, plain(IDX)) or (
            plain(x)[0] == "call" and
            plain(x)[1] == ("global", "RegionCoreTree"))
            for x in alternatives(recv))
        callt = A.term(c, n)
        def after_full(s_):
            # the store is reached only with the child having reported full
            # (or without the child having been asked at all: the leaf level)
            if (callt, True) in A.all_facts(s_[0]):
                return True
            paths_ = A.facts_by_path(s_[0])
            return bool(paths_) and all(
                (callt, True) in f_ or not cfg.reaches(n, ent_)
                for ent_, f_ in paths_) and any(
                (callt, True) in f_ for _, f_ in paths_)
        oks = is_child and args == [("param", p_) for p_ in ps[1:]] and any(
            after_full(s_) for s_ in sets)
        test = ("binop", "BitAnd", CELL, plain(BITV))
        test2 = ("binop", "BitAnd", plain(BITV), CELL)
        tests = [test, test2]
        bv_ = plain(BITV)
        if bv_[0] == "binop" and bv_[1] == "LShift" and \
                bv_[2] == ("const", 1):
            # (cell >> i) & 1 is the same bit
            sh_ = ("binop", "RShift", CELL, bv_[3])
            tests += [("binop", "BitAnd", sh_, ("const", 1)),
                      ("binop", "BitAnd", ("const", 1), sh_)]

        def bit_clear(t, p):
            t = plain(t)
            if t in tests:
                return p is False
            if t[0] == "cmp" and t[1] == "Eq":
                for a_, b_ in ((t[2], t[3]), (t[3], t[2])):
                    if a_ in tests and b_ == ("const", 0):
                        return p is True
                    if a_ in tests[2:] and b_ == ("const", 1):
                        return p is False
            return False
        okd = any(bit_clear(t, p) for t, p in A.all_facts(n))
    # (levels run 0..3 - checked by R2 - so ``level >= 3`` is ``level == 3``)
    okl = any(lf_ in [(plain(t), p) for t, p in A.all_facts(s_[0])]
              for s_ in sets for lf_ in (
                  (mk_cmp("Eq", LEVEL, ("const", 3)), True),
                  (mk_cmp("LtE", ("const", 3), LEVEL), True),
                  (mk_cmp("Lt", ("const", 2), LEVEL), True)))
    flagged = any(t[0] in ("mu", "phi") for s_ in sets
                  for t, p in A.all_facts(s_[0]))
    if flagged and not (oks and okl):
        # the selection is made under a flag variable set on several paths
        # (leaf / child reported full): which path set it is not followed
        raise AnalysisError("add_core: the sub-block is selected under a "
                            "flag variable; the paths that set it are not "
                            "followed by these rules")
    rep.check(oks, "C12-R3", inst, "the parent selects a sub-block exactly "
              "when the child covering it reported full for that core (and "
              "forwards the same x, y, p)", construct="parent bit on full",
              node=add)
    rep.check(okd, "C12-R3", inst, "a sub-block already selected for the "
              "core is not descended into again (nothing is selected twice)",
              construct="no double selection", node=add)
    # children are only ever created (under 'is None'), never discarded
    sub_st = [x for x in stores(A) if plain(x[2]) == SUBS]
    okst = bool(sub_st)
    for n, st, base, key, val in sub_st:
        pv = plain(val)
        okst = okst and key == IDX and pv[0] == "call" and \
            pv[1] == ("global", "RegionCoreTree") and \
            (is_none(("item", SUBS, IDX)), True) in [
                (plain(t), p) for t, p in A.all_facts(n)]
    cls = program.get(TREE)
    others = 0
    for m_ in cls.body:
        if isinstance(m_, ast.FunctionDef) and m_.name not in ("__init__",
                                                               "add_core"):
            for n_ in ast.walk(m_):
                if isinstance(n_, (ast.Assign, ast.Delete, ast.AugAssign)):
                    tg = n_.targets if not isinstance(n_, ast.AugAssign) \
                        else [n_.target]
                    others += sum(1 for t_ in tg if isinstance(
                        t_, ast.Subscript) and
                        chain(t_.value) == "self.subregions")
    dels = sum(1 for n_ in ast.walk(add) if isinstance(n_, ast.Delete))
    rep.check(okst and not others and not dels, "C12-R3", inst, "child "
              "sub-trees are only created (when missing), never replaced or "
              "discarded - other cores' partial selections below a "
              "collapsed block survive",
              construct="subtree stores %d/%d" % (len(sub_st), others),
              node=add,
              fail="a child sub-tree is overwritten or released: selections "
                   "held further down (for other cores) are lost",
              positive=_releases_subtree(cls))
    # (levels run 0..3 - checked by R2 - so ``level >= 3`` is ``level == 3``)
    okl = any(lf_ in [(plain(t), p) for t, p in A.all_facts(s_[0])]
              for s_ in sets for lf_ in (
                  (mk_cmp("Eq", LEVEL, ("const", 3)), True),
                  (mk_cmp("LtE", ("const", 3), LEVEL), True),
                  (mk_cmp("Lt", ("const", 2), LEVEL), True)))
    rep.check(okl, "C12-R3", inst, "at the chip level the chip's bit is set "
              "directly", construct="leaf select", node=add)
    # child array has 16 entries <-> 0xffff
    lv = _Levels(program)
    I = Terms(lv.init)
    ok16 = False
    for b_ in I.binds:
        if b_.var == "self.subregions" and b_.mode == "assign":
            t = plain(I._bind_term(b_))
            if t[0] in ("dict", "dictcomp") or (
                    t[0] == "call" and t[1][0] == "global" and
                    t[1][1] in ("dict", "defaultdict", "OrderedDict")):
                raise AnalysisError("RegionCoreTree keeps its children in a "
                                    "mapping, not in a 16-slot list; that "
                                    "form is not analysed")
            ok16 = t in (("binop", "Mult", ("const", 16), ("list",
                                                          ("const", None))),
                         ("binop", "Mult", ("list", ("const", None)),
                          ("const", 16)),
                         ("listcomp", ("const", None),
                          ((("call", ("global", "range"), (("const", 16),),
                             ()), ()),)))
    rep.check(ok16, "C12-R3", qual(lv.init), "16 children per node (matches "
              "the 16-bit selection word)", construct="child array size",
              node=lv.init)
    # traversal visits all 16 children
    g = program.get(TREE + ".get_regions_and_coremasks")
    G = Terms(g)
    idx = None
    keys = set()
    for n_ in ast.walk(g):
        if isinstance(n_, ast.Subscript) and \
                chain(n_.value) == "self.subregions":
            keys.add(G.term(n_.slice, G.cfg.node_containing(n_)))
    if len(keys) == 1:
        key = list(keys)[0]
        loops = sorted(set(st for st in subterms(key)
                           if st[0] == "elem" and st[1][0] == "call" and
                           st[1][1] == ("global", "range")), key=repr)
        try:
            doms = [list(range(*[a[1] for a in lp[1][2]])) for lp in loops]
            import itertools
            idx = []
            for combo in itertools.product(*doms):
                t = _fold(_subst(key, {lp: ("const", v)
                                       for lp, v in zip(loops, combo)}))
                idx.append(t[1] if t[0] == "const" else None)
        except Exception:
            idx = None
    if idx is None or None in idx:
        raise AnalysisError("get_regions_and_coremasks: the order in which "
                            "the sixteen children are visited is not given "
                            "by foldable indices in this form")
    rep.check(idx is not None and None not in idx and
              sorted(idx) == list(range(16)), "C12-R3",
              qual(g), "the traversal visits each of the 16 children exactly "
              "once", construct="traversal indices %s" % (
                  sorted(idx) if idx is not None and None not in idx
                  else None), node=g,
              fail="the traversal's child indices are %s, not a permutation "
                   "of 0..15: a sub-block's cores are never emitted" % (
                       sorted(idx) if idx is not None and None not in idx
                       else "not foldable"))
    rep.floor("C12-R3", 8)


def r4_order(program, folder, rep):
    fn = program.get(MOD + ":compress_flood_fill_regions")
    inst = qual(fn)
    T = Terms(fn)
    rets = [(T.cfg.node_of(r), T.term(r.value)) for r in returns_of(fn)
            if r.value is not None]
    ok = False
    detail = ""
    if len(rets) == 1:
        rn, t = rets[0]
        pt = plain(t)

        def walk(x):
            return x[0] == "call" and x[1][0] == "attr" and \
                x[1][2] == "get_regions_and_coremasks" and \
                x[1][1][0] == "call" and \
                x[1][1][1] == ("global", "RegionCoreTree")
        def key_ok(kws):
            # (region << s) | mask with s wide enough for the 18-bit core
            # mask orders exactly like the pair
            if not kws:
                return True
            if len(kws) != 1 or kws[0][0] != "key":
                return None
            k = as_lambda(T, kws[0][1])
            if k[0] != "lambda" or k[1] != 1 or k[2][0] != "binop" or \
                    k[2][1] not in ("BitOr", "Add"):
                return None
            LP = ("lparam", 0)
            for a_, b_ in ((k[2][2], k[2][3]), (k[2][3], k[2][2])):
                if a_[0] == "binop" and a_[1] == "LShift" and \
                        a_[2] == ("comp", LP, 0) and a_[3][0] == "const" and \
                        b_ == ("comp", LP, 1):
                    return a_[3][1] >= 18
            return None
        if pt[0] == "call" and pt[1] == ("global", "sorted") and \
                len(pt[2]) == 1:
            kk = key_ok(pt[3])
            if kk is None:
                raise AnalysisError("compress_flood_fill_regions: the sort "
                                    "key is in a form that is not analysed")
            inner_ = pt[2][0]
            if inner_[0] == "call" and inner_[1] == ("global", "list") and \
                    len(inner_[2]) == 1:
                inner_ = inner_[2][0]
            ok = kk and walk(inner_)
            detail = "sorted(...)"
        elif pt[0] == "call" and pt[1] == ("global", "list") and \
                len(pt[2]) == 1 and walk(pt[2][0]):
            srt = [x for x in method_calls(T, "sort")
                   if x[2] == t and not x[1].keywords and not x[3]]
            ok = len(srt) == 1 and T.cfg.dominates(srt[0][0], rn)
            detail = "list(...) then .sort()"
    rep.check(ok, "C12-R4", inst, "the pairs are returned sorted by region "
              "word, then core mask (strictly increasing, as the loader "
              "requires)", construct="result order: %s" % detail, node=fn,
              fail="the result is not sorted by (region, core mask)")
    # every requested core is added with its own chip coordinates, to a tree
    # that starts at the root (level 0: the whole machine)
    E = ("elem", ("items", ("param", formals(fn)[0])))
    adds = method_calls(T, "add_core")
    roots = [c for c in calls_in(fn, "RegionCoreTree")]
    rep.check(len(roots) == 1 and not roots[0].args and
              not roots[0].keywords and len(adds) == 1 and
              plain(adds[0][2]) == ("call", ("global", "RegionCoreTree"),
                                    (), ()), "C12-R4", inst,
              "the cores are collected in one tree that starts at the root "
              "(only the root never collapses, so nothing a full block "
              "reports upwards is lost)", construct="root tree", node=fn,
              fail="the region tree is not started at the root level: a "
                   "block that fills completely reports 'full' to a parent "
                   "that does not exist and its cores are dropped")
    oka = len(adds) == 1 and adds[0][3] == [
        ("comp", ("comp", E, 0), 0), ("comp", ("comp", E, 0), 1),
        ("elem", ("comp", E, 1))]
    rep.check(oka, "C12-R4", inst, "each target core is inserted under its "
              "chip's own (x, y)", construct="add_core arguments", node=fn)
    if oka:
        # ... every one of them: no test on the chip or the core stands
        # between the loops over the targets and the insertion
        skip = [(t_, p_) for t_, p_ in T.all_facts(adds[0][0])
                if any(st_ == E for st_ in subterms(t_))]
        # (a test with several operands guards by paths, not by one fact:
        # walk the loops - each iteration of each loop around the insertion
        # must reach the next inner loop / the insertion itself)
        cfg_ = T.cfg
        target = adds[0][0]
        node_ = adds[0][1]
        lp_ = getattr(node_, "_parent", None)
        while lp_ is not None and lp_ is not fn:
            if isinstance(lp_, ast.For) and id(lp_) in cfg_.loop_head:
                head_ = cfg_.loop_head[id(lp_)]
                body_ = [s_ for s_ in head_.succ if s_.label == "forbody"]
                if body_ and not cfg_.must_pass(
                        body_[0], lambda n_, t_=target: n_ is t_,
                        targets=[head_, cfg_.exit]):
                    skip.append((("const", "an iteration of the loop at "
                                  "line %d can end without reaching it" %
                                  lp_.lineno), True))
                target = head_
            elif isinstance(lp_, ast.While):
                break
            lp_ = getattr(lp_, "_parent", None)
        rep.check(not skip, "C12-R4", inst, "every target core is inserted "
                  "(nothing is filtered out before add_core)",
                  construct="all targets inserted", node=fn,
                  fail="some targets never reach add_core (only those with "
                       "%s do): the cores requested on the chips left out "
                       "are missing from the regions and are never loaded" %
                       "; ".join("%s%s" % ("" if p_ else "not ",
                                           show(t_)[:60])
                                 for t_, p_ in skip))
    if oka:
        guards = T.all_facts(adds[0][0])
        rep.check(not guards, "C12-R4", inst, "every core of every target "
                  "chip is inserted: nothing filters the chips or cores",
                  construct="all targets inserted", node=fn,
                  fail="cores are inserted only when %s: a requested core "
                       "(e.g. core 0, which is falsy) can be left out of "
                       "the regions" % " and ".join(
                           "%s%s" % ("" if p_ else "not ", show(t)[:60])
                           for t, p_ in guards))
    add = program.get(TREE + ".add_core")
    A = Terms(add)
    P_ = ("param", formals(add)[3])
    rz = [A.cfg.node_of(r) for r in raises_of(add)]
    okp = bool(rz)
    for hyps in ([(mk_cmp("Lt", P_, ("const", 0)), True)],
                 [(mk_cmp("Lt", ("const", 17), P_), True),
                  (mk_cmp("LtE", ("const", 18), P_), True)]):
        H = A.under(*hyps)
        okp = okp and H.must_pass(A.cfg.entry, lambda n: n in rz,
                                  targets=[A.cfg.exit])
    lv = _Levels(program)
    sel = plain(lv.attr["locally_selected"])
    ok18 = any(st in (("call", ("global", "range"), (("const", 18),), ()),
                      ("binop", "Mult", ("const", 18), ("list", ("const",
                                                                 0))),
                      ("binop", "Mult", ("list", ("const", 0)),
                       ("const", 18))) for st in subterms(sel))
    rep.check(okp and ok18, "C12-R4", qual(add), "core numbers outside 0..17 "
              "are rejected; the per-core array has 18 entries",
              construct="core range", node=add)
    # own pairs sorted within a node
    g = program.get(TREE + ".get_regions_and_coremasks")
    # the own pairs are yielded from a loop over something sorted (directly,
    # or through groupby over a sorted sequence)
    GG = Terms(g)
    oks = False
    dropped = None
    for n in ast.walk(g):
        if isinstance(n, ast.For) and id(n) in GG.cfg.loop_head and any(
                isinstance(y_, ast.Yield) for y_ in ast.walk(n)):
            it_ = plain(GG.term(n.iter, GG.cfg.loop_head[id(n)]))
            if any(st_[0] == "call" and st_[1] == ("global", "sorted")
                   for st_ in subterms(it_)) and it_[0] == "call" and (
                    it_[1] == ("global", "sorted") or
                    it_[1][-1] == "groupby"):
                oks = True
            if it_[0] == "item" and it_[2][0] == "slice" and \
                    it_[1][0] == "call" and it_[1][1] == ("global",
                                                          "sorted") and \
                    it_[2][1][0] == "const" and \
                    isinstance(it_[2][1][1], int) and it_[2][1][1] >= 1 and \
                    not any(st_[0] in ("set", "tuple", "list") and
                            ("const", 0) in st_[1:] for st_ in subterms(
                                it_[1])):
                # sorted(<selections>)[1:] - the smallest left out by
                # position, on the belief that it is the empty selection
                # (nothing puts one there: with every core selected it is
                # a real one)
                dropped = n
    if dropped is not None:
        rep.bad("C12-R4", qual(g), "node pairs by position",
                "the node's own pairs are taken from the sorted selections "
                "with the first %d left out by position: that one is the "
                "empty selection only while some core number is unused at "
                "the node - when all 18 are selected the smallest real "
                "selection is left out and its cores are never loaded" %
                plain(GG.term(dropped.iter, GG.cfg.loop_head[id(dropped)])
                      )[2][1][1], dropped)
        return
    if not oks and not any(
            isinstance(c_, ast.Call) and call_name(c_)[0] in ("sorted",
                                                              "sort")
            for c_ in ast.walk(g)):
        pass        # no sorting at all: a violation
    elif not oks:
        raise AnalysisError("get_regions_and_coremasks: how the node's own "
                            "pairs are ordered is not analysed in this form")
    rep.check(oks, "C12-R4", qual(g), "a node's own pairs are emitted in "
              "increasing order of their select bits",
              construct="node pairs sorted", node=g)


def r3_grouping(program, rep):
    """Within a node every core belongs to exactly one pair: the one of its
    own set of selected sub-blocks (cores are grouped by *equal* selections;
    grouping by containment lists a core under every smaller selection
    too, so it is selected twice)."""
    g = program.get(TREE + ".get_regions_and_coremasks")
    inst = qual(g)
    T = Terms(g)
    LS = ("attr", SELF, "locally_selected")
    CORE, OWN = ("index", LS), ("elem", LS)
    BIT = ("binop", "LShift", ("const", 1), CORE)
    seen = []
    for n, st, base, key, val in stores(T):
        v = plain(val)
        if v[0] == "binop" and v[1] == "BitOr" and BIT in (v[2], v[3]):
            k_ = plain(key)
            if k_ != OWN and k_[0] == "item" and any(
                    st_ == OWN for st_ in subterms(k_[2])):
                # filed under a slot looked up by the core's own selection
                raise AnalysisError("get_regions_and_coremasks: cores are "
                                    "filed under a slot looked up from "
                                    "their selection; not analysed")
            seen.append((st, plain(key) == OWN, "filed under %s" %
                         show(plain(key))[:40]))
    for b_ in T.binds:
        if b_.mode != "aug":
            continue
        v = plain(T._bind_term(b_))
        if not (v[0] == "binop" and v[1] == "BitOr" and
                BIT in (v[2], v[3])):
            continue
        verdict = None
        for t, p in T.all_facts(b_.node):
            t = plain(t)
            if not (p and t[0] == "cmp" and t[1] == "Eq"):
                continue
            sides = (t[2], t[3])
            if OWN in sides:
                verdict = (True, "equal selections")
            elif any(x[0] == "binop" and x[1] == "BitAnd" and
                     OWN in (x[2], x[3]) for x in sides):
                verdict = (False, "selections that contain the pair's "
                           "sub-blocks (a containment test)")
        if verdict is None:
            raise AnalysisError("get_regions_and_coremasks: the test under "
                                "which a core joins a pair was not read")
        seen.append((b_.node.ast,) + verdict)
    if not seen:
        raise AnalysisError("get_regions_and_coremasks: how cores are "
                            "grouped into the node's own pairs is not "
                            "analysed in this form")
    for st, ok, what in seen:
        rep.check(ok, "C12-R3", inst, "a core is listed under its own set "
                  "of selected sub-blocks only", construct="core grouping",
                  node=st,
                  fail="cores are grouped by %s: a core whose selection "
                       "strictly contains another core's is listed in both "
                       "pairs and selected twice" % what)



def _releases_subtree(cls):
    """Does any method of the tree class store None into (or delete) an
    entry of self.subregions - outside __init__?  (evidence of its own that
    sub-trees are discarded, whatever else the method looks like)"""
    for m_ in cls.body:
        if not isinstance(m_, ast.FunctionDef) or m_.name == "__init__":
            continue
        for n_ in ast.walk(m_):
            if isinstance(n_, ast.Delete) and any(
                    isinstance(t_, ast.Subscript) and
                    chain(t_.value) == "self.subregions"
                    for t_ in n_.targets):
                return True
            if isinstance(n_, ast.Assign) and isinstance(
                    n_.value, ast.Constant) and n_.value.value is None and \
                    any(isinstance(t_, ast.Subscript) and
                        chain(t_.value) == "self.subregions"
                        for t_ in n_.targets):
                return True
    return False

def check(program, rep):
    program.module(MOD)
    folder = Folder(program)
    bit = rep.guard("C12-R1", r1_layout, program, folder, rep)
    rep.guard("C12-R2", r2_index, program, rep, bit)
    rep.guard("C12-R3", r3_collapse, program, folder, rep)
    rep.guard("C12-R3", r3_grouping, program, rep)
    rep.guard("C12-R4", r4_order, program, folder, rep)
    rep.floor("C12-R1", 5)
    rep.floor("C12-R2", 7)
    # arguments handed to package functions under the wrong name / same-
    # named optional parameters not passed on (NAMELINK, DESIGN.md 9.13)
    from .. import namelink as _nl
    rep.guard("C12-R5", _nl.rule, program, rep, "C12-R5",
              [m for m in sorted(program.modules) if m.startswith("rig.machine_control")])
    return finish(rep, program, EXPLANATION, NOT_DECIDED,
                  trusted=["region word layout as stated in the property and "
                           "the SC&MP flood-fill documentation (x block "
                           "31:24, y block 23:16, level 17:16, select 15:0)"])
