"""C12 - the flood-fill region list selects exactly the requested cores.

R1 one region-word layout (writer siblings agree, per-level masks)
R2 one sub-block index formula and its inverse
R3 collapse is exact; nothing is selected twice; no subtree is discarded;
   every child is visited
R4 ordering and core range
"""
import ast
import copy

from ..core import AnalysisError, finish, unparse
from ..constfold import Folder
from ..bits import provenance
from ..dataflow import Flow, chain, call_name
from ..poly import Poly
from ..util import calls_in, qual, formals, raises_of, returns_of, has_fact

MOD = "rig.machine_control.regions"
TREE = MOD + ":RegionCoreTree"

EXPLANATION = (
    "R1: bit provenance of the region word in get_region_for_chip and in "
    "RegionCoreTree.get_regions_and_coremasks: x block at 31:24, y block at "
    "23:16, level at 17:16, select bits in 15:0; the per-level mask is "
    "folded for the four levels and must clear exactly the bits below the "
    "block size 4^(4-level) (which also frees bits 17:16 for the level). R2: "
    "the sub-block index expressions of add_core and get_region_for_chip "
    "have the same normal form; the child's base inverts it (x <- index % 4, "
    "y <- index // 4, step scale/4 = 1 << shift for all four levels). R3: "
    "collapse exactly at 0xffff = all 16 children, never at the root; the "
    "parent bit is set iff the child reported full; a selected sub-block is "
    "not descended into; children are only ever created, never discarded; "
    "the traversal's child indices fold to all of 0..15. R4: the result is "
    "sorted by (region, mask); core numbers are checked against the per-core "
    "array size.")
NOT_DECIDED = [
    "exactness of the cover for every subset of cores (an inductive argument "
    "over the tree); R1-R4 are its per-step necessary conditions",
]


def _fold_with(folder, mod, expr, env):
    return folder.eval(expr, dict(env), mod)


def r1_layout(program, folder, rep):
    fn = program.get(MOD + ":get_region_for_chip")
    inst = qual(fn)
    mod = fn._module
    fl = Flow(fn)
    ps = formals(fn)
    x, y, level = ps[0], ps[1], ps[2]
    rets = returns_of(fn)
    if len(rets) != 1:
        raise AnalysisError("get_region_for_chip: one return expected")
    rn = fl.cfg.node_of(rets[0])
    e = rets[0].value
    if chain(e):
        ds = fl.reaching(chain(e), rn)
        if len(ds) == 1 and ds[0].mode == "assign":
            e = ds[0].value
    lay = provenance(e)
    got = sorted((p.src, p.dst_lo) for p in lay.pieces)
    # sources: nx, ny, level, and "1 << bit" (opaque)
    byname = {p.src: p for p in lay.pieces}

    def defn(nm):
        ds = [d for d in fl.defs if d.var == nm and d.mode == "assign"]
        return ds[0].value if len(ds) == 1 else None
    ok = False
    nxn = nyn = None
    for p in lay.pieces:
        v = defn(p.src) if p.src.isidentifier() else None
        if v is not None and isinstance(v, ast.BinOp) and \
                isinstance(v.op, ast.BitAnd):
            if chain(v.left) == x and p.dst_lo == 24:
                nxn = (p.src, chain(v.right))
            if chain(v.left) == y and p.dst_lo == 16:
                nyn = (p.src, chain(v.right))
    lvl = [p for p in lay.pieces if p.src == level and p.dst_lo == 16]
    sel = [p for p in lay.pieces if p.dst_lo == 0]
    ok = nxn is not None and nyn is not None and len(lvl) == 1 and \
        len(sel) == 1 and len(lay.pieces) == 4 and nxn[1] == nyn[1]
    rep.check(ok, "C12-R1", inst, "region word = (x & mask) << 24 | (y & "
              "mask) << 16 | level << 16 | select bit",
              construct="region word %r" % (lay,), node=rets[0],
              fail="the region word is assembled as %r; the documented "
                   "layout has the x block at bit 24, the y block at bit 16, "
                   "the level at bit 16 and the select bits at bit 0" %
                   (lay,))
    # select bit is 1 << bit
    oks = False
    if sel:
        try:
            se = ast.parse(sel[0].src, mode="eval").body
            oks = isinstance(se, ast.BinOp) and isinstance(se.op, ast.LShift)\
                and isinstance(se.left, ast.Constant) and se.left.value == 1
            bitname = chain(se.right)
        except SyntaxError:
            bitname = None
    rep.check(oks, "C12-R1", inst, "exactly one select bit (1 << sub-block "
              "index) is set for a single chip",
              construct="select bit", node=rets[0])
    # per-level folding of shift and mask
    maskname = nxn[1] if nxn else None
    shift_e = defn("shift")
    mask_e = defn(maskname) if maskname else None
    if shift_e is None or mask_e is None:
        raise AnalysisError("get_region_for_chip: shift/mask definitions")
    for L in range(4):
        sh = _fold_with(folder, mod, shift_e, {level: L})
        mk = _fold_with(folder, mod, mask_e, {level: L, "shift": sh})
        scale = 4 ** (4 - L)
        want_mask = 0xffff & ~(scale - 1)
        rep.check(sh == 6 - 2 * L and mk == want_mask and (mk & 3) == 0,
                  "C12-R1", inst, "level %d: shift %d, mask 0x%04x clears "
                  "exactly the bits below the block size %d" % (
                      L, 6 - 2 * L, want_mask, scale),
                  construct="level %d shift=%r mask=%r" % (L, sh, mk),
                  node=fn)
    # the tree's region word
    g = program.get(TREE + ".get_regions_and_coremasks")
    gfl = Flow(g)
    rc = [d for d in gfl.defs if d.mode == "assign" and
          isinstance(d.value, ast.BinOp) and "<<" in unparse(d.value) and
          "base_x" in unparse(d.value)]
    if len(rc) != 1:
        raise AnalysisError("get_regions_and_coremasks: region code")
    lay2 = provenance(rc[0].value)
    got2 = sorted((p.src, p.dst_lo) for p in lay2.pieces)
    rep.check(got2 == [("self.base_x", 24), ("self.base_y", 16),
                       ("self.level", 16)], "C12-R1", qual(g),
              "the tree emits base_x << 24 | base_y << 16 | level << 16 (the "
              "same layout as the single-chip word)",
              construct="tree region code %r" % (lay2,), node=rc[0].value)
    # pairs yielded are (region_code | subregions, coremask)
    ys = [n for n in ast.walk(g) if isinstance(n, ast.Yield) and
          isinstance(n.value, ast.Tuple)]
    oky = False
    for yv in ys:
        e0 = yv.value.elts[0]
        if isinstance(e0, ast.BinOp) and isinstance(e0.op, ast.BitOr) and \
                chain(e0.left) == rc[0].var:
            oky = True
    rep.check(oky, "C12-R1", qual(g), "each pair is (region code | selected "
              "sub-blocks, core mask)", construct="tree pair", node=g)
    # base alignment: child base = parent base + (scale/4) * index part, and
    # scale/4 == 1 << shift for every level
    init = program.get(TREE + ".__init__")
    ifl = Flow(init)
    sc = [d for d in ifl.defs if d.var == "self.scale"]
    sf = [d for d in ifl.defs if d.var == "self.shift"]
    if len(sc) != 1 or len(sf) != 1:
        raise AnalysisError("RegionCoreTree.__init__: scale/shift")
    lv = formals(init)[3]
    for L in range(4):
        s_ = _fold_with(folder, init._module, sc[0].value, {lv: L})
        h_ = _fold_with(folder, init._module, sf[0].value, {lv: L})
        rep.check(s_ == 4 ** (4 - L) and h_ == 6 - 2 * L and
                  s_ // 4 == 1 << h_, "C12-R2", qual(init),
                  "level %d: scale %d, shift %d, scale/4 == 1 << shift" % (
                      L, 4 ** (4 - L), 6 - 2 * L),
                  construct="tree level %d scale=%r shift=%r" % (L, s_, h_),
                  node=init)
    return bitname


def r2_index(program, rep, bitname):
    fn = program.get(MOD + ":get_region_for_chip")
    fl = Flow(fn)
    bd = [d for d in fl.defs if d.var == bitname and d.mode == "assign"]
    add = program.get(TREE + ".add_core")
    afl = Flow(add)
    sd = [d for d in afl.defs if d.var == "subregion" and d.mode == "assign"]
    if len(bd) != 1 or len(sd) != 1:
        raise AnalysisError("sub-block index definitions not found")
    # evaluate add_core's expression in get_region_for_chip's name space
    e = ast.parse(unparse(sd[0].value), mode="eval").body

    class Ren(ast.NodeTransformer):
        def visit_Attribute(self, node):
            if chain(node) == "self.shift":
                return ast.copy_location(ast.Name(id="shift",
                                                  ctx=ast.Load()), node)
            return self.generic_visit(node)
    e = Ren().visit(e)
    ast.fix_missing_locations(e)
    for n in ast.walk(e):
        for c in ast.iter_child_nodes(n):
            c._parent = n
    a = fl.sym(bd[0].value, bd[0].node)
    b = fl.sym(e, bd[0].node)
    rep.check(a == b, "C12-R2", qual(add), "add_core and get_region_for_chip "
              "compute the same sub-block index ((x >> shift) & 3) + 4 * ((y "
              ">> shift) & 3)", construct="index forms %r vs %r" % (a, b),
              node=sd[0].value,
              fail="the sub-block index in add_core is %r but "
                   "get_region_for_chip uses %r" % (b, a))
    # shape: coefficient 1 on the x part, 4 on the y part
    okc = False
    xs = [m for m, c in a.t.items() if c == 1 and m and "x" in m[0]]
    ysv = [m for m, c in a.t.items() if c == 4 and m and "y" in m[0]]
    okc = len(a.t) == 2 and len(xs) == 1 and len(ysv) == 1
    rep.check(okc, "C12-R2", qual(fn), "index = x part + 4 * y part",
              construct="index coefficients %r" % (a,), node=fn)
    # inverse in add_core: base_x from index % 4, base_y from index // 4
    okx = oky = False
    for d in afl.defs:
        if d.mode == "assign" and d.var in ("base_x", "base_y"):
            t = unparse(d.value)
            want = ("int(self.%s + self.scale / 4 * (subregion %s 4))" % (
                d.var, "%" if d.var == "base_x" else "//"))
            if d.var == "base_x":
                okx = t == want
            else:
                oky = t == want
    rep.check(okx and oky, "C12-R2", qual(add), "a child's base is the "
              "parent's base + (scale/4) * (index % 4) in x and (index // 4) "
              "in y: the inverse of the index formula",
              construct="child base", node=add)
    # and the child is created one level down with those bases
    cr = [c for c in calls_in(add, "RegionCoreTree")]
    okn = len(cr) == 1 and [unparse(a_) for a_ in cr[0].args] == [
        "base_x", "base_y", "self.level + 1"]
    rep.check(okn, "C12-R2", qual(add), "the child covers that sub-block at "
              "level + 1", construct="child construction", node=add)


def r3_collapse(program, folder, rep):
    add = program.get(TREE + ".add_core")
    inst = qual(add)
    fl = Flow(add)
    cfg = fl.cfg
    p = formals(add)[3]
    sel = "self.locally_selected[%s]" % p
    # full <=> == 0xffff, never at the root
    trues = [r for r in returns_of(add) if isinstance(r.value, ast.Constant)
             and r.value.value is True]
    ok = False
    for r in trues:
        f = fl.facts(cfg.node_of(r))
        full = any(isinstance(c, ast.Compare) and unparse(c.left) == sel and
                   isinstance(c.ops[0], ast.Eq) and
                   folder.eval(c.comparators[0], {}, add._module) == 0xffff
                   and pol for c, pol, _ in f)
        notroot = has_fact(f, "self.level != 0", True) or \
            has_fact(f, "self.level == 0", False)
        ok = full and notroot
    rep.check(len(trues) == 1 and ok, "C12-R3", inst, "a node reports 'full' "
              "for a core iff all 16 sub-blocks are selected (== 0xffff) and "
              "it is not the root", construct="collapse condition",
              node=add)
    # and clears its own selection when it does
    okc = False
    for r in trues:
        rn = cfg.node_of(r)
        for d in fl.defs:
            if d.var == "self.locally_selected" and d.mode == "mut" and \
                    isinstance(d.node.ast, ast.Assign) and \
                    unparse(d.node.ast.targets[0]) == sel and \
                    isinstance(d.node.ast.value, ast.Constant) and \
                    d.node.ast.value.value == 0 and \
                    cfg.dominates(d.node, rn):
                okc = True
    rep.check(okc, "C12-R3", inst, "a collapsing node clears its own "
              "selection (the parent's bit now stands for it)",
              construct="collapse clears", node=add)
    # the parent sets exactly that child's bit iff the child returned True
    oks = False
    for c in calls_in(add, "add_core"):
        recv = unparse(call_name(c)[1])
        if recv != "self.subregions[subregion]":
            continue
        # the recursive call is the if-test; its true edge leads to |= bit
        for n in cfg.nodes:
            if n.kind == "assume" and n.ast is c and n.polarity:
                sets = [d.node for d in fl.defs
                        if d.var == "self.locally_selected" and
                        d.mode == "mut" and
                        isinstance(d.node.ast, ast.AugAssign) and
                        unparse(d.node.ast.target) == sel and
                        unparse(d.node.ast.value) == "1 << subregion"]
                oks = any(s_ in n.succ for s_ in sets) and \
                    [unparse(a_) for a_ in c.args] == formals(add)[1:]
            if n.kind == "assume" and n.ast is c and not n.polarity:
                # false edge must not set the bit
                pass
    rep.check(oks, "C12-R3", inst, "the parent selects a sub-block exactly "
              "when the child covering it reported full for that core (and "
              "forwards the same x, y, p)", construct="parent bit on full",
              node=add)
    # no double selection: descent only if the sub-block is not selected yet
    okd = False
    for c in calls_in(add, "add_core"):
        f = fl.facts(cfg.node_containing(c))
        okd = any(unparse(cd) == "%s & 1 << subregion" % sel and not pol
                  for cd, pol, _ in f)
    rep.check(okd, "C12-R3", inst, "a sub-block already selected for the "
              "core is not descended into again (nothing is selected twice)",
              construct="no double selection", node=add)
    # children are only ever created (under 'is None'), never discarded
    stores = [d for d in fl.defs if d.var == "self.subregions" and
              d.mode == "mut" and isinstance(d.node.ast, ast.Assign)]
    okst = bool(stores)
    for d in stores:
        v = d.node.ast.value
        f = fl.facts(d.node)
        okst = okst and isinstance(v, ast.Call) and \
            call_name(v)[0] == "RegionCoreTree" and \
            has_fact(f, "self.subregions[subregion] is None", True)
    others = [n for n in ast.walk(program.get(TREE)) if
              isinstance(n, (ast.Assign, ast.Delete)) and
              "self.subregions[" in unparse(n).split("=")[0] and
              not any(n is d.node.ast for d in stores)]
    rep.check(okst and not others, "C12-R3", inst, "child sub-trees are only "
              "created (when missing), never replaced or discarded - other "
              "cores' partial selections below a collapsed block survive",
              construct="subtree stores %d/%d" % (len(stores), len(others)),
              node=add,
              fail="a child sub-tree is overwritten or released: selections "
                   "held further down (for other cores) are lost")
    # leaf level: select directly
    okl = False
    for d in fl.defs:
        if d.var == "self.locally_selected" and d.mode == "mut" and \
                isinstance(d.node.ast, ast.AugAssign):
            f = fl.facts(d.node)
            if has_fact(f, "self.level == 3", True):
                okl = unparse(d.node.ast.value) == "1 << subregion"
    rep.check(okl, "C12-R3", inst, "at the chip level the chip's bit is set "
              "directly", construct="leaf select", node=add)
    # child array has 16 entries <-> 0xffff
    init = program.get(TREE + ".__init__")
    ok16 = any(isinstance(n, ast.BinOp) and isinstance(n.op, ast.Mult) and
               unparse(n) == "[None] * 16" for n in ast.walk(init))
    rep.check(ok16, "C12-R3", qual(init), "16 children per node (matches "
              "the 16-bit selection word)", construct="child array size",
              node=init)
    # traversal visits all 16 children
    g = program.get(TREE + ".get_regions_and_coremasks")
    loops = [n for n in ast.walk(g) if isinstance(n, ast.For) and
             any(isinstance(s, ast.Subscript) and
                 chain(s.value) == "self.subregions"
                 for s in ast.walk(n))]
    idx = None
    if loops:
        lp = loops[-1] if len(loops) == 1 else loops[0]
        sub = [s for s in ast.walk(lp) if isinstance(s, ast.Subscript) and
               chain(s.value) == "self.subregions"][0]
        iname = chain(sub.slice)
        try:
            dom = folder.eval(lp.iter, {}, g._module)
            if chain(lp.target) == iname:
                idx = list(dom)
            else:
                # index computed from the loop variable
                asg = [s for s in lp.body if isinstance(s, ast.Assign) and
                       chain(s.targets[0]) == iname]
                if asg:
                    idx = [folder.eval(asg[0].value, {chain(lp.target): v},
                                       g._module) for v in dom]
        except AnalysisError:
            idx = None
    rep.check(idx is not None and sorted(idx) == list(range(16)), "C12-R3",
              qual(g), "the traversal visits each of the 16 children exactly "
              "once", construct="traversal indices %s" % (
                  sorted(idx) if idx is not None else None), node=g,
              fail="the traversal's child indices are %s, not a permutation "
                   "of 0..15: a sub-block's cores are never emitted" % (
                       sorted(idx) if idx is not None else "not foldable"))
    # children only below level 3, own pairs first
    rep.floor("C12-R3", 8)


def r4_order(program, folder, rep):
    fn = program.get(MOD + ":compress_flood_fill_regions")
    inst = qual(fn)
    rets = returns_of(fn)
    ok = False
    detail = ""
    if len(rets) == 1 and isinstance(rets[0].value, ast.Call) and \
            call_name(rets[0].value)[0] == "sorted":
        c = rets[0].value
        key = [k.value for k in c.keywords if k.arg == "key"]
        rev = [k.value for k in c.keywords if k.arg == "reverse"]
        src_ok = c.args and isinstance(c.args[0], ast.Call) and \
            call_name(c.args[0])[0] == "get_regions_and_coremasks"
        if not key and not rev:
            ok = bool(src_ok)
            detail = "natural (region, mask) order"
        elif key and not rev and isinstance(key[0], ast.Lambda):
            body = key[0].body
            arg = key[0].args.args[0].arg
            if isinstance(body, ast.Tuple):
                ok = [unparse(e) for e in body.elts] == [
                    "%s[0]" % arg, "%s[1]" % arg] and bool(src_ok)
                detail = "key tuple"
            else:
                lay = provenance(body)
                pcs = {p.src: p for p in lay.pieces}
                r_, m_ = pcs.get("%s[0]" % arg), pcs.get("%s[1]" % arg)
                # core masks are 18 bits wide
                ok = r_ is not None and m_ is not None and \
                    m_.dst_lo == 0 and r_.dst_lo >= 18 and bool(src_ok)
                detail = "key %r" % (lay,)
    rep.check(ok, "C12-R4", inst, "the pairs are returned sorted by region "
              "word, then core mask (strictly increasing, as the loader "
              "requires)", construct="result order: %s" % detail,
              node=rets[0] if rets else fn,
              fail="the result is not sorted by (region, core mask): %s" %
                   detail)
    # every requested core is added with its own chip coordinates
    fl = Flow(fn)
    adds = calls_in(fn, "add_core")
    oka = False
    if len(adds) == 1:
        lp = adds[0]._parent
        outer = None
        while lp is not None and lp is not fn:
            if isinstance(lp, ast.For):
                outer = lp
            lp = lp._parent
        if outer is not None and isinstance(outer.target, ast.Tuple) and \
                isinstance(outer.target.elts[0], ast.Tuple):
            xy = [chain(e) for e in outer.target.elts[0].elts]
            oka = [chain(a) for a in adds[0].args][:2] == xy
    rep.check(oka, "C12-R4", inst, "each target core is inserted under its "
              "chip's own (x, y)", construct="add_core arguments", node=fn)
    add = program.get(TREE + ".add_core")
    afl = Flow(add)
    p = formals(add)[3]
    okp = False
    for r in raises_of(add):
        t = r._parent
        while t is not None and not isinstance(t, ast.If):
            t = t._parent
        if t is None:
            continue
        alts = []

        def flat(e):
            if isinstance(e, ast.BoolOp) and isinstance(e.op, ast.Or):
                for v in e.values:
                    flat(v)
            else:
                alts.append(unparse(e))
        flat(t.test)
        okp = ("%s < 0" % p in alts) and (("%s > 17" % p in alts) or
                                          ("%s >= 18" % p in alts))
    init = program.get(TREE + ".__init__")
    ok18 = any(isinstance(n, ast.Call) and unparse(n) == "range(18)"
               for n in ast.walk(init))
    rep.check(okp and ok18, "C12-R4", qual(add), "core numbers outside 0..17 "
              "are rejected; the per-core array has 18 entries",
              construct="core range", node=add)
    # own pairs sorted within a node
    g = program.get(TREE + ".get_regions_and_coremasks")
    oks = any(isinstance(n, ast.For) and isinstance(n.iter, ast.Call) and
              call_name(n.iter)[0] == "sorted" for n in ast.walk(g))
    rep.check(oks, "C12-R4", qual(g), "a node's own pairs are emitted in "
              "increasing order of their select bits",
              construct="node pairs sorted", node=g)


def check(program, rep):
    program.module(MOD)
    folder = Folder(program)
    bitname = rep.guard("C12-R1", r1_layout, program, folder, rep)
    rep.guard("C12-R2", r2_index, program, rep, bitname)
    rep.guard("C12-R3", r3_collapse, program, folder, rep)
    rep.guard("C12-R4", r4_order, program, folder, rep)
    rep.floor("C12-R1", 8)
    rep.floor("C12-R2", 7)
    return finish(rep, program, EXPLANATION, NOT_DECIDED,
                  trusted=["region word layout as stated in the property and "
                           "the SC&MP flood-fill documentation (x block "
                           "31:24, y block 23:16, level 17:16, select 15:0)"])
