"""C08 - bit-field keys are collision free: fields never overlap or overflow.

R1 the first-fit scan reaches the last position its acceptance test allows
R2 explicitly positioned fields are confined to the bit field; the overlap
   test against every potentially co-present field is half-open intersection
R3 one mask formula everywhere; value shifted by the same start; value range
   check
R4 occupancy accumulated over everything potentially co-present; pass order
R5 widths follow the values given
R6 tags reach every ancestor
"""
import ast

from ..core import AnalysisError, finish, unparse
from ..dataflow import Flow, chain, call_name
from ..absint import Interp
from ..ordtype import weak_orderings, Ordering, Evaluator
from ..poly import Poly, le, lt, eq
from ..util import calls_in, qual, formals, raises_of, raise_name, \
    returns_of, has_fact

BF = "rig.bitfield:BitField"

EXPLANATION = (
    "R1: the symbolic range of the first-fit scan in _assign_field is "
    "compared with the acceptance test start_at + length <= self.length: the "
    "largest start tried plus the length must equal the bit-field length. "
    "R2: under the hypothesis 'start_at is not None' the linear-constraint "
    "interpreter proves 0 <= start_at and start_at + (length or 1) <= "
    "self.length where the field is recorded; the overlap condition is "
    "evaluated on every weak ordering of the four endpoints and must equal "
    "half-open intersection; the loop ranges over potential_fields. R3: the "
    "occupancy / mask expressions are compared as normal forms "
    "((1 << L) - 1) << S. R4-R6: call-order, dominance and must-pass-through "
    "facts.")
NOT_DECIDED = [
    "non-overlap for every hierarchy shape (depends on the contents of the "
    "field tree: which fields potential_fields/enabled_fields return)",
    "int(log(max_value, 2)) + 1 is exact below 2**48 and over-wide above "
    "(over-wide is still wide enough)",
    "two different complete assignments never match each other (follows "
    "from disjointness + R3 when the tree queries are right)",
]


def _mask_form(fl, expr, node):
    """((1 << L) - 1) << S  ->  (L poly, S poly) or None.  In normal form:
    pow2(L) * pow2(S) - pow2(S)."""
    p = fl.sym(expr, node)
    if len(p.t) != 2:
        return None
    single = [m for m, c in p.t.items() if len(m) == 1 and c == -1]
    double = [m for m, c in p.t.items() if len(m) == 2 and c == 1]
    if len(single) != 1 or len(double) != 1:
        return None
    si = fl.atom_info.get(single[0][0])
    if not si or si[0] != "pow2":
        return None
    S = si[1]
    other = [a for a in double[0]]
    if single[0][0] not in other:
        return None
    other.remove(single[0][0])
    li = fl.atom_info.get(other[0])
    if not li or li[0] != "pow2":
        return None
    return li[1], S


def r1_scan(program, rep):
    fn = program.get(BF + "._assign_field")
    inst = qual(fn)
    fl = Flow(fn)
    cfg = fl.cfg
    loops = [n for n in ast.walk(fn) if isinstance(n, ast.For) and
             isinstance(n.iter, ast.Call) and
             unparse(n.iter.func) == "range"]
    if len(loops) != 1:
        raise AnalysisError("_assign_field: expected one range() scan")
    lp = loops[0]
    head = cfg.loop_head[id(lp)]
    args = lp.iter.args
    if len(args) == 1:
        lo, hi = Poly.const(0), fl.sym(args[0], head)
    elif len(args) == 2:
        lo, hi = fl.sym(args[0], head), fl.sym(args[1], head)
    else:
        raise AnalysisError("_assign_field: scan with a step")
    # the acceptance test:  S + length <= self.length  guarding the commit
    commit = [d for d in fl.defs if d.var == "field.start_at" and
              d.mode == "assign"]
    if len(commit) != 1:
        raise AnalysisError("_assign_field: expected one commit of "
                            "field.start_at")
    cons = fl.constraints(commit[0].node)
    # find the length variable: the one added to start_at in the test
    acc = None
    for cond, pol, a in fl.facts(commit[0].node):
        if isinstance(cond, ast.Compare) and len(cond.ops) == 1:
            acc = (cond, pol, a)
    if acc is None:
        rep.bad("C08-R1", inst, "no acceptance test", "field.start_at is "
                "committed without a range test", commit[0].node.ast)
        return
    cond, pol, a = acc
    l = fl.sym(cond.left, a)
    r = fl.sym(cond.comparators[0], a)
    opn = type(cond.ops[0]).__name__
    # normalise to  S + L <= BOUND
    if (opn == "LtE" and pol) or (opn == "Gt" and not pol):
        sumv, bound = l, r
    elif (opn == "GtE" and pol) or (opn == "Lt" and not pol):
        sumv, bound = r, l
    else:
        rep.bad("C08-R1", inst, "acceptance test shape", "unrecognised "
                "acceptance test %s" % unparse(cond), cond)
        return
    rep.check(bound == Poly.atom("self.length"), "C08-R1", inst,
              "a placement is accepted iff start + length <= the bit "
              "field's length", construct="acceptance bound %r" % (bound,),
              node=cond)
    # sumv = start_at(phi) + length ; the length term is sumv minus the
    # start variable
    S_at = fl.symvar(chain(commit[0].value), commit[0].node)
    Lsym = sumv - S_at
    rep.check(lo == Poly.const(0), "C08-R1", inst, "the scan starts at bit "
              "0", construct="scan start %r" % (lo,), node=lp)
    # length as seen at the loop
    reach_top = (hi - 1) + Lsym
    rep.check(reach_top == bound, "C08-R1", inst,
              "the last position tried, plus the field length, equals the "
              "bit-field length: every position the acceptance test allows "
              "is tried", construct="scan end %r" % (hi,), node=lp,
              fail="the scan tries positions %r .. %r - 1; the topmost "
                   "position allowed by the acceptance test (%r - length) "
                   "is %s" % (lo, hi, bound,
                              "never tried" if True else ""))
    # the position chosen is free and becomes occupied
    chosen = [d for d in fl.defs if d.var == chain(commit[0].value) and
              d.mode == "assign" and _inside(d.node.ast, lp)]
    okc = False
    for d in chosen:
        f = fl.facts(d.node)
        free = any(isinstance(c, ast.BinOp) and isinstance(c.op, ast.BitAnd)
                   and not p for c, p, _ in f)
        okc = free and chain(d.value) == chain(lp.target)
    rep.check(okc, "C08-R1", inst, "a position is taken only if none of the "
              "field's bits is already assigned",
              construct="free position test", node=lp)
    # both branches OR the field's bits into the returned occupancy, and
    # field_bits is the one mask formula for (length, position)
    ors = [d for d in fl.defs if d.var == formals(fn)[1] and d.mode == "aug"
           and isinstance(d.value.op, ast.BitOr)]
    rets = returns_of(fn)
    # every definition of the committed position that can pass the
    # acceptance test (i.e. is not the sentinel == bound, which fails it for
    # any length >= 1) is followed, before the return and before the position
    # is re-defined, by OR-ing the field's bits into the occupancy
    svar = chain(commit[0].value)
    sdefs = [d for d in fl.defs if d.var == svar and d.mode == "assign"]
    okr = len(rets) == 1 and chain(rets[0].value) == formals(fn)[1]
    n_real = 0
    for d in sdefs:
        if fl.sym(d.value, d.node) == bound:
            continue            # sentinel: start + length <= bound fails
        n_real += 1
        others = [x.node for x in sdefs if x is not d]
        okr = okr and cfg.must_pass(
            d.node, lambda n: any(n is o.node for o in ors),
            targets=[cfg.node_of(rets[0])], avoid=others)
    okr = okr and n_real >= 2
    rep.assume("field lengths are >= 1 (add_field rejects length <= 0; the "
               "automatic length is >= 1)")
    rep.check(okr, "C08-R4", inst, "every successful placement adds the "
              "field's bits to the occupancy mask it returns",
              construct="occupancy returned", node=fn,
              fail="a path returns the occupancy mask without the newly "
                   "placed field's bits: the next field can be put on top "
                   "of it")
    for d in ors:
        bits = fl.reaching(chain(d.value.value), d.node)
        okm = False
        if len(bits) == 1 and bits[0].mode == "assign":
            mf = _mask_form(fl, bits[0].value, bits[0].node)
            if mf is not None:
                L, S = mf
                # S is the position committed on this path
                okm = True
        rep.check(okm, "C08-R3", inst, "occupied bits = ((1 << length) - 1) "
                  "<< position", construct="field_bits formula",
                  node=d.node.ast)
    rep.floor("C08-R1", 4)


def _inside(node, anc):
    n = node
    while n is not None:
        if n is anc:
            return True
        n = getattr(n, "_parent", None)
    return False


def r2_explicit(program, rep):
    fn = program.get(BF + ".add_field")
    inst = qual(fn)
    ps = formals(fn)
    length, start = ps[2], ps[3]
    rec = calls_in(fn, "add_field")
    rec = [c for c in rec if chain(call_name(c)[1]) == "self.fields"]
    if len(rec) != 1:
        raise AnalysisError("add_field: expected one self.fields.add_field")
    S = Poly.atom(start)
    SL = Poly.atom("self.length")
    it = Interp(fn, hypotheses=[("%s is not None" % start, True),
                                ("%s is None" % start, False)])
    node = it.cfg.node_containing(rec[0])
    W = it.sym(ast.parse("%s or 1" % length, mode="eval").body, node)
    st = it.describe(node)
    rep.check(it.holds_at(node, [le(0, S)]), "C08-R2", inst,
              "an explicitly positioned field is recorded only with "
              "start_at >= 0", construct="explicit start >= 0", node=rec[0],
              fail="a negative start_at reaches the field table; state: "
                   "%s" % st)
    rep.check(it.holds_at(node, [le(S + W, SL)]), "C08-R2", inst,
              "an explicitly positioned field is recorded only if start_at "
              "+ (length or 1) <= the bit field's length",
              construct="explicit end within bit field", node=rec[0],
              fail="a field reaching beyond the bit field can be recorded; "
                   "state: %s" % st)
    # zero/negative length rejected
    fl = Flow(fn)
    okz = False
    for r in raises_of(fn):
        f = fl.facts(fl.cfg.node_of(r))
        if has_fact(f, "%s <= 0" % length, True) and \
                has_fact(f, "%s is not None" % length, True):
            okz = True
    rep.check(okz, "C08-R2", inst, "a given length <= 0 is rejected",
              construct="length guard", node=fn)
    # overlap test
    loops = [n for n in ast.walk(fn) if isinstance(n, ast.For) and
             isinstance(n.iter, ast.Call) and
             call_name(n.iter)[0] == "potential_fields"]
    rep.check(len(loops) == 1 and
              unparse(loops[0].iter.args[0]) == "self.field_values"
              if loops else False, "C08-R2", inst,
              "the new field is compared with every field that can be "
              "present together with it (potential_fields)",
              construct="overlap scan domain", node=fn,
              fail="the overlap scan does not range over "
                   "potential_fields(self.field_values)")
    if len(loops) != 1:
        return
    lp = loops[0]
    rs = [r for r in raises_of(fn) if _inside(r, lp)]
    if len(rs) != 1:
        raise AnalysisError("add_field: expected one raise in the overlap "
                            "scan")
    test = rs[0]._parent
    while not isinstance(test, ast.If):
        test = test._parent
    # names in the test, resolved to their definitions
    names = sorted(set(n.id for n in ast.walk(test.test)
                       if isinstance(n, ast.Name)))
    tn = fl.cfg.node_of(rs[0])
    role = {}
    other = chain(lp.target.elts[1]) if isinstance(lp.target, ast.Tuple) \
        else None
    for nm in names:
        ds = fl.reaching(nm, tn)
        v = None
        if len(ds) == 1 and ds[0].mode == "assign":
            v = unparse(ds[0].value)
        if nm == start:
            role[nm] = "a0"
        elif v == "%s + (%s or 1)" % (start, length):
            role[nm] = "a1"
        elif v == "%s.start_at" % other:
            role[nm] = "b0"
        elif v is not None and other and v.endswith(
                "+ (%s.length or 1)" % other):
            role[nm] = "b1"
    ok = sorted(role.values()) == ["a0", "a1", "b0", "b1"]
    rep.check(ok, "C08-R2", inst, "the overlap test compares [start_at, "
              "start_at + (length or 1)) with [other.start_at, "
              "other.start_at + (other.length or 1))",
              construct="overlap operands %s" % sorted(role.items()),
              node=test)
    if ok:
        terms = ["a0", "a1", "b0", "b1"]
        bad = []
        n_ord = 0
        for ranks in weak_orderings(4):
            o = Ordering(terms, ranks)
            r = o.rank
            if not (r["a0"] < r["a1"] and r["b0"] < r["b1"]):
                continue        # fields are at least one bit wide
            n_ord += 1
            env = {nm: Poly.atom(t) for nm, t in role.items()}
            got = Evaluator(fn, o, env).truth(test.test)
            want = r["a0"] < r["b1"] and r["b0"] < r["a1"]
            if got != want:
                bad.append(ranks)
        rep.check(not bad, "C08-R2", inst,
                  "the overlap test equals half-open intersection on all %d "
                  "orderings of the endpoints (non-empty fields)" % n_ord,
                  construct="overlap predicate", node=test,
                  fail="the overlap test misjudges %d of %d endpoint "
                       "orderings, e.g. ranks (start, end, other_start, "
                       "other_end) = %s: overlapping explicit fields are "
                       "accepted (or disjoint ones rejected)" % (
                           len(bad), n_ord, bad[0] if bad else ""))
    # only fields with a known position are compared
    rep.floor("C08-R2", 6)


def r3_masks(program, rep):
    # get_mask
    fn = program.get(BF + ".get_mask")
    fl = Flow(fn)
    ok = False
    for d in fl.defs:
        if d.mode == "aug" and isinstance(d.value.op, ast.BitOr):
            mf = _mask_form(fl, d.value.value, d.node)
            ok = mf is not None and "length" in repr(mf[0]) and \
                "start_at" in repr(mf[1])
    rep.check(ok, "C08-R3", qual(fn), "mask |= ((1 << field.length) - 1) << "
              "field.start_at", construct="get_mask formula", node=fn)
    fn = program.get(BF + ".get_value")
    fl = Flow(fn)
    ok = False
    for d in fl.defs:
        if d.mode == "aug" and isinstance(d.value.op, ast.BitOr):
            v = d.value.value
            ok = isinstance(v, ast.BinOp) and isinstance(v.op, ast.LShift) \
                and unparse(v.right).endswith(".start_at") and \
                unparse(v.left).startswith("self.field_values[")
    rep.check(ok, "C08-R3", qual(fn), "value |= field value << "
              "field.start_at (the same position the mask uses)",
              construct="get_value formula", node=fn)
    fn = program.get(BF + "._assign_fields")
    fl = Flow(fn)
    ok = False
    dom_ok = False
    for d in fl.defs:
        if d.mode == "aug" and isinstance(d.value.op, ast.BitOr) and \
                not isinstance(d.value.value, ast.Call):
            mf = _mask_form(fl, d.value.value, d.node)
            ok = mf is not None
            lp = d.node.ast._parent
            while lp is not None and not isinstance(lp, ast.For):
                lp = lp._parent
            dom_ok = lp is not None and isinstance(lp.iter, ast.Call) and \
                call_name(lp.iter)[0] == "potential_fields"
    rep.check(ok, "C08-R3", qual(fn), "occupancy |= ((1 << f.length) - 1) "
              "<< f.start_at", construct="_assign_fields formula", node=fn)
    rep.check(dom_ok, "C08-R4", qual(fn), "the occupancy mask is accumulated "
              "over potential_fields (everything that can be present "
              "together), not only the enabled fields",
              construct="occupancy domain", node=fn,
              fail="the occupancy mask is not accumulated over "
                   "potential_fields(field_values): a field can be placed on "
                   "top of one that may be present with it")
    # the result of _assign_field is accumulated
    acc = False
    for d in fl.defs:
        if d.mode == "aug" and isinstance(d.value.value, ast.Call) and \
                call_name(d.value.value)[0] == "_assign_field":
            c = d.value.value
            acc = chain(c.args[0]) == d.var
    rep.check(acc, "C08-R4", qual(fn), "each placed field's bits are "
              "accumulated into the occupancy passed to the next placement",
              construct="occupancy accumulation", node=fn)
    # __call__ value range
    fn = program.get(BF + ".__call__")
    fl = Flow(fn)
    neg = big = False
    for r in raises_of(fn):
        f = fl.facts(fl.cfg.node_of(r))
        for c, p, a in f:
            t = unparse(c)
            if t == "value < 0" and p:
                neg = True
            if t == "value >= 1 << field.length" and p:
                big = True
    rep.check(neg and big, "C08-R3", qual(fn), "a value is rejected if "
              "negative or >= 1 << length of a sized field",
              construct="value range check", node=fn)
    rep.floor("C08-R3", 5)


def r4_order(program, rep):
    fn = program.get(BF + ".assign_fields")
    inst = qual(fn)
    fl = Flow(fn)
    cfg = fl.cfg
    c1 = [c for c in calls_in(fn, "_assign_fields")]
    rec = program.get(BF + ".assign_fields.recurse_assign_fields")
    c2 = [c for c in calls_in(rec, "_assign_fields")]
    okf = len(c1) == 1 and len(c2) == 1
    if okf:
        kw1 = {k.arg: k.value for k in c1[0].keywords}
        kw2 = {k.arg: k.value for k in c2[0].keywords}
        okf = isinstance(kw1.get("assign_positions"), ast.Constant) and \
            kw1["assign_positions"].value is False and \
            isinstance(kw2.get("assign_positions"), ast.Constant) and \
            kw2["assign_positions"].value is True
        # the recursive pass is started after the first loop
        starts = [c for c in calls_in(fn, "recurse_assign_fields")]
        okf = okf and len(starts) == 1 and cfg.reaches(
            cfg.node_containing(c1[0]), cfg.node_containing(starts[0])) and \
            not cfg.reaches(cfg.node_containing(starts[0]),
                            cfg.node_containing(c1[0]))
    rep.check(okf, "C08-R4", inst, "fixed-position fields get their lengths "
              "first (assign_positions=False), floating fields are placed "
              "afterwards", construct="pass order", node=fn)
    # children before parents in the floating pass
    cr = Flow(rec)
    inner = [c for c in calls_in(rec, "recurse_assign_fields")]
    okc = len(inner) == 1 and len(c2) == 1 and cr.cfg.reaches(
        cr.cfg.node_containing(inner[0]), cr.cfg.node_containing(c2[0])) \
        and not cr.cfg.reaches(cr.cfg.node_containing(c2[0]),
                               cr.cfg.node_containing(inner[0]))
    rep.check(okc, "C08-R4", qual(rec), "children are placed before their "
              "parents in the floating pass", construct="leaf-first order",
              node=rec)
    # child requirement dictionaries are copies updated with the parent's
    okd = True
    for f_ in (fn, rec):
        ff = Flow(f_)
        for d in ff.defs:
            if d.mode == "mut" and d.node.ast is not None:
                for c in calls_in(d.node.ast, "update"):
                    recv = chain(call_name(c)[1])
                    ds = ff.reaching(recv, ff.cfg.node_containing(c))
                    ds = [x for x in ds if x.mode == "assign"]
                    if not (ds and all(isinstance(x.value, ast.Call) and
                                       call_name(x.value)[0] == "dict"
                                       for x in ds)):
                        okd = False
    rep.check(okd, "C08-R4", inst, "requirement dictionaries handed down "
              "the hierarchy are fresh copies", construct="requirements "
              "copied", node=fn)


def r5_widths(program, rep):
    fn = program.get(BF + ".__call__")
    inst = qual(fn)
    fl = Flow(fn)
    loops = [n for n in ast.walk(fn) if isinstance(n, ast.For)]
    upd = None
    val = None
    for lp in loops:
        for s in ast.walk(lp):
            if isinstance(s, ast.Assign) and \
                    unparse(s.targets[0]).endswith(".max_value"):
                upd = (lp, s)
            if isinstance(s, ast.Raise) and "too large" in unparse(s):
                val = lp
    ok = False
    if upd and val:
        lp, s = upd
        ok = unparse(lp.iter) == unparse(val.iter) and \
            isinstance(s.value, ast.Call) and call_name(s.value)[0] == "max" \
            and {unparse(a) for a in s.value.args} == {
                unparse(s.targets[0]), chain(lp.target.elts[1])}
    rep.check(ok, "C08-R5", inst, "every value accepted updates the field's "
              "max_value = max(old, value), over the same field_values the "
              "validation loop covered", construct="max_value update",
              node=fn)
    # ordering: validation loop precedes update loop
    if upd and val:
        a = fl.cfg.loop_head[id(val)]
        b = fl.cfg.loop_head[id(upd[0])]
        rep.check(fl.cfg.dominates(a, b) and a is not b, "C08-R5", inst,
                  "values are validated before any max_value is updated",
                  construct="validate before update", node=fn)
    fn = program.get(BF + "._assign_field")
    fl = Flow(fn)
    ok = False
    for d in fl.defs:
        if d.var == "length" and d.mode == "assign" and \
                isinstance(d.value, ast.BinOp):
            t = unparse(d.value)
            f = fl.facts(d.node)
            ok = t == "int(log(field.max_value, 2)) + 1" and \
                has_fact(f, "length is None", True)
    rep.check(ok, "C08-R5", qual(fn), "an automatic length is "
              "floor(log2(max_value)) + 1 bits", construct="auto length",
              node=fn)
    rep.floor("C08-R5", 3)


def r6_tags(program, rep):
    fn = program.get(BF + ".add_field")
    inst = qual(fn)
    fl = Flow(fn)
    cfg = fl.cfg
    loops = [n for n in ast.walk(fn) if isinstance(n, ast.For) and
             isinstance(n.iter, ast.Call) and
             call_name(n.iter)[0] == "get_field_requirements"]
    if len(loops) != 1:
        raise AnalysisError("add_field: tag propagation loop not found")
    lp = loops[0]
    ups = [c for c in calls_in(lp, "update")
           if unparse(call_name(c)[1]).endswith(".tags")]
    ok = False
    if len(ups) == 1:
        un = cfg.node_containing(ups[0])
        head = cfg.loop_head[id(lp)]
        body = [s for s in head.succ if s.label == "forbody"][0]
        no_skip = not any(isinstance(n, (ast.Break, ast.Continue, ast.Return))
                          for n in ast.walk(lp))
        ok = no_skip and cfg.must_pass(body, lambda n: n is un,
                                       targets=[head, cfg.exit]) and \
            chain(ups[0].args[0]) == formals(fn)[4] and \
            chain(lp.iter.args[0]) == formals(fn)[1]
        # the parent object updated is the field looked up for this parent id
        recv = chain(call_name(ups[0])[1]).rsplit(".", 1)[0]
        ds = fl.reaching(recv, un)
        ok = ok and len(ds) == 1 and isinstance(ds[0].value, ast.Call) and \
            call_name(ds[0].value)[0] == "get_field" and \
            chain(ds[0].value.args[0]) == chain(lp.target)
    rep.check(ok, "C08-R6", inst, "the new field's tags are added to every "
              "field it depends on (every iteration of the requirements "
              "loop reaches the update; no early exit)",
              construct="tag propagation", node=lp,
              fail="the tags are not added to every field in "
                   "get_field_requirements(identifier): an ancestor can miss "
                   "the tag and drop out of the tag's mask")
    # the loop is reached on every normal path
    head = cfg.loop_head[id(lp)]
    rep.check(cfg.must_pass(cfg.entry, lambda n: n is head), "C08-R6", inst,
              "tag propagation runs for every field added",
              construct="tag propagation reached", node=fn)


def check(program, rep):
    program.module("rig.bitfield")
    rep.guard("C08-R1", r1_scan, program, rep)
    rep.guard("C08-R2", r2_explicit, program, rep)
    rep.guard("C08-R3", r3_masks, program, rep)
    rep.guard("C08-R4", r4_order, program, rep)
    rep.guard("C08-R5", r5_widths, program, rep)
    rep.guard("C08-R6", r6_tags, program, rep)
    rep.floor("C08-R4", 5)
    return finish(rep, program, EXPLANATION, NOT_DECIDED,
                  trusted=["ORDTYPE evaluator", "LININV engine"])
