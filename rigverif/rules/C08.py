"""C08 - bit-field keys are collision free: fields never overlap or overflow.

R1 the first-fit scan reaches the last position its acceptance test allows
R2 explicitly positioned fields are confined to the bit field; the overlap
   test against every potentially co-present field is half-open intersection
R3 one mask formula everywhere; value shifted by the same start; value range
   check
R4 occupancy accumulated over everything potentially co-present; pass order
R5 widths follow the values given
R6 tags reach every ancestor

The rules work on value terms and canonical facts (terms.py): what is
committed, returned, or-ed or raised under which conditions, analysed by
cases (fixed / floating position) with nested helpers seen through, plus
arithmetic normal forms of the masks and scan bounds.
"""
import ast

from ..core import AnalysisError, finish, unparse
from ..dataflow import Flow, chain, call_name
from ..pathstate import Paths, Client
from ..poly import Poly
from ..terms import Terms, reify, plain, match, V, ANY, show, subterms, \
    mk_cmp, is_none, stores, method_calls, alternatives, one_level, SITES, \
    owner_views, split_cond
from ..util import calls_in, qual, formals, raises_of, raise_name, \
    returns_of

BF = "rig.bitfield:BitField"
SELF = ("param", "self")
SLEN = ("attr", SELF, "length")

EXPLANATION = (
    "R1: the range of the first-fit scan in _assign_field is compared, as an "
    "arithmetic normal form, with the acceptance test start + length <= "
    "self.length: the largest start tried plus the length equals the "
    "bit-field length; a position is taken only under the 'no bit already "
    "assigned' test and its bits are or-ed into the occupancy returned. R2: "
    "on the executions with start_at given, the facts holding where the "
    "field is recorded (tests of the function or of a helper it calls) "
    "include 0 <= start_at and start_at + (length or 1) <= self.length; the "
    "overlap error is raised exactly under other.start < end and start < "
    "other.end (half-open intersection), over potential_fields. R3: the "
    "occupancy / mask expressions are compared as normal forms "
    "((1 << L) - 1) << S; a value is rejected whenever the field's length is "
    "known and the value does not fit. R4-R6: call-order, allocation-site "
    "and must-pass-through facts.")
EXPLANATION += (
    " R2 also checks that __call__ builds the derived instance with "
    "self.length and self.fields.")
NOT_DECIDED = [
    "non-overlap for every hierarchy shape (depends on the contents of the "
    "field tree: which fields potential_fields/enabled_fields return)",
    "int(log(max_value, 2)) + 1 is exact below 2**48 and over-wide above "
    "(over-wide is still wide enough)",
    "two different complete assignments never match each other (follows "
    "from disjointness + R3 when the tree queries are right)",
]


def _wp(e):
    for n in ast.walk(e):
        for c in ast.iter_child_nodes(n):
            c._parent = n
    ast.fix_missing_locations(e)
    return e


def _poly(fl, t):
    return fl.sym(_wp(reify(plain(t))), fl.cfg.entry)


def _mask_form(fl, t):
    """((1 << L) - 1) << S  ->  (L poly, S poly) or None.  In normal form:
    pow2(L) * pow2(S) - pow2(S)."""
    try:
        p = _poly(fl, t)
    except AnalysisError:
        return None
    if len(p.t) != 2:
        return None
    single = [m for m, c in p.t.items() if len(m) == 1 and c == -1]
    double = [m for m, c in p.t.items() if len(m) == 2 and c == 1]
    if len(single) != 1 or len(double) != 1:
        return None
    si = fl.atom_info.get(single[0][0])
    if not si or si[0] != "pow2":
        return None
    S = si[1]
    other = [a for a in double[0]]
    if single[0][0] not in other:
        return None
    other.remove(single[0][0])
    li = fl.atom_info.get(other[0])
    if not li or li[0] != "pow2":
        return None
    return li[1], S


def _unversion(t):
    """attrv -> attr (for shape comparisons that do not depend on which
    definition of the attribute is read)."""
    if not isinstance(t, tuple):
        return t
    if t and t[0] == "attrv":
        return ("attr", _unversion(t[1]), t[2])
    return tuple(_unversion(x) for x in t)


def _inside(node, anc):
    n = node
    while n is not None:
        if n is anc:
            return True
        n = getattr(n, "_parent", None)
    return False


def _attr_binds(T, base_pred, attr):
    """Attribute assignments ``X.attr = v`` with X's term satisfying
    base_pred: [(bind, X term, value term)]."""
    out = []
    for b_ in T.binds:
        if b_.mode != "assign" or "." not in b_.var or \
                not b_.var.endswith("." + attr):
            continue
        st = b_.node.ast
        if not isinstance(st, ast.Assign):
            continue
        tg = [t for t in st.targets if isinstance(t, ast.Attribute) and
              t.attr == attr]
        if not tg:
            continue
        X = T.term(tg[0].value, b_.node)
        if base_pred(X):
            out.append((b_, X, T._bind_term(b_)))
    return out


def _read_of(T, base, name):
    """The term of ``base.name`` as read at the function's tests (an
    attribute the function also writes is versioned by its definitions)."""
    found = []
    for n in T.cfg.nodes:
        if n.kind != "assume":
            continue
        t, _ = T.cond(n.ast, n, n.polarity)
        for st in subterms(t):
            if st[0] in ("attr", "attrv") and st[1] == base and \
                    st[2] == name and st not in found:
                found.append(st)
    for b_ in T.binds:
        if b_.mode == "assign":
            for st in subterms(T._bind_term(b_)):
                if st[0] in ("attr", "attrv") and st[1] == base and \
                        st[2] == name and st not in found:
                    found.append(st)
    if len(found) != 1:
        raise AnalysisError("reads of .%s: %d forms" % (name, len(found)))
    return found[0]


def r1_scan(program, rep):
    fn = program.get(BF + "._assign_field")
    inst = qual(fn)
    T = Terms(fn)
    fl = Flow(fn)
    cfg = T.cfg
    ps = formals(fn)             # self, assigned_bits, identifier, values
    OCC0 = ("param", ps[1])
    FIELD = None
    for c in calls_in(fn, "get_field"):
        FIELD = T.term(c)
    if FIELD is None:
        raise AnalysisError("_assign_field: the field looked up")
    START0 = _read_of(T, FIELD, "start_at")
    floating = T.under((is_none(START0), True))
    fixed = T.under((is_none(START0), False))
    commits = _attr_binds(T, lambda X: X == FIELD, "start_at")
    lcommits = _attr_binds(T, lambda X: X == FIELD, "length")
    if len(commits) != 1 or len(lcommits) != 1:
        raise AnalysisError("_assign_field: expected one commit of the "
                            "field's position and of its length")
    cb, _, S = commits[0]
    L = lcommits[0][2]
    Lp = _poly(fl, L)
    # the scan (floating case)
    loops = [n for n in ast.walk(fn) if isinstance(n, ast.For) and
             isinstance(n.iter, ast.Call) and
             unparse(n.iter.func) == "range" and
             floating.live(cfg.loop_head[id(n)])]
    if len(loops) != 1:
        raise AnalysisError("_assign_field: expected one range() scan")
    lp = loops[0]
    head = cfg.loop_head[id(lp)]
    it = plain(floating.term(lp.iter, head))
    args = it[2]
    if len(args) == 1:
        lo, hi = Poly.const(0), _poly(fl, args[0])
    elif len(args) == 2:
        lo, hi = _poly(fl, args[0]), _poly(fl, args[1])
    else:
        raise AnalysisError("_assign_field: scan with a step")
    rep.check(lo == Poly.const(0), "C08-R1", inst, "the scan starts at bit "
              "0", construct="scan start %r" % (lo,), node=lp)
    rep.check((hi - 1) + Lp == _poly(fl, SLEN), "C08-R1", inst,
              "the last position tried, plus the field length, equals the "
              "bit-field length: every position the acceptance test allows "
              "is tried", construct="scan end %r" % (hi,), node=lp,
              fail="the scan tries positions %r .. %r - 1; the topmost "
                   "position allowed by the acceptance test (self.length - "
                   "length) is never tried" % (lo, hi))
    # a position is taken only if free, and then its bits become occupied
    CAND = T._tag(lp.iter, ("elem", T.term(lp.iter, head)))
    takes = [b_ for b_ in T.binds if b_.mode == "assign" and
             _inside(b_.node.ast, lp) and T._bind_term(b_) == CAND and
             b_.var != (lp.target.id if isinstance(lp.target, ast.Name)
                        else None)]
    if not takes:
        # no assignment of the scanned position to the position variable
        # inside the loop: the loop's own variable is the position (for /
        # else, break) or the position is taken some other way
        raise AnalysisError("_assign_field: the scan does not hand the "
                            "position it accepts to another variable "
                            "(position = candidate); that form of the "
                            "first-fit scan is not read")
    okc = okm = False
    if len(takes) == 1:
        tk = takes[0]
        free = None
        for a in cfg.nodes:
            if a.kind != "assume" or not _inside(a.ast, lp) or \
                    not cfg.dominates(a, tk.node):
                continue
            t, p = T.cond(a.ast, a, a.polarity)
            band = None
            if t[0] == "binop" and t[1] == "BitAnd" and not p:
                band = t
            if t[0] == "cmp" and t[1] == "Eq" and p and \
                    ("const", 0) in (t[2], t[3]):
                o = t[3] if t[2] == ("const", 0) else t[2]
                if o[0] == "binop" and o[1] == "BitAnd":
                    band = o
            if band is not None:
                free = (a, band)
        if free is not None:
            a, band = free
            bits = [x for x in (band[2], band[3])
                    if _mask_form(fl, x) is not None]
            occ = [x for x in (band[2], band[3]) if x not in bits]
            if not bits and any(
                    isinstance(x, tuple) and x and x[0] in ("mu", "phi")
                    for x in (band[2], band[3])):
                # the pattern tested is carried from pass to pass of the
                # scan (shifted by one each time) instead of being worked
                # out from the position: a loop invariant these rules do
                # not derive
                raise AnalysisError("_assign_field: the bits tested at a "
                                    "position are carried along the scan "
                                    "(pattern <<= 1), not computed from the "
                                    "position; that form is not read")
            okc = len(bits) == 1 and len(occ) == 1
            if okc:
                mL, mS = _mask_form(fl, bits[0])
                okc = mL == Lp and mS == _poly(fl, CAND)
                # the occupancy tested is the one received (plus nothing
                # placed by this call yet) and the bits are or-ed into it on
                # the same path
                ors = [b_ for b_ in T.binds if b_.var == ps[1] and
                       b_.mode in ("assign", "aug") and
                       _inside(b_.node.ast, lp)]
                okm = len(ors) == 1 and cfg.dominates(a, ors[0].node) and \
                    plain(T._bind_term(ors[0])) in (
                        ("binop", "BitOr", plain(occ[0]), plain(bits[0])),
                        ("binop", "BitOr", plain(bits[0]), plain(occ[0])))
    closures = [n_ for n_ in ast.walk(fn) if n_ is not fn and
                isinstance(n_, (ast.FunctionDef, ast.Lambda))]
    if closures and not (okc and okm):
        # the mask is computed by a local function closing over the length:
        # the comparison of the two lengths below is not reliable then
        raise AnalysisError("_assign_field: the field's bits are computed "
                            "by a local helper function closing over "
                            "variables of _assign_field; not followed here")
    rep.check(okc, "C08-R1", inst, "a position is taken only if none of the "
              "field's bits ((1 << length) - 1) << position is already "
              "assigned", construct="free position test", node=lp)
    # fixed case: the occupancy returned has the field's bits or-ed in
    rets = [r for r in returns_of(fn) if r.value is not None]
    okr = len(rets) == 1 and okm
    if okr:
        rn = cfg.node_of(rets[0])
        rt = fixed.term(rets[0].value, rn)
        okr = rt[0] == "binop" and rt[1] == "BitOr" and OCC0 in (rt[2],
                                                                 rt[3])
        if okr:
            bits = rt[3] if rt[2] == OCC0 else rt[2]
            mf = _mask_form(fl, bits)
            okr = mf is not None and mf[0] == Lp and \
                mf[1] == _poly(fl, START0)
        # floating: the value returned is the received occupancy, possibly
        # with the taken position's bits; the 'nothing found' alternative
        # keeps the sentinel position, which the acceptance test rejects
        alts = [plain(x) for x in alternatives(floating.term(rets[0].value,
                                                             rn))]
        sent = [plain(x) for x in alternatives(
            floating.term(cb.value, cb.node))]
        if plain(OCC0) in alts:
            # a fruitless scan returns the occupancy unchanged: the position
            # it leaves must be the sentinel the acceptance test rejects
            okr = okr and len(alts) == 2 and plain(SLEN) in sent and \
                len(sent) == 2
        else:
            # every path that returns has taken a position (a fruitless
            # scan raises)
            okr = okr and len(alts) == 1 and len(sent) == 1
    rep.assume("field lengths are >= 1 (add_field rejects length <= 0; the "
               "automatic length is >= 1)")
    rep.check(okr, "C08-R4", inst, "every successful placement adds the "
              "field's bits to the occupancy mask it returns (a fruitless "
              "scan leaves the position at self.length, which the "
              "acceptance test rejects)", construct="occupancy returned",
              node=fn,
              fail="a path returns the occupancy mask without the newly "
                   "placed field's bits: the next field can be put on top "
                   "of it")
    rep.check(okc and okm, "C08-R3", inst, "occupied bits = ((1 << length) "
              "- 1) << position, or-ed into the occupancy on the path that "
              "takes the position", construct="field_bits formula", node=fn)
    rep.floor("C08-R1", 4)


def r1_accept(program, rep):
    """A placement is committed only when start + length <= the bit field's
    length: by an explicit test on the path to the commit, or (floating
    fields) because the position comes from a scan whose range ends where
    the field still fits."""
    fn = program.get(BF + "._assign_field")
    inst = qual(fn)
    for h in ast.walk(fn):
        if h is not fn and getattr(h, "_virtual", False) and any(
                isinstance(x, ast.Raise) for x in ast.walk(h)):
            raise AnalysisError("_assign_field: the helper %s can reject a "
                                "placement itself; these rules do not follow "
                                "it" % h.name)
    T = Terms(fn)
    fl = Flow(fn)
    cfg = T.cfg
    FIELD = None
    for c in calls_in(fn, "get_field"):
        FIELD = T.term(c)
    if FIELD is None:
        raise AnalysisError("_assign_field: the field looked up")
    START0 = _read_of(T, FIELD, "start_at")
    commits = _attr_binds(T, lambda X: X == FIELD, "start_at")
    lcommits = _attr_binds(T, lambda X: X == FIELD, "length")
    if len(commits) != 1 or len(lcommits) != 1:
        raise AnalysisError("_assign_field: expected one commit of the "
                            "field's position and of its length")
    cb = commits[0][0]
    Lt_ = lcommits[0][2]
    SL = _poly(fl, SLEN)
    # the tests are looked for on the way to the first of the two stores
    # (length / position): the other store follows it directly and would
    # only out-date facts that mention the field's own attributes
    lb = lcommits[0][0]
    at = lb.node if cfg.dominates(lb.node, cb.node) else cb.node

    def bounded(H, S):
        want = _poly(fl, S) + _poly(fl, Lt_) - SL
        for t, p in H.all_facts(at):
            if t[0] != "cmp" or t[1] not in ("Lt", "LtE"):
                continue
            a, b = (t[2], t[3]) if p else (t[3], t[2])
            if (t[1] == "LtE") != bool(p):
                continue            # a strict bound: not the test looked for
            try:
                if _poly(fl, a) - _poly(fl, b) == want:
                    return True
            except AnalysisError:
                pass
        return False
    fixed = T.under((is_none(START0), False))
    floating = T.under((is_none(START0), True))
    if not fixed.live(cb.node) or not floating.live(cb.node):
        raise AnalysisError("_assign_field: the commit is not reached for "
                            "both fixed and floating fields")
    okf = bounded(fixed, START0)
    rep.check(okf, "C08-R1", inst, "a field with a fixed position is "
              "accepted only if start + length <= the bit field's length",
              construct="acceptance bound (fixed)", node=cb.node.ast,
              fail="a field with a fixed position is committed without "
                   "start + length <= length of the bit field having been "
                   "tested on the way: the field can extend beyond the top "
                   "of the bit field (add_field can only test a width of "
                   "one bit when the length is automatic)")
    whole = floating.term(cb.value, cb.node)
    vals = [] if bounded(floating, whole) else list(alternatives(whole))
    okl = True
    for v in vals:
        if bounded(floating, v):
            continue
        pv = plain(v)
        # a position produced by a range() scan is bounded by the scan's
        # range (whose end r1_scan compares with self.length - length)
        if pv[0] == "elem" and pv[1][0] == "call" and \
                pv[1][1] == ("global", "range"):
            continue
        head = pv[1] if pv[0] in ("comp", "item", "elem") else pv
        if head[0] in ("call", "callv", "opaque", "mu", "rec"):
            raise AnalysisError("_assign_field: the position of a floating "
                                "field comes from a search (%s) these rules "
                                "do not follow" % show(pv)[:50])
        okl = False
    rep.check(okl, "C08-R1", inst, "a floating field is accepted only at a "
              "position with start + length <= the bit field's length",
              construct="acceptance bound (floating)", node=cb.node.ast)


r1_accept.helper_aware = True


def r2_explicit(program, rep):
    fn = program.get(BF + ".add_field")
    inst = qual(fn)
    ps = formals(fn)
    LEN, START = ("param", ps[2]), ("param", ps[3])
    T = Terms(fn)
    fl = Flow(fn)
    rec = [x for x in method_calls(T, "add_field")
           if x[2] == ("attr", SELF, "fields")]
    if len(rec) != 1:
        raise AnalysisError("add_field: expected one self.fields.add_field")
    H = T.under((is_none(START), False))
    rn = rec[0][0]
    facts = H.all_facts(rn)
    W = ("or", LEN, ("const", 1))
    END = _poly(fl, ("binop", "Add", START, W))
    ge0 = (mk_cmp("LtE", ("const", 0), START), True) in facts
    within = False
    for t, p in facts:
        if p and t[0] == "cmp" and t[1] == "LtE" and t[3] == SLEN:
            try:
                within = within or _poly(fl, t[2]) == END
            except AnalysisError:
                pass
    rep.check(ge0, "C08-R2", inst,
              "an explicitly positioned field is recorded only with "
              "start_at >= 0", construct="explicit start >= 0", node=fn,
              fail="a negative start_at reaches the field table")
    rep.check(within, "C08-R2", inst,
              "an explicitly positioned field is recorded only if start_at "
              "+ (length or 1) <= the bit field's length",
              construct="explicit end within bit field", node=fn,
              fail="a field reaching beyond the bit field can be recorded")
    okz = False
    for r in raises_of(fn):
        f = T.all_facts(T.cfg.node_of(r))
        if (mk_cmp("LtE", LEN, ("const", 0)), True) in f and \
                (is_none(LEN), False) in f:
            okz = True
    if not okz:
        # ... or, whichever function makes the test: where the field is
        # recorded with a length given, that length is known to be positive
        f2 = T.under((is_none(LEN), False)).all_facts(rn)
        okz = (mk_cmp("Lt", ("const", 0), LEN), True) in f2 or \
            (mk_cmp("LtE", ("const", 1), LEN), True) in f2
    rep.check(okz, "C08-R2", inst, "a given length <= 0 is rejected",
              construct="length guard", node=fn)
    # the overlap scan (in the function or in a helper it calls)
    scans = []
    WANT = ("call", ("attr", ("attr", SELF, "fields"), "potential_fields"),
            (("attr", SELF, "field_values"),), ())
    pre_filter = {}
    for sub in ast.walk(fn):
        if not isinstance(sub, ast.For):
            continue
        for view in owner_views(T, sub):
            try:
                it = view.term(sub.iter, view.cfg.loop_head[id(sub)])
            except (AnalysisError, KeyError):
                continue
            pit = plain(it)
            conds = []
            if pit[0] in ("genexp", "listcomp") and len(pit[2]) == 1 and \
                    pit[1] in (("elem", pit[2][0][0]),):
                # a pre-filtered scan: the filter's conditions hold for
                # every element visited
                conds = [x for c_ in it[2][0][1] for x in split_cond(c_,
                                                                     True)]
                it = it[2][0][0]
                pit = plain(it)
            if pit[0] == "call" and pit[1][0] == "attr" and \
                    pit[1][2] == "potential_fields":
                scans.append((view, sub))
                pre_filter[id(sub)] = (it, conds)
    if not scans:
        raise AnalysisError("add_field: the scan of the fields that can be "
                            "present together was not found in the form "
                            "analysed")
    okdom = len(scans) == 1
    if okdom:
        view, lp = scans[0]
        it = pre_filter[id(lp)][0]
        okdom = plain(it) == WANT
    rep.check(okdom, "C08-R2", inst,
              "the new field is compared with every field that can be "
              "present together with it (potential_fields)",
              construct="overlap scan domain", node=fn,
              fail="the overlap scan does not range over "
                   "potential_fields(self.field_values)")
    if not okdom:
        return
    view, lp = scans[0]
    owner = getattr(view, "t", view).fn
    rs = [r for r in ast.walk(lp) if isinstance(r, ast.Raise)]
    if len(rs) != 1:
        raise AnalysisError("add_field: expected one raise in the overlap "
                            "scan")
    it, pre_conds = pre_filter[id(lp)]
    OTHER = ("comp", ("elem", it), 1)
    OS = ("attr", OTHER, "start_at")
    rf = view.all_facts(view.cfg.node_of(rs[0])) + list(pre_conds)
    cmps = [(t, p) for t, p in rf if t[0] == "cmp" and
            t[1] in ("Lt", "LtE") and any(
                st == OS for st in subterms(t))]
    if not cmps and any(any(st == OS for st in subterms(t)) and
                        t not in (is_none(OS),) and
                        not (t[0] == "cmp" and t[1] in ("Is", "IsNot"))
                        for t, p in rf) and not any(
            st[0] == "cmp" and st[1] in ("Lt", "LtE", "Gt", "GtE") and
            any(x == OS for x in subterms(st))
            for t, p in rf for st in subterms(t)):
        # tested, but not by comparing the ends of the two ranges (sets of
        # bits intersected, ...)
        raise AnalysisError("add_field: the overlap of two fields is tested "
                            "in a form other than comparisons of their "
                            "ends; not analysed")
    end_p = END
    oend_p = _poly(fl, ("binop", "Add", OS,
                        ("or", ("attr", OTHER, "length"), ("const", 1))))

    def is_(t, a, b):
        try:
            return _poly(fl, t[2]) == a and _poly(fl, t[3]) == b
        except AnalysisError:
            return False
    start_p, os_p = _poly(fl, START), _poly(fl, OS)
    c1 = [1 for t, p in cmps if p and t[1] == "Lt" and is_(t, os_p, end_p)]
    c2 = [1 for t, p in cmps if p and t[1] == "Lt" and
          is_(t, start_p, oend_p)]
    known = (is_none(OS), False) in rf
    rep.check(known and len(c1) == 1 and len(c2) == 1 and len(cmps) == 2,
              "C08-R2", inst, "the overlap error is raised exactly when "
              "[start_at, start_at + (length or 1)) and [other.start_at, "
              "other.start_at + (other.length or 1)) intersect (other.start "
              "< end and start < other.end), for every potential field "
              "with a known position", construct="overlap predicate",
              node=rs[0],
              fail="the overlap test is not half-open intersection of the "
                   "two bit ranges (conditions at the raise: %s): "
                   "overlapping explicit fields are accepted (or disjoint "
                   "ones rejected)" % [show(t)[:60] for t, p in cmps])
    # the scan is run for every explicitly positioned field
    okrun = H.live(rn)
    if owner is fn:
        okrun = okrun and H.must_pass(T.cfg.entry, lambda n: n is
                                      T.cfg.loop_head[id(lp)], targets=[rn])
    else:
        calls = [n for n in T.cfg.nodes if n.kind == "stmt" and
                 isinstance(n.ast, ast.Expr) and
                 isinstance(n.ast.value, ast.Call) and
                 isinstance(n.ast.value.func, ast.Name) and
                 n.ast.value.func.id == owner.name]
        okrun = okrun and len(calls) == 1 and H.must_pass(
            T.cfg.entry, lambda n: n is calls[0], targets=[rn])
    rep.check(okrun, "C08-R2", inst, "every explicitly positioned field "
              "goes through the scan before it is recorded",
              construct="overlap scan reached", node=fn)
    rep.floor("C08-R2", 6)


def r3_masks(program, rep):
    # get_mask
    fn = program.get(BF + ".get_mask")
    T = Terms(fn)
    fl = Flow(fn)

    def accum(T_, fn_):
        """The terms or-ed into the value returned."""
        rets = [r for r in returns_of(fn_) if r.value is not None]
        out = []
        for r in rets:
            t = T_.term(r.value)
            for alt in one_level(t):
                if alt[0] == "binop" and alt[1] == "BitOr":
                    out.append(alt[3] if alt[2] == t else alt[2])
        return out
    ok = False
    for x in accum(T, fn):
        mf = _mask_form(fl, x)
        if mf is not None:
            Lt_ = [st for st in subterms(x) if st[0] == "attr" and
                   st[2] == "length"]
            St_ = [st for st in subterms(x) if st[0] == "attr" and
                   st[2] == "start_at"]
            ok = len(set(Lt_)) == 1 and len(set(St_)) == 1 and \
                Lt_[0][1] == St_[0][1] and mf[0] == _poly(fl, Lt_[0]) and \
                mf[1] == _poly(fl, St_[0])
    rep.check(ok, "C08-R3", qual(fn), "mask |= ((1 << field.length) - 1) << "
              "field.start_at", construct="get_mask formula", node=fn)
    fn = program.get(BF + ".get_value")
    T = Terms(fn)
    ok = False
    for x in accum(T, fn):
        m = match(("binop", "LShift",
                   ("item", ("attr", SELF, "field_values"), V("id")),
                   ("attr", V("f"), "start_at")), x)
        if m is not None:
            E = m["f"][1] if m["f"][0] == "comp" else None
            ok = E is not None and m["id"] == ("comp", E, 0) and \
                m["f"] == ("comp", E, 1)
    rep.check(ok, "C08-R3", qual(fn), "value |= field value << "
              "field.start_at (the same position the mask uses)",
              construct="get_value formula", node=fn)
    fn = program.get(BF + "._assign_fields")
    T = Terms(fn)
    fl = Flow(fn)
    ps = formals(fn)
    OCC = ps[-1] if "assigned_bits" not in ps else "assigned_bits"
    ok = dom_ok = acc = False
    seen_mask = False
    place_nodes, scan_loops = [], []
    for b_ in T.binds:
        if b_.var != OCC or b_.mode not in ("assign", "aug"):
            continue
        t = T._bind_term(b_)
        if t[0] != "binop" or t[1] != "BitOr":
            continue
        cur = T.term(ast.Name(id=OCC, ctx=ast.Load()), b_.node)
        other = t[3] if t[2] == cur else t[2] if t[3] == cur else None
        if other is None:
            continue
        lp = b_.node.ast
        while lp is not None and not isinstance(lp, ast.For):
            lp = getattr(lp, "_parent", None)
        if other[0] == "callv" and other[1] == ("attr", SELF,
                                                "_assign_field"):
            acc = other[2][:1] == (cur,)
            place_nodes.append(b_.node)
            continue
        comp_ = other[1][2] if other[0] == "elem" and \
            other[1][0] == "new" else other[1] if other[0] == "elem" else None
        if comp_ is not None and comp_[0] in ("listcomp", "genexp") and \
                len(comp_[2]) == 1 and lp is not None:
            # the masks were collected by a comprehension first and are
            # or-ed in one by one: read the comprehension
            elt, (it_, conds_) = comp_[1], comp_[2][0]
            mf = _mask_form(fl, elt)
            if mf is not None:
                seen_mask = True
                scan_loops.append(lp)
                F = [st for st in subterms(elt) if st[0] == "attr" and
                     st[2] == "length"]
                ok = bool(F) and mf[0] == _poly(fl, F[0]) and \
                    mf[1] == _poly(fl, ("attr", F[0][1], "start_at"))
                it = plain(it_)
                dom_ok = it[0] == "call" and it[1] == (
                    "attr", ("attr", SELF, "fields"), "potential_fields") \
                    and it[2] == (("param", ps[2]),)
                from ..terms import split_cond as _split
                f = [x for c_ in conds_ for x in _split(c_, True)]
                ok = ok and (is_none(F[0]), False) in f and \
                    (is_none(("attr", F[0][1], "start_at")), False) in f
                continue
        mf = _mask_form(fl, other)
        if mf is not None and lp is not None:
            seen_mask = True
            scan_loops.append(lp)
            F = [st for st in subterms(other) if st[0] == "attr" and
                 st[2] == "length"]
            ok = bool(F) and mf[0] == _poly(fl, F[0]) and \
                mf[1] == _poly(fl, ("attr", F[0][1], "start_at"))
            it = plain(T.term(lp.iter, T.cfg.loop_head[id(lp)]))
            if it[0] in ("listcomp", "genexp") and len(it[2]) == 1:
                # a loop over masks collected by a comprehension ranges
                # over what the comprehension ranges over
                it = it[2][0][0]
            dom_ok = it[0] == "call" and it[1] == (
                "attr", ("attr", SELF, "fields"), "potential_fields") and \
                it[2] == (("param", ps[2]),)
            f = T.all_facts(b_.node)
            ok = ok and (is_none(F[0]), False) in f and \
                (is_none(("attr", F[0][1], "start_at")), False) in f
    if not seen_mask:
        raise AnalysisError("_assign_fields: where the bits of the fields "
                            "already laid out are collected was not found "
                            "in the form analysed")
    rep.check(ok, "C08-R3", qual(fn), "occupancy |= ((1 << f.length) - 1) "
              "<< f.start_at for every potential field whose length and "
              "position are known", construct="_assign_fields formula",
              node=fn)
    rep.check(dom_ok, "C08-R4", qual(fn), "the occupancy mask is accumulated "
              "over potential_fields (everything that can be present "
              "together), not only the enabled fields",
              construct="occupancy domain", node=fn,
              fail="the occupancy mask is not accumulated over "
                   "potential_fields(field_values): a field can be placed on "
                   "top of one that may be present with it")
    rep.check(acc, "C08-R4", qual(fn), "each placed field's bits are "
              "accumulated into the occupancy passed to the next placement",
              construct="occupancy accumulation", node=fn)
    if scan_loops and place_nodes:
        # every placement - in the pass that only fixes lengths too - is
        # made against the bits of the fields already laid out
        heads = [T.cfg.loop_head[id(lp_)] for lp_ in scan_loops]
        always = all(T.cfg.must_pass(T.cfg.entry, lambda n_: n_ in heads,
                                     targets=[pn_]) for pn_ in place_nodes)
        rep.check(always, "C08-R4", qual(fn), "the bits of the fields "
                  "already laid out are collected before any field is "
                  "placed, on every path", construct="occupancy scan "
                  "unconditional", node=scan_loops[0],
                  fail="fields are placed on a path that skips the scan of "
                       "the fields already laid out: a field with a fixed "
                       "position and automatic length can grow over a "
                       "neighbour placed earlier")
    # __call__ value range
    fn = program.get(BF + ".__call__")
    T = Terms(fn)
    FV = ("param", fn.args.kwarg.arg)
    E = ("elem", ("items", FV))
    VALUE = ("comp", E, 1)
    cands = []
    for c in calls_in(fn, "get_field"):
        t = T.term(c)
        if t[0] == "callv" and t[2][:1] == (("comp", E, 0),):
            cands.append(t)
    neg = big = must = False
    for FIELD in cands:
        FL = ("attr", FIELD, "length")
        toobig = mk_cmp("LtE", ("binop", "LShift", ("const", 1), FL), VALUE)
        rz = []
        big_ = False
        for r in raises_of(fn):
            rn = T.cfg.node_of(r)
            f = T.all_facts(rn)
            if (mk_cmp("Lt", VALUE, ("const", 0)), True) in f:
                neg = True
                rz.append(rn)
            if (toobig, True) in f and (is_none(FL), False) in f:
                big_ = True
                rz.append(rn)
        if not big_:
            continue
        big = True
        # whenever the length is known and the value does not fit, the error
        # is raised (nothing else gates it)
        H = T.under((is_none(FL), False), (toobig, True),
                    (mk_cmp("Lt", VALUE, ("const", 0)), False))
        gf = [n for n in T.cfg.nodes if n.kind in ("stmt", "test") and
              n.ast is not None and any(
                  isinstance(x, ast.Call) and
                  isinstance(x.func, ast.Attribute) and
                  x.func.attr == "get_field" and T.term(x, n) == FIELD
                  for x in ast.walk(n.ast))]
        heads = list(T.cfg.loop_head.values())
        must = bool(gf) and H.must_pass(gf[0], lambda n: n in rz,
                                        targets=heads + [T.cfg.exit])
    rep.check(neg and big and must, "C08-R3", qual(fn), "a value is "
              "rejected if negative, and whenever the field has a length "
              "and the value is >= 1 << length (whether or not its position "
              "is known yet)", construct="value range check", node=fn,
              fail="a value that does not fit a field of known length can "
                   "be accepted (e.g. when the field's position is not yet "
                   "assigned): the field keeps its length and the value "
                   "spills over its neighbours")
    rep.floor("C08-R3", 5)


def r4_order(program, rep):
    fn = program.get(BF + ".assign_fields")
    inst = qual(fn)
    T = Terms(fn)
    cfg = T.cfg
    nested = [x for x in ast.walk(fn) if isinstance(x, ast.FunctionDef) and
              x is not fn]
    rec = [x for x in nested if calls_in(x, x.name) and
           calls_in(x, "_assign_fields")]
    if len(rec) != 1:
        raise AnalysisError("assign_fields: the leaf-first recursion")
    rec = rec[0]
    c1 = [c for c in ast.walk(fn) if isinstance(c, ast.Call) and
          call_name(c)[0] == "_assign_fields" and not _inside(c, rec)]
    c2 = [c for c in calls_in(rec, "_assign_fields")]
    okf = len(c1) == 1 and len(c2) == 1
    if okf:
        from ..util import bind
        af = program.get(BF + "._assign_fields")
        kw1, kw2 = bind(c1[0], af), bind(c2[0], af)
        okf = isinstance(kw1.get("assign_positions"), ast.Constant) and \
            kw1["assign_positions"].value is False and \
            isinstance(kw2.get("assign_positions"), ast.Constant) and \
            kw2["assign_positions"].value is True
        starts = [c for c in ast.walk(fn) if isinstance(c, ast.Call) and
                  call_name(c)[0] == rec.name and not _inside(c, rec)]

        def site(c):
            # the statement of fn itself that (through helpers) performs c
            for _ in range(4):
                owner = c
                while owner is not None and not isinstance(
                        owner, ast.FunctionDef):
                    owner = getattr(owner, "_parent", None)
                if owner is fn:
                    return cfg.node_containing(c)
                cs = [x for x in ast.walk(fn) if isinstance(x, ast.Call)
                      and call_name(x)[0] == owner.name and
                      not _inside(x, owner)]
                if len(cs) != 1:
                    break
                c = cs[0]
            raise AnalysisError("assign_fields: where a pass is started")
        okf = okf and len(starts) == 1
        if okf:
            s1, s2 = site(c1[0]), site(starts[0])
            okf = cfg.reaches(s1, s2) and not cfg.reaches(s2, s1)
    rep.check(okf, "C08-R4", inst, "fixed-position fields get their lengths "
              "first (assign_positions=False), floating fields are placed "
              "afterwards", construct="pass order", node=fn)
    R = Terms(rec, outer=(T, cfg.exit))
    inner = [c for c in calls_in(rec, rec.name)]
    okc = len(inner) == 1 and len(c2) == 1 and R.cfg.reaches(
        R.cfg.node_containing(inner[0]), R.cfg.node_containing(c2[0])) \
        and not R.cfg.reaches(R.cfg.node_containing(c2[0]),
                              R.cfg.node_containing(inner[0]))
    rep.check(okc, "C08-R4", qual(rec), "children are placed before their "
              "parents in the floating pass", construct="leaf-first order",
              node=rec)
    # every child gets its own requirement dictionary: a fresh copy of the
    # child's requirements, updated with the parent's values, made for that
    # child (inside the loop over the children, or in a helper called there)
    okd = True
    n_sites = 0
    detail = ""
    def view_of(node_):
        owner = node_
        while owner is not None and not isinstance(owner, ast.FunctionDef):
            owner = getattr(owner, "_parent", None)
        if owner is fn:
            return T, fn
        if owner is rec:
            return R, rec
        vs = T.inners(owner)
        if len(vs) != 1:
            raise AnalysisError("assign_fields: a pass is run from several "
                                "places")
        return vs[0], owner
    for view, f_ in ((T, fn), (R, rec)):
        for lp in ast.walk(f_):
            if not (isinstance(lp, ast.For) and any(
                    isinstance(x, ast.Attribute) and x.attr == "children"
                    for x in ast.walk(lp.iter))):
                continue
            if f_ is fn and _inside(lp, rec):
                continue
            view, f2 = view_of(lp)
            ok_l, why = _child_values(view, f2, lp)
            n_sites += 1
            if not ok_l:
                okd = False
                detail = why
        # comprehensions over the children (queue.extend(... for ...))
        for ge in ast.walk(f_):
            if isinstance(ge, (ast.GeneratorExp, ast.ListComp)) and any(
                    isinstance(x, ast.Attribute) and x.attr == "children"
                    for g in ge.generators for x in ast.walk(g.iter)):
                if f_ is fn and _inside(ge, rec):
                    continue
                n_sites += 1
                view, f2 = view_of(ge)
                ok_l, why = _child_values_comp(view, ge)
                if not ok_l:
                    okd = False
                    detail = why
    rep.check(okd and n_sites == 2, "C08-R4", inst, "every child scope gets "
              "a requirement dictionary of its own: its requirements "
              "updated with its parent's values, made afresh for that "
              "child", construct="requirements copied", node=fn,
              fail="the field values handed to a child scope are not a "
                   "dictionary made for that child alone (%s): "
                   "requirements of one child leak into its siblings and "
                   "fields that can be present together are laid out on top "
                   "of each other" % detail)


def _fresh_child_dict(t, loop_node, helpers):
    """Is ``t`` a dict made inside ``loop_node`` (or inside a helper)?"""
    if t[0] != "new":
        return False
    site = SITES.get(t[1])
    if site is None:
        return False
    if _inside(site, loop_node):
        return True
    return any(_inside(site, h) for h in helpers)


def _child_values(view, f_, lp):
    """The dictionary handed on for a child in the loop ``lp``."""
    rfn = _root_fn(view)
    helpers = [x for x in ast.walk(rfn)
               if isinstance(x, ast.FunctionDef) and x is not rfn and
               not calls_in(x, x.name)]
    vt = getattr(view, "t", view)
    head = view.cfg.loop_head[id(lp)]
    E = vt._elem(view.term(lp.iter, head))
    REQ = vt._comp(E, 0, 2)
    handed = []
    for c in ast.walk(lp):
        if isinstance(c, ast.Call) and (
                (isinstance(c.func, ast.Name) and c.func.id == f_.name) or
                (isinstance(c.func, ast.Attribute) and
                 c.func.attr == "append")):
            n = view.cfg.node_containing(c)
            for a in list(c.args) + [k.value for k in c.keywords]:
                t = view.term(a, n)
                for cand in ([t] if t[0] != "tuple" else list(t[1:])):
                    if cand[0] == "new":
                        handed.append((cand, n))
    if not handed:
        return False, "no dictionary is made for the child"
    for t, n in handed:
        if not _fresh_child_dict(t, lp, helpers):
            return False, "the dictionary is created outside the loop"
        pt = plain(t)
        # dict(requirements)  or  dict(requirements, **parent's values)
        if not (pt[:3] == ("call", ("global", "dict"), (plain(REQ),)) and
                (pt[3] == () or len(pt[3]) == 1 and pt[3][0][0] == "**")):
            return False, "it is not a copy of the child's requirements"
    return True, ""


def _root_fn(view):
    root = view
    for _ in range(8):
        if hasattr(root, "host"):
            root = root.host
        elif getattr(root, "outer", None) is not None:
            root = root.outer[0]
        else:
            break
    return root.fn


def _child_values_comp(view, ge):
    rfn = _root_fn(view)
    helpers = [x for x in ast.walk(rfn)
               if isinstance(x, ast.FunctionDef) and x is not rfn and
               not calls_in(x, x.name)]
    n = view.cfg.node_containing(ge)
    t = view.term(ge, n)
    elt = t[1]
    if elt[0] != "tuple":
        return False, "unexpected element"
    for cand in elt[1:]:
        if cand[0] == "new":
            if not (_inside(SITES.get(cand[1]), ge) or any(
                    _inside(SITES.get(cand[1]), h) for h in helpers)):
                return False, "the dictionary is created outside the loop"
            return True, ""
    return False, "no dictionary is made for the child"


class _ChildScan(Client):
    """Path-sensitive reading of a children scan of the field tree: for the
    child of the current outer iteration, does some requirement block it
    (``conf``), has every requirement been looked at (``complete`` and no
    ``hole``), was the child yielded.  A requirement (ident, value) blocks
    when blocks(known_in, known_eq) is true, where known_in / known_eq are
    what the path has established about ``ident in field_values`` and
    ``value == field_values[ident]``."""

    def __init__(self, T, outer, inner, IN, EQ, blocks):
        self.T, self.outer, self.inner = T, outer, inner
        self.IN, self.EQ, self.blocks = IN, EQ, blocks
        self.cache = {}
        self.problems = {}
        self.n_yield = 0

    def start(self):
        # conf, complete, hole, yielded, in_, eq_, cur
        return (False, False, False, False, None, None, False)

    def _info(self, view, n):
        k = n.id
        if k in self.cache:
            return self.cache[k]
        info = None
        a = n.ast
        if n.kind == "join" and n.label == "forbody":
            info = ("outer",) if a is self.outer else \
                ("inner",) if a is self.inner else None
        elif n.kind == "iter":
            info = ("ohead",) if a is self.outer else \
                ("ihead",) if a is self.inner else None
        elif n.kind == "join" and n.label == "forelse" and a is self.inner:
            info = ("idone",)
        elif n.kind == "join" and n.label == "endfor" and a is self.inner:
            info = ("iexit",)
        elif n.kind == "assume":
            try:
                t, p = view.cond(a, n, n.polarity)
            except AnalysisError:
                t = None
            if t is not None and t == self.IN:
                info = ("in", p)
            elif t is not None and t == self.EQ:
                info = ("eq", p)
        elif n.kind == "stmt" and a is not None and any(
                isinstance(x, ast.Yield) for x in ast.walk(a)):
            info = ("yield",)
        self.cache[k] = info
        return info

    def step(self, view, n, env, mon):
        info = self._info(view, n)
        if info is None:
            return mon
        conf, complete, hole, yielded, in_, eq_, cur = mon
        k = info[0]

        def close():
            nonlocal hole, conf
            if cur:
                b = self.blocks(in_, eq_)
                if b is None:
                    hole = True
        if k == "outer":
            return (False, False, False, False, None, None, False)
        if k == "ohead":
            if cur or complete or conf or hole or yielded:
                # coming back from the body
                if not yielded and not conf and complete and not hole:
                    self.problems.setdefault("skipped", n)
            return mon
        if k == "inner":
            close()
            return (conf, complete, hole, yielded, None, None, True)
        if k == "ihead":
            close()
            return (conf, complete, hole, yielded, None, None, False)
        if k == "idone":
            return (conf, True, hole, yielded, None, None, False)
        if k == "iexit":
            close()
            return (conf, complete, hole, yielded, None, None, False)
        if k in ("in", "eq"):
            if k == "in":
                in_ = info[1]
            else:
                eq_ = info[1]
            if cur and self.blocks(in_, eq_) is True:
                conf = True
            return (conf, complete, hole, yielded, in_, eq_, cur)
        if k == "yield":
            self.n_yield += 1
            if conf:
                self.problems.setdefault("blocked", n)
            elif not complete or hole:
                self.problems.setdefault("unexamined", n)
            return (conf, complete, hole, True, in_, eq_, cur)
        return mon


def r4_children(program, rep):
    """Which children of a node of the field tree are visited, decided on
    all paths of the scan (PATHS): _potential_children yields a child iff no
    requirement names a field that is set to another value;
    _enabled_children yields it iff every requirement names a field set to
    that very value."""
    def potential(i, e):
        # blocks iff ident in values and value != values[ident]
        if i is False or e is True:
            return False
        if i is True and e is False:
            return True
        return None

    def enabled(i, e):
        # blocks iff not (ident in values and value == values[ident])
        if i is False or e is False:
            return True
        if i is True and e is True:
            return False
        return None
    for name, blocks, what in (
            ("_potential_children", potential, "no requirement contradicts "
             "a field that is set"),
            ("_enabled_children", enabled, "every requirement is met by a "
             "field that is set")):
        fn = program.get(BF + "._Tree." + name)
        inst = qual(fn)
        T = Terms(fn)
        cfg = T.cfg
        FV = ("param", formals(fn)[1])
        outer = [lp for lp in fn.body if isinstance(lp, ast.For)]
        if len(outer) != 1:
            raise AnalysisError("%s: one loop over the children" % name)
        outer = outer[0]
        inner = [lp for lp in ast.walk(outer) if isinstance(lp, ast.For)
                 and lp is not outer]
        if len(inner) != 1:
            raise AnalysisError("%s: one loop over a child's requirements"
                                % name)
        inner = inner[0]
        it_o = T.term(outer.iter, cfg.loop_head[id(outer)])
        it_i = T.term(inner.iter, cfg.loop_head[id(inner)])
        EO = T._tag(outer.iter, ("elem", it_o))
        if it_o != ("items", ("attr", SELF, "children")) or \
                it_i != ("comp", EO, 0):
            raise AnalysisError("%s: the loops are not over the children "
                                "and a child's requirements" % name)
        EI = T._tag(inner.iter, ("elem", it_i))
        IDENT, VALUE = ("comp", EI, 0), ("comp", EI, 1)
        IN = mk_cmp("In", IDENT, FV)
        EQ = mk_cmp("Eq", VALUE, ("item", FV, IDENT))
        mon = _ChildScan(T, outer, inner, IN, EQ, blocks)
        paths = Paths(T, mon)
        paths.run(T, cfg.entry, {}, mon.start())
        if mon.n_yield == 0:
            raise AnalysisError("%s: no yield reached" % name)
        pr = mon.problems
        rep.check(not pr, "C08-R4", inst, "%s yields a child exactly when "
                  "%s (every requirement looked at on every path, %d "
                  "states)" % (name, what, paths.count),
                  construct="children scan", node=fn,
                  fail="%s: %s" % (name, "; ".join(sorted(
                      {"blocked": "a child is yielded although one of its "
                       "requirements rules it out",
                       "unexamined": "a child is yielded before all of its "
                       "requirements have been looked at (a later one may "
                       "rule it out): fields of contradicting scopes are "
                       "treated as able to coexist",
                       "skipped": "a child none of whose requirements rules "
                       "it out is not yielded"}[k] for k in pr))))


def r5_widths(program, rep):
    fn = program.get(BF + ".__call__")
    inst = qual(fn)
    T = Terms(fn)
    FV = ("param", fn.args.kwarg.arg)
    E = ("elem", ("items", FV))
    ups = _attr_binds(T, lambda X: X[0] == "callv" and X[1][0] == "attr" and
                      X[1][2] == "get_field", "max_value")
    ok = len(ups) == 1
    if ok:
        b_, F, val = ups[0]
        pv = plain(val)
        VAL_ = plain(("comp", E, 1))
        ok = F[2][:1] == (("comp", E, 0),) and pv[0] == "call" and \
            pv[1] == ("global", "max") and len(pv[2]) == 2 and \
            VAL_ in pv[2] and any(
                x[0] == "attr" and x[2] == "max_value" and x[1] == plain(F)
                for x in pv[2])
        if not ok and F[2][:1] == (("comp", E, 0),) and pv == VAL_:
            # if value > field.max_value: field.max_value = value
            for t_, p_ in T.all_facts(b_.node):
                tp = plain(t_)
                if p_ and tp[0] == "cmp" and tp[1] in ("Lt", "LtE") and \
                        tp[3] == VAL_ and tp[2][0] == "attr" and \
                        tp[2][2] == "max_value" and tp[2][1] == plain(F):
                    ok = True
    rep.check(ok, "C08-R5", inst, "every value accepted updates the field's "
              "max_value = max(old, value), over the same field_values the "
              "validation loop covered", construct="max_value update",
              node=fn)
    if ok:
        rz = [T.cfg.node_of(r) for r in raises_of(fn)]
        un = ups[0][0].node
        rep.check(all(not T.cfg.reaches(un, r) for r in rz), "C08-R5", inst,
                  "values are validated before any max_value is updated",
                  construct="validate before update", node=fn)
    fn = program.get(BF + "._assign_field")
    T = Terms(fn)
    FIELD = None
    for c in calls_in(fn, "get_field"):
        FIELD = T.term(c)
    ok = False
    if FIELD is not None:
        LEN0 = _read_of(T, FIELD, "length")
        H = T.under((is_none(LEN0), True))
        lc = _attr_binds(T, lambda X: X == FIELD, "length")
        if len(lc) == 1:
            v = plain(H.term(lc[0][0].value, lc[0][0].node))
            mv = ("attr", plain(FIELD), "max_value")
            v = _unversion(v)
            lg = ("call", ("global", "int"),
                  (("call", ("global", "log"), (mv, ("const", 2)), ()),), ())
            ok = v in (("binop", "Add", lg, ("const", 1)),
                       ("binop", "Add", ("const", 1), lg))
            H2 = T.under((is_none(LEN0), False))
            ok = ok and H2.term(lc[0][0].value, lc[0][0].node) == LEN0
    rep.check(ok, "C08-R5", qual(fn), "an automatic length is "
              "floor(log2(max_value)) + 1 bits; a given length is kept",
              construct="auto length", node=fn)
    rep.floor("C08-R5", 3)


def r6_tags(program, rep):
    fn = program.get(BF + ".add_field")
    inst = qual(fn)
    T = Terms(fn)
    cfg = T.cfg
    ps = formals(fn)
    ups = [x for x in method_calls(T, "update")
           if x[2][0] == "attr" and x[2][2] == "tags"]
    if len(ups) != 1:
        raise AnalysisError("add_field: tag propagation loop not found")
    un, uc, recv, args = ups[0]
    lp = uc
    while lp is not None and not isinstance(lp, ast.For):
        lp = getattr(lp, "_parent", None)
    if lp is None:
        raise AnalysisError("add_field: tag propagation loop not found")
    head = cfg.loop_head[id(lp)]
    body = [s for s in head.succ if s.label == "forbody"][0]
    FIELDS = ("attr", SELF, "fields")
    FVS = ("attr", SELF, "field_values")
    it_t = T.term(lp.iter, head)
    it = plain(it_t)
    PID = ("elem", it_t)
    staged = T.filtered(it_t) if (
        it[0] in ("listcomp", "genexp", "call") and
        not (it[0] == "call" and it[1][0] == "attr")) or (
        it_t[0] == "new" and it_t[2][0] in ("list", "listcomp")) else None
    if staged and len(staged) == 1 and not staged[0][2]:
        # the parents were looked up into a list first: the loop runs over
        # get_field(<each requirement>), one per requirement
        it = plain(staged[0][0])
        PID = ("elem", staged[0][0])
    no_skip = not any(isinstance(n, (ast.Break, ast.Continue, ast.Return))
                      for n in ast.walk(lp))
    parent = plain(recv[1])
    if staged and len(staged) == 1 and recv[1] == ("elem", it_t):
        # an element of the list filled by a loop: what the loop appends
        parent = plain(staged[0][1])
    TAGS = T.term(ast.Name(id=ps[4], ctx=ast.Load()), un)
    ok = no_skip and cfg.must_pass(body, lambda n: n is un,
                                   targets=[head, cfg.exit]) and \
        args == [TAGS] and it == (
            "call", ("attr", FIELDS, "get_field_requirements"),
            (("param", ps[1]), FVS), ()) and \
        parent == ("call", ("attr", FIELDS, "get_field"),
                   (plain(PID), FVS), ())
    rep.check(ok, "C08-R6", inst, "the new field's tags are added to every "
              "field it depends on (every iteration of the requirements "
              "loop reaches the update; no early exit)",
              construct="tag propagation", node=lp,
              fail="the tags are not added to every field in "
                   "get_field_requirements(identifier): an ancestor can miss "
                   "the tag and drop out of the tag's mask")
    rep.check(cfg.must_pass(cfg.entry, lambda n: n is head), "C08-R6", inst,
              "tag propagation runs for every field added",
              construct="tag propagation reached", node=fn)


r4_order.helper_aware = True

r2_explicit.helper_aware = True

def r6_own_tags(program, rep):
    """The tag set of a new field is a set created by add_field itself on
    every path (tags are later added to the sets of ancestors: a set shared
    with the caller or with another field would spread them)."""
    fn = program.get(BF + ".add_field")
    T = Terms(fn)
    cs = [c for c in ast.walk(fn) if isinstance(c, ast.Call) and
          isinstance(c.func, ast.Attribute) and c.func.attr == "_Field"]
    if len(cs) != 1 or len(cs[0].args) < 3:
        raise AnalysisError("add_field: the creation of the field record")
    n = T.cfg.node_containing(cs[0])
    tt = T.term(cs[0].args[2], n)
    alts = alternatives(tt)
    fresh = bool(alts) and all(
        a[0] == "new" and plain(a)[0] == "call" and
        plain(a)[1] == ("global", "set") for a in alts)
    rep.check(fresh, "C08-R6", qual(fn), "the field's tag set is created by "
              "add_field on every path (a copy, never the caller's object)",
              construct="own tag set", node=cs[0],
              fail="on some path the new field keeps the very set object "
                   "the caller passed as tags: tags propagated to one field "
                   "also appear on every other field given that set, and "
                   "the masks of those tags select unrelated fields")


def _occurs(t, what, children):
    """``what`` occurs in the term other than as the argument of the call
    that lists the children (whose elements are (requirements, child))."""
    if t == what:
        return True
    if not isinstance(t, tuple):
        return False
    if t and t[0] in ("call", "callv") and len(t) > 1 and \
            isinstance(t[1], tuple) and t[1][:1] == ("attr",) and \
            t[1][2] == children:
        return False
    return any(_occurs(x, what, children) for x in t
               if isinstance(x, tuple))


def r3_walks(program, rep):
    """The two walks over the field tree each descend with their own
    predicate: the fields *enabled* by a set of values are those of the
    enabled children's enabled fields; the *potential* ones those of the
    potential children's potential fields.  (get_mask / get_value take their
    bits from the first walk, the layout its overlaps from the second.)"""
    for name, children in (("enabled_fields", "_enabled_children"),
                           ("potential_fields", "_potential_children")):
        fn = program.get(BF + "._Tree." + name)
        inst = qual(fn)
        T = Terms(fn)
        ps = formals(fn)
        FV = ("param", ps[1])
        src = [x for x in method_calls(T, [children])
               if plain(x[2]) == SELF and [plain(a) for a in x[3]] == [FV]]
        if len(src) != 1:
            raise AnalysisError("_Tree.%s: the children it descends into "
                                "are not self.%s(field_values)" % (
                                    name, children))
        rec = [x for x in method_calls(T, ["enabled_fields",
                                           "potential_fields"])]
        if not rec:
            raise AnalysisError("_Tree.%s: no descent into the children "
                                "found" % name)
        bad = [x for x in rec if x[1].func.attr != name]
        rep.check(not bad, "C08-R3", inst, "%s descends into the children "
                  "with %s itself" % (name, name),
                  construct="%s recursion" % name,
                  node=(bad[0][1] if bad else fn),
                  fail="%s continues below a child with %s(): fields that "
                       "are %s there are reported as %s - the masks and "
                       "values of a key include (or miss) bits of fields "
                       "that are not (are) present" % (
                           name, bad[0][1].func.attr if bad else "",
                           "only potential" if name == "enabled_fields"
                           else "enabled", name.split("_")[0]))



        # ... and with the whole set of values it was given: whether a field
        # two levels down is present depends on the values of every level
        for x in rec:
            if x[1].func.attr != name:
                continue
            args = [plain(a) for a in x[3]]
            if len(args) != 1 or x[1].keywords:
                raise AnalysisError("_Tree.%s: the recursive call does not "
                                    "take one positional argument" % name)
            a_ = args[0]
            copy_of = (a_[0] in ("call", "callv") and (
                (a_[1] == ("global", "dict") and list(a_[2]) == [FV] and
                 not a_[3]) or
                (a_[1] == ("attr", FV, "copy") and not a_[2])))
            if a_ == FV or copy_of:
                okv = True
            elif _occurs(a_, FV, children):
                raise AnalysisError("_Tree.%s: the values handed down are "
                                    "derived from field_values in a form "
                                    "this rule does not read" % name)
            else:
                okv = False
            rep.check(okv, "C08-R3", inst, "%s hands the children the field "
                      "values it was given" % name,
                      construct="%s recursion values" % name, node=x[1],
                      positive=True,
                      fail="%s descends into a child with %s instead of the "
                           "field values it was given: below that child "
                           "only the values named there count, so fields "
                           "three or more levels down are never %s - "
                           "get_mask / get_value leave their bits out and "
                           "keys that differ only there collide" % (
                               name, show(a_)[:60], name.split("_")[0]))


def r2_derived_instances(program, rep):
    """A bit field with values given (``bf(x=1)``) is a new BitField object;
    fields added and laid out through it are checked against ITS length, so
    it must be given the length, the field tree and the values of the one it
    was derived from."""
    fn = program.get(BF + ".__call__")
    init = program.get(BF + ".__init__")
    T = Terms(fn)
    SELF = ("param", formals(fn)[0])
    made = [c for c in ast.walk(fn) if isinstance(c, ast.Call) and (
        (isinstance(c.func, ast.Call) and call_name(c.func)[0] == "type") or
        call_name(c)[0] == "BitField" or (
            isinstance(c.func, ast.Attribute) and
            c.func.attr == "__class__"))]
    made = [c for c in made if not (isinstance(c.func, ast.Name) and
                                    c.func.id == "type")]
    if len(made) != 1:
        raise AnalysisError("BitField.__call__: the creation of the derived "
                            "instance was not found in the form analysed")
    c = made[0]
    if any(isinstance(a, ast.Starred) for a in c.args) or any(
            k.arg is None for k in c.keywords):
        raise AnalysisError("BitField.__call__: the derived instance is "
                            "created with unpacked arguments; not analysed")
    n = T.cfg.node_containing(c)
    ps = formals(init)[1:]
    got = dict(zip(ps, [T.term(a, n) for a in c.args]))
    for k in c.keywords:
        got[k.arg] = T.term(k.value, n)
    rep.check(plain(got.get(ps[0], ("?",))) == ("attr", SELF, "length"),
              "C08-R2", qual(fn), "a derived bit field is created with the "
              "length of the one it is derived from",
              construct="derived length %s" % show(got.get(ps[0], ("?",))),
              node=c,
              fail="the BitField made by __call__ is not given self.length "
                   "(it gets %s): fields defined or laid out through it are "
                   "checked against another length, so they can be accepted "
                   "beyond the last bit of the bit field or refused inside "
                   "it" % (show(got[ps[0]]) if ps[0] in got else
                           "the default length"))
    rep.check(plain(got.get(ps[1], ("?",))) == ("attr", SELF, "fields"),
              "C08-R2", qual(fn), "a derived bit field shares the field "
              "tree", construct="derived fields", node=c)


def r3_child_search(program, rep):
    """Looking a field up below a node tries EVERY enabled child: several
    child scopes of one node can be enabled at once (two selector fields,
    each opening its own scope), and the field wanted may be in any of them.
    A search that returns - or gives up - on the first child it enters never
    looks at the others: fields that are present are reported unavailable."""
    m = program.module("rig.bitfield")
    n_sites = 0
    for q, fn in sorted(m.defs.items()):
        if not isinstance(fn, ast.FunctionDef) or \
                not q.startswith("BitField._Tree."):
            continue
        for lp in ast.walk(fn):
            if not (isinstance(lp, ast.For) and any(
                    isinstance(c, ast.Call) and
                    call_name(c)[0] == "_enabled_children"
                    for c in ast.walk(lp.iter))):
                continue
            rec = [r for r in ast.walk(lp) if isinstance(r, ast.Return) and
                   r.value is not None and any(
                       isinstance(c, ast.Call) and
                       call_name(c)[0] == fn.name and
                       isinstance(c.func, ast.Attribute)
                       for c in ast.walk(r.value))]
            for r in rec:
                n_sites += 1
                # the innermost try around the recursive return, inside the
                # loop, whose handler falls through to the next child
                t = getattr(r, "_parent", None)
                while t is not None and t is not lp and \
                        not isinstance(t, ast.Try):
                    if isinstance(t, ast.If):
                        # entered only for a child picked by a test of its
                        # own: which children that admits is not read
                        raise AnalysisError("%s: a child is searched only "
                                            "under a test; not analysed" % q)
                    t = getattr(t, "_parent", None)
                ok = isinstance(t, ast.Try) and any(
                    not any(isinstance(x, (ast.Raise, ast.Return,
                                           ast.Break))
                            for x in ast.walk(h))
                    for h in t.handlers)
                rep.check(ok, "C08-R3", "rig.bitfield:" + q, "the search "
                          "below a node goes on to the next enabled child "
                          "when one child does not have the field",
                          construct="child search %s" % fn.name, node=r,
                          fail="%s returns what the FIRST enabled child "
                               "answers and lets that child's "
                               "UnavailableFieldError end the search: a "
                               "field in a later enabled child is reported "
                               "unavailable" % q)
    if not n_sites:
        raise AnalysisError("_Tree: no search over the enabled children in "
                            "the form analysed")


def check(program, rep):
    program.module("rig.bitfield")
    rep.guard("C08-R1", r1_accept, program, rep)
    rep.guard(["C08-R1", "C08-R3", "C08-R4"], r1_scan, program, rep)
    rep.guard("C08-R2", r2_explicit, program, rep)
    rep.guard("C08-R2", r2_derived_instances, program, rep)
    rep.guard(["C08-R3", "C08-R4"], r3_masks, program, rep)
    rep.guard("C08-R3", r3_walks, program, rep)
    rep.guard("C08-R3", r3_child_search, program, rep)
    rep.guard("C08-R4", r4_order, program, rep)
    rep.guard("C08-R4", r4_children, program, rep)
    rep.guard("C08-R5", r5_widths, program, rep)
    rep.guard("C08-R6", r6_tags, program, rep)
    rep.guard("C08-R6", r6_own_tags, program, rep)
    rep.floor("C08-R4", 5)
    # the slips that are visible wherever they occur (NAMELINK, FALSY, STALE,
    # NOEFFECT, SLIPS - DESIGN.md 9.13-9.15), over the property's modules
    from .. import namelink as _nl
    rep.guard("C08-R7", _nl.rule, program, rep, "C08-R7",
              ['rig.bitfield'], floor=0)
    return finish(rep, program, EXPLANATION, NOT_DECIDED,
                  trusted=["the engines' arithmetic normal forms (pow2)"])
